#!/bin/sh
# Build the framework from files on disk only (offline): regenerate the tables from /repo, build the Lean
# library (models, lemmas, property theorems) and the compiled model driver.
set -e
cd "$(dirname "$0")"
/venv/bin/python harness/extract.py
cd lean
lake build
