#!/bin/sh
# Developer tool: the official run of every kept seeded change against /repo itself with the checks as they are now: apply the change
# (git -C /repo apply), run its own property's quick check, undo it (git -C /repo checkout -- .).  Evidence of these runs goes to a scratch
# directory (never to /verif/evidence).  Writes seeded/<id>/official_run.txt and the "official_run" entry of seeded/<id>/meta.json.
# NOTHING ELSE may use /repo while this runs.   usage: tools/run_seeded.sh [id-glob]
cd /verif
pat=${1:-*}
for d in seeded/$pat/; do
  id=$(basename $d); pid=$(echo $id | cut -c1-3)
  git -C /repo checkout -q -- .
  if git -C /repo apply /verif/$d/patch.diff 2>/dev/null; then
    VERIF_EVIDENCE_DIR=/tmp/seeded_evid ./check $pid --tier quick > /tmp/seeded_run.out 2>&1; rc=$?
    git -C /repo checkout -q -- .
    { echo "git -C /repo apply seeded/$id/patch.diff; ./check $pid --tier quick; git -C /repo checkout -- .   -> exit $rc"; grep "^VIOLATION\|^\[$pid\]" /tmp/seeded_run.out | head -4; grep "^   \[\|^   " /tmp/seeded_run.out | head -2 | cut -c1-400; } > $d/official_run.txt
    python3 - "$d" "$rc" <<'PY'
import json, sys, re, subprocess
d, rc = sys.argv[1], int(sys.argv[2])
out = open("/tmp/seeded_run.out").read()
viol = [l for l in out.splitlines() if l.startswith("VIOLATION")]
m = json.load(open(d + "meta.json"))
m["official_run"] = {"verif_commit": subprocess.run(["git", "-C", "/verif", "rev-parse", "--short", "HEAD"], capture_output=True, text=True).stdout.strip(),
                     "command": f"git -C /repo apply seeded/{m['id']}/patch.diff && ./check {m['breaks_property']} --tier quick; git -C /repo checkout -- .",
                     "exit": rc, "caught": rc == 1, "with_concrete_failing_input": rc == 1 and bool(viol) and not all("no-failing-input-found" in v for v in viol),
                     "first_violation": next((l.strip()[:300] for l in out.splitlines() if l.startswith("   ")), None)}
json.dump(m, open(d + "meta.json", "w"), indent=1)
PY
    echo "$id exit=$rc"
  else
    echo "$id patch does not apply to /repo HEAD" | tee $d/official_run.txt
  fi
done
git -C /repo checkout -q -- .
git -C /repo status --short | head -3
