#!/bin/sh
# Developer tool: the official run of every kept seeded change against /repo itself: apply it, run its own property's check, undo it.
# Evidence of these runs goes to a scratch directory (never to /verif/evidence).  Writes seeded/<id>/official_run.txt.
# NOTHING ELSE may use /repo while this runs.
cd /verif
for d in seeded/*/; do
  id=$(basename $d); pid=$(echo $id | cut -c1-3)
  git -C /repo checkout -q -- .
  if git -C /repo apply $d/patch.diff 2>/dev/null; then
    VERIF_EVIDENCE_DIR=/tmp/seeded_evid ./check $pid --tier quick > /tmp/seeded_run.out 2>&1; rc=$?
    git -C /repo checkout -q -- .
    { echo "git -C /repo apply seeded/$id/patch.diff; ./check $pid --tier quick; git -C /repo checkout -- .   -> exit $rc"; grep "^VIOLATION\|^\[$pid\]" /tmp/seeded_run.out | head -4; grep "^   \[" /tmp/seeded_run.out | head -2; } > $d/official_run.txt
    echo "$id exit=$rc"
  else
    echo "$id patch does not apply to /repo HEAD" | tee $d/official_run.txt
  fi
done
git -C /repo checkout -q -- .
git -C /repo status --short | head -3
