#!/bin/sh
# second lane: same as eval_all.sh but in reverse order, with its own worktree and eval copy
mkdir -p /tmp/mut/results
for id in $(cat /tmp/mut/done.txt | tr ' ' '\n' | tac); do
  d=/tmp/mut/$id
  for n in 2 1; do
    if [ -f $d/out/patch$n.diff ] && [ -f $d/out/demo$n.py ] && [ ! -f /tmp/mut/results/${id}_$n.json ] && [ ! -f /tmp/mut/results/${id}_$n.json.tmp ]; then
      EVAL_WT=/tmp/mut_eval2 python3 /verif/tools/eval_mutant.py $d $n /tmp/verif_eval2 > /tmp/mut/results/${id}_$n.json.tmp 2>/tmp/mut/results/${id}_$n.err && mv /tmp/mut/results/${id}_$n.json.tmp /tmp/mut/results/${id}_$n.json
    fi
  done
done
