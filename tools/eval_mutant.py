#!/usr/bin/env python3
"""Developer tool (not a registered check): confirm a seeded change and run the checks against it.

usage: eval_mutant.py <worktree> <n> <eval_copy_of_verif> [props...]
  1. clean worktree: demo must exit 0;  2. apply out/patch<n>.diff: the repository's test-suite must pass, demo must exit 1;
  3. run ./check for the listed properties (default: all 20) in <eval_copy_of_verif> with YNCA_REPO=<worktree>;  4. undo the patch."""
import json
import os
import subprocess
import sys
import time

src, n, ev = sys.argv[1], sys.argv[2], sys.argv[3]
wt = os.environ.get("EVAL_WT", "/tmp/mut_eval")          # the tool's own scratch worktree (never an agent's)
props = sys.argv[4:] or ["C%02d" % i for i in range(1, 21)]
out = {"source": src, "n": n}
env = dict(os.environ, PYTHONPATH=wt)


def sh(cmd, cwd=wt, timeout=900, env=env):
    r = subprocess.run(cmd, cwd=cwd, shell=True, capture_output=True, text=True, timeout=timeout, env=env)
    return r.returncode, (r.stdout + r.stderr)


sh("git checkout -- . && git clean -fdq && git checkout -q --detach main")
import shutil
shutil.rmtree(os.path.join(wt, "out"), ignore_errors=True)
shutil.copytree(os.path.join(src, "out"), os.path.join(wt, "out"))
# demos assert that ynca lies under the agent's worktree path: point them at the evaluation worktree
for f in os.listdir(os.path.join(wt, "out")):
    if f.endswith(".py"):
        pth = os.path.join(wt, "out", f)
        txt = open(pth).read().replace(src, wt)
        open(pth, "w").write(txt)
rc, o = sh(f"/venv/bin/python out/demo{n}.py", timeout=180)
out["demo_clean_rc"] = rc
rc, o = sh(f"git apply out/patch{n}.diff")
out["apply_rc"] = rc
if rc == 0:
    t = time.time()
    rc, o = sh("/venv/bin/python -m pytest -q -p no:cacheprovider -x 2>&1 | tail -15", timeout=1200)
    import re as _re
    summ = [l for l in o.strip().splitlines() if _re.search(r"\d+ (passed|failed|error)", l)]
    out["tests"] = summ[-1] if summ else (o.strip().splitlines()[-1] if o.strip() else "")
    out["tests_pass"] = " passed" in out["tests"] and "failed" not in out["tests"] and "error" not in out["tests"]
    if not out["tests_pass"]:
        # tests/test_connection.py::test_disconnect is timing-sensitive and fails now and then on the unchanged code under load: one re-run
        rc, o = sh("/venv/bin/python -m pytest -q -p no:cacheprovider 2>&1 | tail -15", timeout=1200)
        summ = [l for l in o.strip().splitlines() if _re.search(r"\d+ (passed|failed|error)", l)]
        out["tests_first_run"] = out["tests"]
        out["tests"] = summ[-1] if summ else ""
        out["tests_pass"] = " passed" in out["tests"] and "failed" not in out["tests"] and "error" not in out["tests"]
    rc, o = sh(f"/venv/bin/python out/demo{n}.py", timeout=180)
    out["demo_patched_rc"] = rc
    out["demo_patched_tail"] = o.strip()[-300:]
    out["checks"] = {}
    e2 = dict(os.environ, YNCA_REPO=wt)
    for p in props:
        t = time.time()
        try:
            rc, o = sh(f"./check {p} --tier quick", cwd=ev, timeout=1500, env=e2)
        except subprocess.TimeoutExpired:
            rc, o = 2, "TIMEOUT"
        viol = [l for l in o.splitlines() if l.startswith("VIOLATION")]
        detail = [l.strip() for l in o.splitlines() if l.startswith("   ")][:2]
        out["checks"][p] = {"rc": rc, "violation": viol[:1], "detail": detail, "wall": round(time.time() - t, 1)}
sh("git checkout -- . && git clean -fdq && git checkout -q --detach main")
print(json.dumps(out, indent=1))
