#!/usr/bin/env python3
import glob, json, os
for f in sorted(glob.glob('/tmp/mut/results/*.json')):
    r = json.load(open(f))
    name = os.path.basename(f)[:-5]
    ok = r.get("demo_clean_rc") == 0 and r.get("tests_pass") and r.get("demo_patched_rc") == 1
    caught = [p for p, c in r.get("checks", {}).items() if c["rc"] == 1]
    broken = [p for p, c in r.get("checks", {}).items() if c["rc"] not in (0, 1)]
    nfi = [p for p, c in r.get("checks", {}).items() if c["violation"] and "no-failing-input-found" in c["violation"][0]]
    print(f"{name}: valid={ok} tests={r.get('tests')!r} caught_by={caught} no-input={nfi} broken={broken}")
