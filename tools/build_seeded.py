#!/usr/bin/env python3
"""Developer tool: build /verif/seeded/<id>/ (patch.diff, demo.py, notes.md, meta.json) from the sub-agents' deliveries and the
evaluation results.  usage: build_seeded.py <round> <agents_dir> <results_dir>   (round 1: /tmp/mut /tmp/mut/results; round 3: /tmp/mut3 /tmp/mut3/results)"""
import glob, json, os, re, shutil, sys

import subprocess
rnd, adir, rdir = sys.argv[1], sys.argv[2], sys.argv[3]
BASE = subprocess.run(["git", "-C", "/repo", "rev-parse", "--short", "HEAD"], capture_output=True, text=True).stdout.strip()
props = {json.loads(l)["id"]: json.loads(l) for l in open("/verif/properties.jsonl")}
out_root = "/verif/seeded"
os.makedirs(out_root, exist_ok=True)
for p in sorted(glob.glob(rdir + "/C*_*.json")):
    r = json.load(open(p))
    name = os.path.basename(p)[:-5]
    pid, n = name.split("_")
    valid = r.get("demo_clean_rc") == 0 and r.get("tests_pass") and r.get("demo_patched_rc") == 1 and r.get("apply_rc") == 0
    sid = f"{pid}-r{rnd}-{n}"
    d = os.path.join(out_root, sid)
    if not valid:
        shutil.rmtree(d, ignore_errors=True)
        print(sid, "NOT KEPT (not confirmed):", r.get("demo_clean_rc"), r.get("tests"), r.get("demo_patched_rc"))
        continue
    os.makedirs(d, exist_ok=True)
    src = os.path.join(adir, pid, "out")
    shutil.copy(os.path.join(src, f"patch{n}.diff"), os.path.join(d, "patch.diff"))
    demo = open(os.path.join(src, f"demo{n}.py")).read().replace(os.path.join(adir, pid), "/repo")
    open(os.path.join(d, "demo.py"), "w").write(demo)
    notes = open(os.path.join(src, f"notes{n}.md")).read() if os.path.exists(os.path.join(src, f"notes{n}.md")) else ""
    open(os.path.join(d, "notes.md"), "w").write(notes)
    lines = [l.strip() for l in notes.splitlines() if l.strip()]
    title = lines[0].lstrip("# ").strip() if lines else ""
    needs = [l.lstrip("-* ").strip() for l in lines if re.search(r"needs? (to manifest|:)|^[-* ]*\**needs", l, re.I)]
    ch = r.get("checks", {})
    caught = sorted(k for k, v in ch.items() if v["rc"] == 1)
    noin = sorted(k for k, v in ch.items() if v["rc"] == 1 and v["violation"] and "no-failing-input" in v["violation"][0])
    meta = {
        "id": sid, "breaks_property": pid, "property_title": props[pid]["title"], "origin": f"fresh sub-agent, round {rnd}, given only the property text and a scratch worktree",
        "summary": title, "needs_to_manifest": needs[:3] or ["see notes.md"],
        "base_commit": BASE,
        "confirmed": {"how": "tools/eval_mutant.py in a scratch worktree of /repo (outside /repo and /verif)", "demo_on_clean_tree_rc": r.get("demo_clean_rc"),
                      "patch_applies": r.get("apply_rc") == 0, "test_suite_with_patch": r.get("tests"), "demo_with_patch_rc": r.get("demo_patched_rc"),
                      "demo_with_patch_says": r.get("demo_patched_tail", "")[-200:]},
        "checks_run": "all 20 quick checks (./check Cxx --tier quick, VERIF_SEED=0) with YNCA_REPO=<scratch worktree with the patch applied>, at the state of /verif when the change was delivered (before any strengthening it prompted); the official run against /repo itself with the final checks is in official_run.txt",
        "caught_by": caught, "caught_with_concrete_failing_input": sorted(set(caught) - set(noin)), "caught_as_broken_correspondence_only": noin,
        "caught_by_its_own_property_check": pid in caught,
        "replay": f"git -C /repo apply /verif/seeded/{sid}/patch.diff && (cd /verif && ./check {pid}); git -C /repo checkout -- .",
    }
    json.dump(meta, open(os.path.join(d, "meta.json"), "w"), indent=1)
    print(sid, "kept; caught by", caught)
