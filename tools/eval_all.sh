#!/bin/sh
# Developer tool: evaluate the seeded changes of the agents listed in /tmp/mut/done.txt that have no result yet
# (sequentially, in the tool's own scratch worktree /tmp/mut_eval and an eval copy of /verif).
mkdir -p /tmp/mut/results
for id in $(cat /tmp/mut/done.txt); do
  d=/tmp/mut/$id
  for n in 1 2; do
    if [ -f $d/out/patch$n.diff ] && [ -f $d/out/demo$n.py ] && [ ! -f /tmp/mut/results/${id}_$n.json ] && [ ! -f /tmp/mut/results/${id}_$n.json.tmp ]; then
      python3 /verif/tools/eval_mutant.py $d $n /tmp/verif_eval > /tmp/mut/results/${id}_$n.json.tmp 2>/tmp/mut/results/${id}_$n.err && mv /tmp/mut/results/${id}_$n.json.tmp /tmp/mut/results/${id}_$n.json
    fi
  done
done
