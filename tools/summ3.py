#!/usr/bin/env python3
"""Developer tool: summarise /tmp/mut3/results (or another directory given as argument)."""
import glob, json, os, sys
d = sys.argv[1] if len(sys.argv) > 1 else "/tmp/mut3/results"
for p in sorted(glob.glob(d + "/*.json")):
    r = json.load(open(p)); id = os.path.basename(p)[:-5]
    valid = r.get('demo_clean_rc') == 0 and r.get('tests_pass') and r.get('demo_patched_rc') == 1
    ch = r.get('checks', {})
    caught = [k for k, v in ch.items() if v['rc'] == 1]
    noin = [k for k, v in ch.items() if v['rc'] == 1 and v['violation'] and 'no-failing-input' in v['violation'][0]]
    broken = [k for k, v in ch.items() if v['rc'] not in (0, 1)]
    tgt = id[:3]
    print(id, 'valid' if valid else f"INVALID(clean={r.get('demo_clean_rc')},{r.get('tests')},patched={r.get('demo_patched_rc')},apply={r.get('apply_rc')})",
          'TARGET:' + ('yes' if tgt in caught and tgt not in noin else 'noinput' if tgt in caught else 'NO'), 'caught', caught, 'broken', broken)
