#!/bin/sh
# Developer tool: evaluate round-3 seeded changes as agents finish.  Ids are appended to /tmp/mut3/done.txt; stop with `touch /tmp/mut3/stop`.
mkdir -p /tmp/mut3/results
while [ ! -f /tmp/mut3/stop ]; do
  for id in $(cat /tmp/mut3/done.txt 2>/dev/null); do
    d=/tmp/mut3/$id
    for n in 1 2 3; do
      if [ -f $d/out/patch$n.diff ] && [ -f $d/out/demo$n.py ] && [ ! -f /tmp/mut3/results/${id}_$n.json ] && [ ! -f /tmp/mut3/results/${id}_$n.json.tmp ]; then
        rsync -a --delete --exclude .git --exclude evidence /verif/ /tmp/verif_eval/
        mkdir -p /tmp/verif_eval/evidence
        python3 /verif/tools/eval_mutant.py $d $n /tmp/verif_eval > /tmp/mut3/results/${id}_$n.json.tmp 2>/tmp/mut3/results/${id}_$n.err && mv /tmp/mut3/results/${id}_$n.json.tmp /tmp/mut3/results/${id}_$n.json
      fi
    done
  done
  sleep 20
done
