#!/bin/sh
# Developer tool: run every thorough tier once (evidence to a scratch directory), log exit codes and wall times.
cd /verif
for p in $(seq -f "C%02g" 1 20); do
  s=$(date +%s)
  VERIF_EVIDENCE_DIR=/tmp/thorough_evid timeout 5400 ./check $p --tier thorough > /tmp/thorough_$p.out 2>&1; rc=$?
  e=$(date +%s)
  echo "$p exit=$rc wall=$((e-s))s $(grep "^\[$p\]" /tmp/thorough_$p.out | tail -1)"
done
