#!/usr/bin/env python3
"""Developer tool: one-shot re-evaluation of every delivered seeded change of all rounds against the current /verif and /repo main,
N workers, each with its own scratch worktree (/tmp/mut_evalL<w>) and eval copy of /verif (/tmp/verif_evalL<w>).
usage: final_eval.py <workers> [root ...]      results -> <root>/results_final/<id>_<n>.json"""
import glob, os, subprocess, sys
from multiprocessing import Pool

W = int(sys.argv[1])
roots = sys.argv[2:] or ["/tmp/mut", "/tmp/mut3", "/tmp/mut4"]
jobs = []
for root in roots:
    os.makedirs(os.path.join(root, "results_final"), exist_ok=True)
    for p in sorted(glob.glob(os.path.join(root, "C??", "out", "patch?.diff"))):
        pid = p.split("/")[-3]
        n = os.path.basename(p)[5]
        if os.path.exists(os.path.join(root, pid, "out", f"demo{n}.py")):
            out = os.path.join(root, "results_final", f"{pid}_{n}.json")
            if not os.path.exists(out):
                jobs.append((root, pid, n, out))


def work(args):
    k, (root, pid, n, out) = args
    w = k % W + 1
    wt = f"/tmp/mut_evalL{w}"
    ev = f"/tmp/verif_evalL{w}"
    if not os.path.isdir(wt):
        subprocess.run(["git", "-C", "/repo", "worktree", "add", "--detach", wt, "main"], capture_output=True)
    subprocess.run(["rsync", "-a", "--delete", "--exclude", ".git", "--exclude", "evidence", "/verif/", ev + "/"], check=True)
    os.makedirs(ev + "/evidence", exist_ok=True)
    r = subprocess.run(["python3", "/verif/tools/eval_mutant.py", os.path.join(root, pid), n, ev], capture_output=True, text=True, env=dict(os.environ, EVAL_WT=wt))
    if r.returncode == 0 and r.stdout.strip().startswith("{"):
        open(out, "w").write(r.stdout)
        return f"{root} {pid}_{n} ok"
    open(out + ".err", "w").write(r.stdout + r.stderr)
    return f"{root} {pid}_{n} FAILED"


def run_share_global(share):
    return [work(x) for x in share]


if __name__ == "__main__":
    print(len(jobs), "jobs")
    # a worker must never share its worktree: jobs are dealt round-robin and each worker processes its own share sequentially
    shares = [[(k, j) for k, j in enumerate(jobs) if k % W == w] for w in range(W)]
    with Pool(W) as pool:
        for res in pool.imap_unordered(run_share_global, shares):
            for line in res:
                print(line, flush=True)
