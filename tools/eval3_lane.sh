#!/bin/sh
# Developer tool: extra evaluation lane.  usage: eval3_lane.sh <n> <rotation>   (own scratch worktree /tmp/mut_evalL<n> and eval copy /tmp/verif_evalL<n>)
n=$1; rot=$2; ROOT=${ROOT:-/tmp/mut3}; RES=${RES:-$ROOT/results}
export EVAL_WT=/tmp/mut_evalL$n
[ -d $EVAL_WT ] || git -C /repo worktree add --detach $EVAL_WT main >/dev/null 2>&1
mkdir -p $RES
while [ ! -f $ROOT/stop ]; do
  ids=$(cat $ROOT/done.txt | tr ' ' '\n' | awk -v r=$rot '{a[NR]=$0} END{for(i=0;i<NR;i++) print a[(i+r)%NR+1]}')
  for id in $ids; do
    d=$ROOT/$id
    for k in 2 1 3; do
      if [ -f $d/out/patch$k.diff ] && [ -f $d/out/demo$k.py ] && [ ! -f $RES/${id}_$k.json ] && [ ! -f $RES/${id}_$k.json.tmp ]; then
        touch $RES/${id}_$k.json.tmp
        rsync -a --delete --exclude .git --exclude evidence /verif/ /tmp/verif_evalL$n/
        mkdir -p /tmp/verif_evalL$n/evidence
        python3 /verif/tools/eval_mutant.py $d $k /tmp/verif_evalL$n > $RES/${id}_$k.json.tmp 2>$RES/${id}_$k.err && mv $RES/${id}_$k.json.tmp $RES/${id}_$k.json
      fi
    done
  done
  sleep 20
done
