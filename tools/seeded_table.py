#!/usr/bin/env python3
"""Developer tool: markdown table of /verif/seeded/*/meta.json for DESIGN.md Section 10 (replaces the text between the two markers)."""
import glob, json, os, re
rows = []
metas = [json.load(open(p)) for p in sorted(glob.glob("/verif/seeded/*/meta.json"))]
for m in metas:
    own = m["breaks_property"]
    if own in m["caught_with_concrete_failing_input"]:
        o = "yes (failing input)"
    elif own in m["caught_by"]:
        o = "yes (broken correspondence, no-failing-input-found)"
    else:
        o = "**no**"
    others = [c for c in m["caught_by"] if c != own]
    summ = re.sub(r"\s+", " ", m["summary"]).replace("|", "/")[:110]
    rows.append(f"| `{m['id']}` | {summ} | {o} | {', '.join(others) if others else '—'} |")
n = len(metas)
own_yes = sum(1 for m in metas if m["breaks_property"] in m["caught_by"])
own_inp = sum(1 for m in metas if m["breaks_property"] in m["caught_with_concrete_failing_input"])
anyc = sum(1 for m in metas if m["caught_by"])
txt = (f"{n} confirmed seeded changes are kept.  Caught by the check of the property they were written against: {own_yes} of {n} "
       f"({own_inp} with a concrete failing input, {own_yes - own_inp} as a broken correspondence / proof obligation only); caught by at least one check: {anyc} of {n}.\n\n"
       "| seeded change | what it is | caught by its own property's check | also caught by |\n|---|---|---|---|\n" + "\n".join(rows) + "\n")
s = open("/verif/DESIGN.md").read()
a, b = "<!-- SEEDED-TABLE-BEGIN -->", "<!-- SEEDED-TABLE-END -->"
if "SEEDED_TABLE_PLACEHOLDER" in s:
    s = s.replace("SEEDED_TABLE_PLACEHOLDER", a + "\n" + txt + b)
else:
    s = s[:s.index(a)] + a + "\n" + txt + s[s.index(b):]
open("/verif/DESIGN.md", "w").write(s)
print(txt[:600])
