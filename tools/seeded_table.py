#!/usr/bin/env python3
"""Developer tool: markdown table of /verif/seeded/*/meta.json for DESIGN.md Section 10 (replaces the text between the two markers)."""
import glob, json, os, re
rows = []
metas = [json.load(open(p)) for p in sorted(glob.glob("/verif/seeded/*/meta.json"))]
def first(m):
    own = m["breaks_property"]
    if own in m["caught_with_concrete_failing_input"]:
        return "yes"
    if own in m["caught_by"]:
        return "yes (no input)"
    return "**no**"
def final(m):
    o = m.get("official_run")
    if not o:
        return "—"
    if o["caught"]:
        return "yes" if o["with_concrete_failing_input"] else "yes (no-failing-input-found)"
    return "**no**" if o["exit"] == 0 else f"check broken (exit {o['exit']})"
for m in metas:
    own = m["breaks_property"]
    others = [c for c in m["caught_by"] if c != own]
    summ = re.sub(r"\s+", " ", m["summary"]).replace("|", "/")[:105]
    rows.append(f"| `{m['id']}` | {summ} | {first(m)} | {final(m)} | {', '.join(others) if others else '—'} |")
n = len(metas)
d_own = sum(1 for m in metas if m["breaks_property"] in m["caught_by"])
f_own = sum(1 for m in metas if m.get("official_run", {}).get("caught"))
f_inp = sum(1 for m in metas if m.get("official_run", {}).get("with_concrete_failing_input"))
anyc = sum(1 for m in metas if m["caught_by"])
txt = (f"{n} confirmed seeded changes are kept (rounds 4-8).  Caught by the check of the property they were written against **at delivery time** (the checks as they "
       f"were before the change was looked at): {d_own} of {n}; caught by at least one check then: {anyc} of {n}.  **Final checks, official run against /repo**: {f_own} of {n} "
       f"({f_inp} with a concrete failing input, {f_own - f_inp} as a broken proof obligation / correspondence with `no-failing-input-found`).\n\n"
       "| seeded change | what it is | own check at delivery | own check, final (official run) | other checks that caught it at delivery |\n|---|---|---|---|---|\n" + "\n".join(rows) + "\n")
s_ = open("/verif/DESIGN.md").read()
a, b = "<!-- SEEDED-TABLE-BEGIN -->", "<!-- SEEDED-TABLE-END -->"
if "SEEDED_TABLE_PLACEHOLDER" in s_:
    s_ = s_.replace("SEEDED_TABLE_PLACEHOLDER", a + "\n" + txt + b)
else:
    s_ = s_[:s_.index(a)] + a + "\n" + txt + s_[s_.index(b):]
open("/verif/DESIGN.md", "w").write(s_)
print(txt[:700])
