#!/bin/sh
# second lane of eval3_loop.sh (reverse order, own scratch worktree and eval copy)
mkdir -p /tmp/mut3/results
export EVAL_WT=/tmp/mut_eval2
while [ ! -f /tmp/mut3/stop ]; do
  for id in $(cat /tmp/mut3/done.txt 2>/dev/null | tr ' ' '\n' | tac); do
    d=/tmp/mut3/$id
    for n in 3 2 1; do
      if [ -f $d/out/patch$n.diff ] && [ -f $d/out/demo$n.py ] && [ ! -f /tmp/mut3/results/${id}_$n.json ] && [ ! -f /tmp/mut3/results/${id}_$n.json.tmp ]; then
        rsync -a --delete --exclude .git --exclude evidence /verif/ /tmp/verif_eval2/
        mkdir -p /tmp/verif_eval2/evidence
        python3 /verif/tools/eval_mutant.py $d $n /tmp/verif_eval2 > /tmp/mut3/results/${id}_$n.json.tmp 2>/tmp/mut3/results/${id}_$n.err && mv /tmp/mut3/results/${id}_$n.json.tmp /tmp/mut3/results/${id}_$n.json
      fi
    done
  done
  sleep 20
done
