#!/bin/sh
# Developer tool: apply a patch file in the scratch worktree /tmp/mut_eval3 and run the given checks against it (evidence goes to /tmp/try_evid).
# usage: try_patch.sh <patch.diff> <prop> [<prop>...]   (VERIF_SEED / TIER honoured)
p=$1; shift
wt=/tmp/mut_eval3
[ -d $wt ] || git -C /repo worktree add --detach $wt HEAD >/dev/null 2>&1
git -C $wt checkout -q -- . ; git -C $wt checkout -q --detach main; git -C $wt apply $p || { echo "patch does not apply"; exit 3; }
for c in "$@"; do
  YNCA_REPO=$wt VERIF_EVIDENCE_DIR=/tmp/try_evid /verif/check $c --tier ${TIER:-quick} 2>&1 | grep -v "^  broken\|^   " | tail -4
done
git -C $wt checkout -q -- .
