#!/usr/bin/env python3
"""developer helper: (re)write MANIFEST.json from the table below"""
import json
props = [json.loads(l) for l in open('/verif/properties.jsonl')]
B1 = "lean4+b1"
B2 = "lean4+b2"
TB = ("Trusted: Lean 4.33 kernel; axioms propext/Classical.choice/Quot.sound (printed per theorem by the axiom audit on every run); "
      "the translator harness/extract.py; the correspondence harness and the monitors (Python). ")
C = {
 "C01": ("proof", B2, "Lean 4 theorems over the L4 small-step model of caller/sender/reader threads (Props/C01.lean): wire ++ in-flight ++ queue is an order-preserving sub-sequence of the submissions in every reachable state (at most once, in order, text unchanged), equality while the connection is up, quiescence, every other write is the probe. Tie: the real connection with real threads under the deterministic scheduler (1..4 callers, bursts, idle gaps, random latencies, line-level preemption); every observable trace is checked against the model by the compiled acceptor (subset simulation) and by an independent wire-vs-submission monitor.",
         "Modelled rather than verified: ynca/connection.py, pyserial ReaderThread/LineReader (hand model, validated by trace inclusion). Liveness (idle reaches quiescence) is observed by the monitor, not proved. Domain: command texts without CR LF, raw texts other than the in-band sentinels.",
         "Lean 4 proof (invariant over all label sequences) + trace inclusion of scheduled real executions"),
 "C02": ("proof", B1, "Lean 4 theorems (Props/C02.lean): chunk independence of the framing for every stream and partition, framing round trip for every list of lines, UTF-8 never produces CR LF, parse theorem for every S, F and any V, status literals. Tie: real YncaProtocol.data_received / handle_line vs the compiled model on random partitions (cuts inside CR LF and multi-byte characters) and an adversarial alphabet; independent bytes.split/str.partition oracle searches the real code.",
         "Modelled rather than verified: pyserial Packetizer/LineReader, YncaProtocol.handle_line, the one regex (hand model). bytes.decode('replace') on invalid UTF-8 is opaque.",
         "Lean 4 proof (structural/strong induction) + differential correspondence"),
 "C03": ("proof", B1, "Lean 4 theorem C03_read_is_last for every history and every well-formed class table (discharged on the regenerated tables by kernel evaluation), frame lemma, nothing-transmitted lemma. Tie: real subunit objects of all 23 classes on one stub connection vs the compiled model, all attributes compared after every message; independent oracle.",
         "Modelled rather than verified: ynca/subunit.py message handler, ynca/function.py descriptors, converters. Subunits are driven through a stub connection (the seam the repository's own tests use).",
         "Lean 4 proof (refinement to 'last matching message', induction on history) + differential correspondence"),
 "C04": ("proof", B1, "Lean 4: generic theorems (total, round trip, injective) for every enumeration table satisfying a decidable well-formedness predicate, discharged on the tables regenerated from ynca/enums.py by complete kernel evaluation; complete kernel evaluation over every distinct recorded (recording, subunit, function, value). Tie: real converter.to_value/to_str of every function vs the compiled model on member texts, near-misses, recorded values and random strings; independent oracle from __members__.",
         "Modelled rather than verified: converters, Enum lookup/_missing_ protocol (stdlib). float()/int() on plain literals trusted (checked differentially); exotic numeric syntax informational.",
         "Lean 4 proof: generic lemma + decide over complete regenerated tables; differential correspondence"),
 "C05": ("proof", B1, "Lean 4 theorems (Props/C05.lean): one canonical PUT per valid value kind, gates, rejections, state frame (cache/calls untouched, at most one PUT), step texts for every numeric step; table obligations by kernel evaluation. Tie: every writable attribute and action method of every class on real objects vs the compiled model; independent oracle.",
         "Modelled rather than verified: descriptor __set__/__get__, converters' to_str, action methods (classified by behavioural probes in the translator). Inputs the property leaves open are informational.",
         "Lean 4 proof (table-driven case analysis) + differential correspondence"),
 "C08": ("proof", B2, "Lean 4 theorem C08_spacing: in every reachable state of the L4 timed model the write times are pairwise >= P.spacing apart (any callers, bursts, probes, faults, close), C08_spacing_100ms under the explicit hypothesis 100 ms <= spacing; only the sender writes. Tie: scheduled real executions in virtual time, acceptor + monitor on successive write time stamps.",
         "Modelled rather than verified: the sender loop. Real sleep accuracy (time.sleep sleeps at least its argument) is trusted; COMMAND_SPACING is read from the source by the translator and passed to the acceptor.",
         "Lean 4 proof (timed invariant) + trace inclusion of scheduled real executions"),
 "C09": ("proof", B2, "Lean 4 theorems (Props/C09.lean): exactly once after the cache update, filter, order, unregistered/closed, and C09_mutation_safe for arbitrary re-entrant callback scripts under snapshot delivery (L3 model). Tie: (a) real subunit objects with scripted re-entrant update callbacks vs the compiled model; (b) the real connection and reader thread under the deterministic scheduler with re-entrant message callbacks and a concurrently (un)registering thread, judged by a must/may monitor.",
         "Modelled rather than verified: subunit/connection delivery loops. Delivery order among callbacks is unspecified; user callbacks do not raise. DetSched shims (threading/queue/time) and the virtual port are trusted harness code.",
         "Lean 4 proof (induction over the delivery snapshot) + differential correspondence + scheduled real threads with monitor"),
 "C12": ("proof", B2, "Lean 4 theorem C12_gap over the L4 timed model with urgency: while the connection is up and healthy, now <= lastTx + spacing + kaInterval in every reachable state (C12_gap_30s under the explicit hypothesis kaInterval + spacing <= 30.1 s); C12_two_probes: the first two transmissions are probes (as long as no connection loss has drained them — counterexample otherwise found by the proof attempt). Tie: scheduled real executions over sessions many keep-alive intervals long; acceptor + gap monitor.",
         "Modelled rather than verified: sender loop timing. Virtual time idealises computation as instantaneous: OS scheduling latency between a timer expiring and the thread running is outside the model.",
         "Lean 4 proof (timed invariant with urgency) + trace inclusion of scheduled real executions"),
 "C13": ("proof", B2, "Lean 4 theorems over the L4 model at attribute granularity (flag read r1 and clear r2 are separate steps interleaving freely with the sender's s1): the flag is set exactly when a probe was flagged since it was last cleared; a line is withheld iff it is a SYS:MODELNAME line and that holds (only-if, delivered-otherwise, converse). Tie: scheduled real executions with line-level preemption inside handle_line/_send_handler, user MODELNAME queries racing probes, latencies on both sides of the spacing; acceptor + must/may monitor.",
         "Modelled rather than verified: handle_line / _send_handler flag accesses. The monitor brackets the unobservable flag accesses with shim-level observations (queue get, clock).",
         "Lean 4 proof (exact flag invariant) + trace inclusion of scheduled real executions"),
 "C15": ("proof", B2, "Lean 4 theorems over the L4 model: the disconnect callback is invoked at most once in every execution and exactly once when the reader finishes connection_lost with no close() begun; not connected from the first step of connection_lost; no delivery afterwards; loss is final; the drain empties the queue before the exit marker. Tie: scheduled real executions with link drops / EOF / write errors at random points; acceptor + monitor.",
         "Modelled rather than verified: connection_lost, ReaderThread.run. 'Sender terminates before the callback' is observed (monitor), not proved (needs urgency + no concurrent close). OS-level thread termination outside.",
         "Lean 4 proof (invariants over all label sequences) + trace inclusion of scheduled real executions"),
 "C16": ("proof", B2, "Lean 4 theorems over the L4 model with close() as a program on any thread (caller, or the reader inside a message/disconnect callback): never raises, accepted in every state, clears the disconnect callback for good, after it has returned the port is closed and the reader told to stop, nothing is written on a closed port, a reader-thread close forgets all message callbacks. Tie: scheduled real executions with close() at random points from callers, callbacks and the disconnect callback, repeated and concurrent; acceptor + monitor.",
         "Modelled rather than verified: YncaConnection.close, ReaderThread.close/stop. Termination of close() within the join bound and of the library threads is observed by the monitor in virtual time, not proved. User callbacks return promptly (environment assumption).",
         "Lean 4 proof (invariants over all label sequences) + trace inclusion of scheduled real executions"),
 "C10": ("proof", B1, "Lean 4 theorems (Props/C10.lean): an undecodable value leaves cache, callbacks, sent and liveness unchanged; after any history every cached value has the type of its function; decode is type-correct for every converter. Totality of framing/parsing/handling is by construction of the (total) models. Tie: typed attack on every readable function of every class and byte-level attack (invalid UTF-8, 1 MB lines, malformed YNCA) through the real data_received -> connection callbacks -> subunits, sentinel line after every attack.",
         "Modelled rather than verified: as C02/C03. Reader-thread survival is exercised through the real receive path; the thread itself is covered by the L4 checks. bytes.decode('replace') total (CPython).",
         "Lean 4 proof (invariant by induction on history, mutual induction on converters) + differential correspondence"),
 "C18": ("proof", B1, "Lean 4 theorems over the L6 model of ynca/server.py: ingestion (a value line sets exactly its key; errors never overwrite values), ordinary GET/PUT refine an abstract map (GET = stored value or one error line; PUT new = stored + reported once; PUT same = silent; PUT unknown = one error line), every reply is well formed, GETs answer only with stored members. Tie: real fill_from_file on the 12 recordings vs the model (store dumps equal incl. insertion order); random GET/PUT sequences through the real handle() loop vs the compiled model; independent last-value/abstract-map oracle.",
         "Modelled rather than verified: ynca/server.py ingestion, store, handlers (not socketserver plumbing, main, argument parsing). Python float arithmetic of relative steps is a parameter of the theorems and modelled in the driver for plain one-decimal values only.",
         "Lean 4 proof (refinement to an abstract map) + differential correspondence"),
 "C19": ("proof", B1, "Lean 4 theorems over the L6 model (all handlers total; the one remaining raise site of the source is an explicit crash marker): no command crashes the handler on a store without zone PLAYBACK keys, handlers never add/remove keys so this holds for whole sessions, the regenerated fact that no bundled recording has such a key; relative steps consult the volume arithmetic only for VOL/ZONEBVOL and only for values starting with Up/Down. Tie: every command the typed API emits (produced by the real objects) and random/adversarial lines against handlers loaded from the 12 recordings and the built-in store vs the compiled model; crash/well-formedness/Up-Down-symmetry monitor.",
         "Modelled rather than verified: as C18. Lines are valid UTF-8 text (undecodable bytes outside the claim). A latent IndexError (PLAYBACK on a zone whose input has no playback subunit) is unreachable from the bundled recordings and modelled explicitly.",
         "Lean 4 proof (totality with explicit exception + invariant) + differential correspondence"),
 "C20": ("proof", B2, "Lean 4 theorems: a ring of capacity n holds the last min(n,k) items after any k adds (bounded; empty for n = 0); in every reachable state of the L4 model the Send entries of the log are exactly the written lines plus at most one pending entry, the Received entries exactly the complete received lines, and every write was logged before. Tie: scheduled real executions with log snapshots by a concurrent caller for N in {0,1,2,5,100}; the acceptor compares every snapshot with the model's ring; independent monitor against the port's own record incl. reply-after-command.",
         "Modelled rather than verified: RingBuffer (deque(maxlen)), log appends in handle_line/_send_handler. Causal order reply-after-command is checked by the monitor only. Time-stamp prefixes are ignored.",
         "Lean 4 proof (list lemma + invariants) + trace inclusion of scheduled real executions"),
 "C11": ("proof", B1, "Lean 4 theorems (Props/C11.lean: C11_main for every rational and every grid of the statement's table; wiring of the regenerated function tables by complete kernel evaluation; MAXVOL exception) about an exact-arithmetic model of number_to_string_with_stepsize and the converters. Tie: real attribute assignments vs the compiled model on all grid/tie points with float neighbours; independent exact-Fraction oracle searches the real code.",
         "Modelled rather than verified: ynca/helpers.py, converters, descriptor __set__. CPython float()/Fraction trusted.",
         "Lean 4 proof over exact-arithmetic model + differential correspondence"),
}
import sys
built = [k for k in sorted(C) if k in sys.argv[1:]] if len(sys.argv) > 1 else sorted(C)
checks = []
for pid in built:
    cat, eng, text, note, tech = C[pid]
    checks.append({"property_id": pid, "quick_cmd": f"./check {pid} --tier quick", "thorough_cmd": f"./check {pid} --tier thorough",
                   "evidence_file": f"evidence/{pid}.json", "replay_cmd_template": f"./check {pid} --replay {{path}}", "engine": eng,
                   "level_claimed": {"category": cat, "text": text, "design_ref": f"DESIGN.md §5 {pid}"},
                   "level_note": TB + note, "technique": tech})
man = {
 "version": 1, "setup_cmd": "./setup.sh",
 "hooks": {"guard": "YNCA_VERIF", "enable": "no source hooks are needed: the harness drives the public API and replaces threading/queue/time/serial in module namespaces from outside",
           "baseline_off_cmd": "cd /repo && /venv/bin/python -m pytest -ra -q -p no:cacheprovider --timeout=900 --continue-on-collection-errors", "source_commits": [], "add_only": True},
 "engines": [{"name": B1, "path": "lean/ + harness/", "serves_properties": [p for p in built if C[p][1] == B1],
              "kind_free_text": "Lean 4 theorems over hand-written executable models; tables regenerated from /repo by a translator; pure differential correspondence through a compiled line-protocol driver"},
             {"name": B2, "path": "lean/ + harness/sched", "serves_properties": [p for p in built if C[p][1] == B2],
              "kind_free_text": "Lean 4 theorems over a small-step timed model of the threads; real threads run under a deterministic scheduler with virtual time; observable traces are checked against the model by a compiled acceptor"}],
 "checks": checks,
 "notes": "Work in progress: properties are added as their model, theorems and correspondence are built.",
 "not_applicable": [{"property_id": p["id"], "reason": "not claimed yet: model/theorems/correspondence still being built (see DESIGN.md §9 build order)"} for p in props if p["id"] not in built],
}
json.dump(man, open('/verif/MANIFEST.json', 'w'), indent=1)
print("claimed:", built)
