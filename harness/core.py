"""Shared machinery of ./check: translator run, Lean build + axiom audit, model driver,
verdict logic (violations / known findings / broken obligations), evidence writer."""
from __future__ import annotations

import fcntl
import hashlib
import json
import os
import random
import re
import subprocess
import sys
import time

VERIF = os.path.dirname(os.path.dirname(os.path.abspath(__file__)))
LEAN = os.environ.get("VERIF_LEAN") or os.path.join(VERIF, "lean")         # (developer runs can point at a scratch copy of the Lean project)
REPO = os.environ.get("YNCA_REPO", "/repo")
EVID = os.environ.get("VERIF_EVIDENCE_DIR") or os.path.join(os.path.dirname(os.path.dirname(os.path.abspath(__file__))), "evidence")   # developer runs against scratch trees write elsewhere
PY = "/venv/bin/python"
if REPO not in sys.path:
    sys.path.insert(0, REPO)          # the working tree under verification takes precedence over any installed copy
ALLOWED_AXIOMS = {"propext", "Classical.choice", "Quot.sound"}
FORBIDDEN = ["sorry", "admit", "native_decide", "bv_decide", "implemented_by", "unsafe ", "maxHeartbeats 0", "axiom "]
DRIVER = os.path.join(LEAN, ".lake", "build", "bin", "ynca_model")


def log(*a):
    print(*a, file=sys.stderr, flush=True)


class Lock:
    def __init__(self, name):
        d = os.path.join(VERIF, ".locks")
        os.makedirs(d, exist_ok=True)
        self.path = os.path.join(d, name)

    def __enter__(self):
        self.f = open(self.path, "w")
        fcntl.flock(self.f, fcntl.LOCK_EX)
        return self

    def __exit__(self, *a):
        fcntl.flock(self.f, fcntl.LOCK_UN)
        self.f.close()


# ------------------------------------------------------------------ translator
_tables = None


def tables(force=False):
    """Run the translator in a subprocess (fresh import of /repo's working tree), emit Gen/*.lean,
    return the same data as a dict."""
    global _tables
    if _tables is not None and not force:
        return _tables
    with Lock("gen.lock"):
        r = subprocess.run([PY, os.path.join(VERIF, "harness", "extract.py"), "--json"], capture_output=True, text=True,
                           env={**os.environ, "YNCA_REPO": REPO})
    if r.returncode != 0:
        raise RuntimeError("translator failed:\n" + r.stderr[-4000:])
    _tables = json.loads(r.stdout)
    return _tables


# ------------------------------------------------------------------ Lean
def strip_comments(src: str) -> str:
    out = []
    i, n, depth = 0, len(src), 0
    while i < n:
        if src.startswith("/-", i):
            depth += 1
            i += 2
        elif depth and src.startswith("-/", i):
            depth -= 1
            i += 2
        elif depth:
            i += 1
        elif src.startswith("--", i):
            while i < n and src[i] != "\n":
                i += 1
        elif src[i] == '"':
            j = i + 1
            while j < n and src[j] != '"':
                j += 2 if src[j] == "\\" else 1
            out.append('""')
            i = j + 1
        else:
            out.append(src[i])
            i += 1
    return "".join(out)


def lean_sources():
    res = []
    for root, _d, files in os.walk(os.path.join(LEAN, "YncaVerif")):
        for f in files:
            if f.endswith(".lean"):
                res.append(os.path.join(root, f))
    res.append(os.path.join(LEAN, "Driver.lean"))
    res.append(os.path.join(LEAN, "YncaVerif.lean"))
    return sorted(res)


def forbidden_tokens():
    hits = []
    for p in lean_sources():
        try:
            code = strip_comments(open(p, encoding="utf-8").read())
        except FileNotFoundError:
            continue
        for tok in FORBIDDEN:
            for m in re.finditer(r"(?<![A-Za-z0-9_.])" + re.escape(tok), code):
                line = code.count("\n", 0, m.start()) + 1
                hits.append(f"{os.path.relpath(p, LEAN)}:{line}:{tok.strip()}")
    return hits


def lake_build(targets, timeout=3000):
    """Returns (ok, log_text)."""
    with Lock("lake.lock"):
        r = subprocess.run(["lake", "build", *targets], cwd=LEAN, capture_output=True, text=True, timeout=timeout)
    return r.returncode == 0, (r.stdout + r.stderr)


def theorems_of(pid):
    """Full names of the theorems in Props/<pid>.lean."""
    path = os.path.join(LEAN, "YncaVerif", "Props", f"{pid}.lean")
    code = strip_comments(open(path, encoding="utf-8").read())
    ns = []
    names = []
    for line in code.splitlines():
        m = re.match(r"\s*namespace\s+(\S+)", line)
        if m:
            ns.append(m.group(1))
            continue
        m = re.match(r"\s*end\s+(\S+)", line)
        if m and ns and ns[-1] == m.group(1):
            ns.pop()
            continue
        m = re.match(r"\s*(?:@\[[^\]]*\]\s*)?(?:private\s+|protected\s+)?theorem\s+([^\s:({\[]+)", line)
        if m:
            names.append(".".join(ns + [m.group(1)]))
    return names


def audit(pid):
    """#print axioms for every theorem of Props/<pid>.lean.  Returns dict name -> list of axioms (or None if missing)."""
    names = theorems_of(pid)
    os.makedirs(os.path.join(LEAN, ".audit"), exist_ok=True)
    f = os.path.join(LEAN, ".audit", f"{pid}_{os.getpid()}.lean")
    with open(f, "w") as fh:
        fh.write(f"import YncaVerif.Props.{pid}\n" + "".join(f"#print axioms {n}\n" for n in names))
    try:
        r = subprocess.run(["lake", "env", "lean", f], cwd=LEAN, capture_output=True, text=True, timeout=1200)
    finally:
        try:
            os.unlink(f)
        except OSError:
            pass
    out = r.stdout + r.stderr
    res = {n: None for n in names}
    for m in re.finditer(r"'([^']+)' depends on axioms: \[([^\]]*)\]", out):
        res[m.group(1)] = [a.strip() for a in m.group(2).replace("\n", " ").split(",") if a.strip()]
    for m in re.finditer(r"'([^']+)' does not depend on any axioms", out):
        res[m.group(1)] = []
    return res, out


def run_driver(mode, lines, extra_args=(), timeout=3000):
    """Pipe lines to the compiled model driver, return output lines."""
    data = ("\n".join(lines) + "\n").encode("utf-8")
    r = subprocess.run([DRIVER, mode, *extra_args], input=data, capture_output=True, timeout=timeout)
    if r.returncode != 0:
        raise RuntimeError(f"model driver failed ({mode}): {r.stderr.decode('utf-8', 'replace')[-2000:]}")
    out = r.stdout.decode("utf-8").split("\n")
    if out and out[-1] == "":
        out.pop()
    return out


def hx(s: str) -> str:
    """hex of UTF-8; '-' for the empty string so that fields are never empty"""
    b = s.encode("utf-8", "surrogatepass")
    return b.hex() if b else "-"


def unhx(h: str) -> str:
    return "" if h == "-" else bytes.fromhex(h).decode("utf-8", "replace")


# ------------------------------------------------------------------ known findings
def load_known():
    p = os.path.join(VERIF, "known_findings.json")
    try:
        return json.load(open(p))
    except FileNotFoundError:
        return {"known": [], "fixed": []}


# ------------------------------------------------------------------ context / verdict / evidence
class Ctx:
    def __init__(self, pid, tier, seed):
        self.pid = pid
        self.tier = tier
        self.seed = seed
        self.t0 = time.time()
        self.rng = random.Random(seed * 1000003 + int(pid[1:]))
        self.cov = {}
        self.samples = []
        self.assumptions = []
        self.violations = []      # (what, replay_path, has_input)
        self.known_hits = []
        self.broken = []          # names of obligations / correspondences that no longer check
        self.obligations = 0
        self.discharged = 0
        self.axioms = {}
        self.info = {}
        self.known = [k for k in load_known().get("known", []) if k.get("property") == pid]
        self.evaluations = 0
        self.distinct = set()
        self.dist = {}
        import glob
        for old in glob.glob(os.path.join(EVID, "replays", f"{pid}-*.json")):
            try:
                os.unlink(old)
            except OSError:
                pass

    # -- counters
    def count(self, key, n=1):
        self.dist[key] = self.dist.get(key, 0) + n

    def case(self, key, nontrivial=True):
        self.evaluations += 1
        if nontrivial:
            if len(self.distinct) < 2_000_000:
                self.distinct.add(key if isinstance(key, (str, int)) else hashlib.md5(repr(key).encode()).digest()[:8])

    def sample(self, s, limit=12):
        if len(self.samples) < limit:
            self.samples.append(s)

    # -- lean
    def lean_stage(self, extra_targets=(), extra_props=()):
        """translator + build + audit + forbidden-token grep.  Broken obligations are recorded, not fatal.
        extra_props: further files of Props/ whose theorems belong to this property's obligations."""
        tables(force=True)
        pid = self.pid
        targets = [f"YncaVerif.Props.{pid}", "ynca_model", *extra_targets, *[f"YncaVerif.Props.{x}" for x in extra_props]]
        t = time.time()
        ok, out = lake_build(targets)
        self.info["lake_build_s"] = round(time.time() - t, 1)
        names = theorems_of(pid)
        for x in extra_props:
            names += theorems_of(x)
        self.obligations = len(names)
        if not ok:
            # which theorem(s) broke?
            bad = set()
            for m in re.finditer(r"error: (\S+?\.lean):(\d+):\d+", out):
                bad.add((m.group(1), int(m.group(2))))
            self.broken.append({"kind": "lean_build", "targets": targets, "errors": sorted(f"{a}:{b}" for a, b in bad)[:20],
                                "log_tail": out[-3000:]})
            self.discharged = 0
            # still try to have a driver
            lake_build(["ynca_model"])
        else:
            ax, raw = audit(pid)
            for x in extra_props:
                ax2, _ = audit(x)
                ax.update(ax2)
            self.axioms = ax
            good = 0
            for n, a in ax.items():
                if a is None:
                    self.broken.append({"kind": "audit_missing", "theorem": n})
                elif not set(a) <= ALLOWED_AXIOMS:
                    self.broken.append({"kind": "axioms", "theorem": n, "axioms": a})
                else:
                    good += 1
            self.discharged = good
        if ok and self.tier == "thorough":
            # independent re-check of the compiled property files by the toolchain's leanchecker
            t = time.time()
            mods = [f"YncaVerif.Props.{pid}"] + [f"YncaVerif.Props.{x}" for x in extra_props]
            with Lock("lake.lock"):
                r = subprocess.run(["lake", "env", "leanchecker", *mods], cwd=LEAN, capture_output=True, text=True, timeout=3000)
            self.info["leanchecker_s"] = round(time.time() - t, 1)
            self.cov["leanchecker"] = "ok" if r.returncode == 0 else "FAILED"
            if r.returncode != 0:
                self.broken.append({"kind": "leanchecker", "modules": mods, "log_tail": (r.stdout + r.stderr)[-2000:]})
        fb = forbidden_tokens()
        if fb:
            self.broken.append({"kind": "forbidden_tokens", "hits": fb[:20]})
        if not os.path.exists(DRIVER):
            raise RuntimeError("model driver could not be built")
        return ok

    # -- verdict
    def match_known(self, sig: dict):
        for k in self.known:
            m = k.get("match", {})
            if all(sig.get(a) == b for a, b in m.items()):
                return k
        return None

    def violation(self, what: str, replay: dict, sig: dict | None = None):
        """A concrete failing input on the real code."""
        k = self.match_known(sig or {})
        if k is not None:
            if k["id"] not in [x["id"] for x in self.known_hits]:
                self.known_hits.append(k)
            return False
        key = json.dumps(sig or {}, sort_keys=True, default=str)
        self.sig_counts = getattr(self, "sig_counts", {})
        self.sig_counts[key] = self.sig_counts.get(key, 0) + 1
        if self.sig_counts[key] > 2 or len([v for v in self.violations if v[1]]) >= 12:
            self.violations.append((what, None))
            return True
        os.makedirs(os.path.join(EVID, "replays"), exist_ok=True)
        h = hashlib.sha1(json.dumps(replay, sort_keys=True, default=str).encode()).hexdigest()[:10]
        path = os.path.join(EVID, "replays", f"{self.pid}-{h}.json")
        with open(path, "w") as f:
            json.dump({"property": self.pid, "what": what, "tier": self.tier, "seed": self.seed, "replay": replay}, f, indent=1, default=str)
        if path not in [v[1] for v in self.violations]:
            self.violations.append((what, path))
        return True

    def correspondence_broken(self, name: str, detail):
        self.broken.append({"kind": "correspondence", "name": name, "detail": detail})

    def finish(self, level="proof", checker_cmd=None, explanation=None):
        wall = time.time() - self.t0
        exit_code = 0
        for k in self.known_hits:
            print(f"KNOWN-FINDING: property={self.pid} {k['what']}")
        real = [v for v in self.violations if v[1]]
        if real:
            for what, path in real:
                print(f"VIOLATION property={self.pid} replay={path}")
                log("  ", what)
            exit_code = 1
        elif self.broken:
            os.makedirs(os.path.join(EVID, "replays"), exist_ok=True)
            path = os.path.join(EVID, "replays", f"{self.pid}-broken.json")
            with open(path, "w") as f:
                json.dump({"property": self.pid, "no_longer_checks": self.broken,
                           "note": "a proof obligation or the model/implementation correspondence no longer checks; "
                                   "the search found no concrete failing input"}, f, indent=1, default=str)
            print(f"VIOLATION property={self.pid} replay={path} no-failing-input-found")
            for b in self.broken[:5]:
                log("  broken:", json.dumps(b, default=str)[:600])
            exit_code = 1
        cov = {
            "obligations": self.obligations,
            "discharged": self.discharged,
            "checker_cmd": checker_cmd or f"cd lean && lake build YncaVerif.Props.{self.pid} && lake env lean <#print axioms of every theorem in Props/{self.pid}.lean>",
            "trusted_base": sorted({a for v in self.axioms.values() if v for a in v}) + [
                "Lean 4.33.0 kernel", "harness/extract.py (translator)", "harness correspondence + monitors (Python)"] + (
                    ["trace renderer harness/render.py (the acceptor itself is proved sound: Props/Tie.lean, Tie_accept_sound; its completeness is not proved)"]
                    if any(n.startswith("Ynca.Tie.") for n in self.axioms) else []),
            "theorems": sorted(self.axioms.keys()),
            "evaluations": self.evaluations,
            "distinct_nontrivial": len(self.distinct),
            "rule": self.info.get("rule", ""),
            "samples": self.samples[:12] or ["(none)"],
            "input_distribution": self.dist,
            "exhaustive": bool(self.info.get("exhaustive", False)),
            "broken": self.broken[:10],
            "known_findings_hit": [k["id"] for k in self.known_hits],
        }
        if explanation:
            cov["explanation"] = explanation
        cov.update(self.cov)
        ev = {
            "property_id": self.pid,
            "tier": self.tier,
            "seed": self.seed,
            "level": level,
            "coverage": cov,
            "assumptions": self.assumptions,
            "wall_s": round(wall, 2),
            "violations": len(self.violations) + (1 if (self.broken and not real) else 0),
        }
        os.makedirs(EVID, exist_ok=True)
        with open(os.path.join(EVID, f"{self.pid}.json"), "w") as f:
            json.dump(ev, f, indent=1, default=str)
        log(f"[{self.pid}] tier={self.tier} seed={self.seed} obligations={self.discharged}/{self.obligations} "
            f"evaluations={self.evaluations} distinct={len(self.distinct)} violations={len(self.violations)} "
            f"broken={len(self.broken)} known={len(self.known_hits)} wall={wall:.1f}s exit={exit_code}")
        return exit_code
