"""Translator (Tie A): /repo working tree  ->  lean/YncaVerif/Gen/*.lean

Imports the working tree's `ynca` package and prints the tables the code uses as Lean data:
enumerations, subunit classes with their functions/converters/action methods, constants,
server tables, and the (subunit, function, value) triples of the recordings under logs/.

Files are rewritten only when their content changes (so an unchanged tree is a no-op build).
Anything the translator does not recognise becomes `Conv.opaque` / `ActionKind.opaque`, which
makes the corresponding Lean obligation fail instead of guessing.
"""
from __future__ import annotations

import enum
import glob
import inspect
import json
import os
import re
import sys
import types

REPO = os.environ.get("YNCA_REPO", "/repo")
HERE = os.path.dirname(os.path.abspath(__file__))
GEN_DIR = os.path.join(os.environ.get("VERIF_LEAN") or os.path.join(os.path.dirname(HERE), "lean"), "YncaVerif", "Gen")


# ----------------------------------------------------------------------------- Lean printing
def lstr(s: str) -> str:
    out = ['"']
    for ch in s:
        o = ord(ch)
        if ch == '"':
            out.append('\\"')
        elif ch == "\\":
            out.append("\\\\")
        elif ch == "\n":
            out.append("\\n")
        elif ch == "\r":
            out.append("\\r")
        elif ch == "\t":
            out.append("\\t")
        elif o < 0x20 or o == 0x7F:
            out.append("\\x%02x" % o)
        else:
            out.append(ch)
    out.append('"')
    return "".join(out)


def lbool(b) -> str:
    return "true" if b else "false"


def lopt_str(s) -> str:
    return "none" if s is None else f"(some {lstr(s)})"


def lopt_nat(n) -> str:
    return "none" if n is None else f"(some {int(n)})"


def llist(items, per_line=False, indent="  ") -> str:
    items = list(items)
    if not items:
        return "[]"
    if per_line:
        return "[\n" + ",\n".join(indent + i for i in items) + "]"
    return "[" + ", ".join(items) + "]"


def write_if_changed(path: str, content: str) -> bool:
    os.makedirs(os.path.dirname(path), exist_ok=True)
    try:
        with open(path, encoding="utf-8") as f:
            if f.read() == content:
                return False
    except FileNotFoundError:
        pass
    tmp = path + ".tmp%d" % os.getpid()
    with open(tmp, "w", encoding="utf-8") as f:
        f.write(content)
    os.replace(tmp, path)
    return True


# ----------------------------------------------------------------------------- introspection
def load_repo():
    if REPO not in sys.path:
        sys.path.insert(0, REPO)
    import ynca  # noqa: F401
    import ynca.api
    import ynca.server

    p = os.path.realpath(os.path.dirname(ynca.__file__))
    if not p.startswith(os.path.realpath(REPO)):
        raise RuntimeError(f"ynca imported from {p}, expected under {REPO}")
    return ynca


def enum_tables():
    """All Enum classes reachable from converters of any function, plus everything defined in ynca.enums."""
    import ynca.enums as E

    found = {}
    for n, o in vars(E).items():
        if inspect.isclass(o) and issubclass(o, enum.Enum) and o.__module__ == E.__name__:
            found[o.__name__] = o
    return found


def probe_missing(cls) -> bool:
    """Does looking up an unknown text return the UNKNOWN member instead of raising?"""
    try:
        r = cls("\x00 no such wire text \x00")
    except Exception:
        return False
    return getattr(r, "name", None) == "UNKNOWN"


def frac_of_number(x):
    """Exact value of an int / float *literal as written* (shortest repr), as (num, den)."""
    from fractions import Fraction

    if isinstance(x, bool):
        return None
    if isinstance(x, int):
        return (x, 1)
    if isinstance(x, float):
        f = Fraction(repr(x))
        return (f.numerator, f.denominator)
    return None


class _Sentinel:
    """Opaque argument used to probe to_str lambdas."""


def classify_to_str(fn):
    """Classify a converter's to_str callable.  Returns a dict describing it."""
    if fn is str:
        return {"k": "plain"}
    if not isinstance(fn, types.FunctionType):
        return {"k": "opaque", "why": f"to_str is {type(fn).__name__}"}
    code = fn.__code__
    # Probe 1: does it call number_to_string_with_stepsize(v, decimals, step) with the argument untouched?
    calls = []

    def spy(v, decimals, stepsize):
        calls.append((v, decimals, stepsize))
        return "<<SPY>>"

    g = dict(fn.__globals__)
    if "number_to_string_with_stepsize" in code.co_names:
        g["number_to_string_with_stepsize"] = spy
        probe = types.FunctionType(code, g, fn.__name__, fn.__defaults__, fn.__closure__)
        s = _Sentinel()
        try:
            r = probe(s)
        except Exception as e:  # noqa: BLE001
            return {"k": "opaque", "why": f"stepsize probe raised {type(e).__name__}"}
        if r == "<<SPY>>" and len(calls) == 1 and calls[0][0] is s:
            d, st = calls[0][1], calls[0][2]
            fr = frac_of_number(st)
            if isinstance(d, int) and not isinstance(d, bool) and d >= 0 and fr and fr[0] > 0:
                return {"k": "stepped", "decimals": d, "num": fr[0], "den": fr[1]}
        return {"k": "opaque", "why": "stepsize lambda of unexpected shape"}
    # Probe 2: the documented 16.5 exception: "16.5" for 16.5, raises for everything else
    try:
        ok = fn(16.5) == "16.5"
    except Exception:  # noqa: BLE001
        ok = False
    if ok:
        others = [0, 0.0, 16, 16.4, 17, -16.5, 5, 10.0, 1e4, 16.500000000000004, 16.499999999999996]
        all_raise = True
        for o in others:
            try:
                fn(o)
                all_raise = False
            except ValueError:
                pass
            except Exception:  # noqa: BLE001
                all_raise = False
        if all_raise:
            return {"k": "only165"}
    return {"k": "opaque", "why": "unrecognised to_str callable"}


def conv_spec(cv):
    from ynca import converters as C

    t = type(cv)
    if t is C.EnumConverter:
        return {"k": "enum", "enum": cv.datatype.__name__}
    if t is C.StrConverter:
        return {"k": "str", "min": cv._min_len, "max": cv._max_len}
    if t in (C.IntConverter, C.IntOrNoneConverter, C.FloatConverter):
        base = {C.IntConverter: "int", C.IntOrNoneConverter: "intOrNone", C.FloatConverter: "float"}[t]
        ts = classify_to_str(cv._to_str)
        return {"k": base, "to_str": ts}
    if t is C.MultiConverter:
        return {"k": "multi", "items": [conv_spec(x) for x in cv._converters]}
    return {"k": "opaque", "why": f"converter type {t.__name__}"}


def lean_tostr(ts) -> str:
    k = ts["k"]
    if k == "plain":
        return "ToStr.plain"
    if k == "stepped":
        return f"(ToStr.stepped {ts['decimals']} {ts['num']} {ts['den']})"
    if k == "only165":
        return "ToStr.only165"
    return f"(ToStr.opaque {lstr(ts.get('why', ''))})"


def lean_conv(c) -> str:
    k = c["k"]
    if k == "enum":
        return f"(Conv.enum {lstr(c['enum'])})"
    if k == "str":
        return f"(Conv.str {lopt_nat(c['min'])} {lopt_nat(c['max'])})"
    if k in ("int", "intOrNone", "float"):
        return f"(Conv.{k} {lean_tostr(c['to_str'])})"
    if k == "multi":
        return "(Conv.multi " + llist(lean_conv(x) for x in c["items"]) + ")"
    return f"(Conv.opaque {lstr(c.get('why', ''))})"


class _Recorder:
    """Stands in for a connection: records what a subunit sends (the five members a subunit uses)."""

    def __init__(self):
        self.calls = []
        self.num_commands_sent = 0

    def register_message_callback(self, cb):
        pass

    def unregister_message_callback(self, cb):
        pass

    def put(self, s, f, v):
        self.calls.append(("put", f"{s}", f, v))
        self.num_commands_sent += 1

    def get(self, s, f):
        self.calls.append(("get", f"{s}", f))
        self.num_commands_sent += 1


def subunit_classes():
    from ynca.helpers import all_subclasses
    from ynca.subunit import SubunitBase

    out = []
    for c in all_subclasses(SubunitBase):
        if getattr(c, "id", None) is not None:
            out.append(c)
    out.sort(key=lambda c: (str(getattr(c.id, "value", c.id)), c.__name__))
    return out


def class_functions(cls):
    """Exactly the walk SubunitBase.__init__ does: sorted(dir(cls)), FunctionMixinBase instances, keyed by .name."""
    from ynca.function import FunctionMixinBase

    handlers = {}
    for attr in sorted(dir(cls)):
        a = getattr(cls, attr, None)
        if isinstance(a, FunctionMixinBase):
            handlers[a.name] = (attr, a)  # later attribute with same protocol name replaces, position kept
    return [(attr, a) for (attr, a) in handlers.values()]


def action_methods(cls):
    """Public callables defined by the subunit classes (not SubunitBase API, not descriptors)."""
    from ynca.function import FunctionMixinBase
    from ynca.subunit import SubunitBase

    base = set(dir(SubunitBase))
    out = []
    for n in sorted(dir(cls)):
        if n.startswith("_") or n in base:
            continue
        a = inspect.getattr_static(cls, n)
        if isinstance(a, FunctionMixinBase):
            continue
        if inspect.isfunction(a):
            out.append((n, a))
    return out


def probe_action(cls, name, fn):
    """Classify an action method by calling it on an instance wired to a recorder."""
    import ynca.enums as E

    def call(*args):
        rec = _Recorder()
        inst = cls(rec)
        try:
            getattr(inst, name)(*args)
        except Exception as e:  # noqa: BLE001
            return ("raise", type(e).__name__), rec.calls
        return ("ok",), rec.calls

    sig = inspect.signature(fn)
    params = [p for p in list(sig.parameters.values())[1:]]
    required = [p for p in params if p.default is inspect._empty and p.kind in (p.POSITIONAL_ONLY, p.POSITIONAL_OR_KEYWORD)]
    sid = str(cls.id.value)

    def one_put(res):
        st, calls = res
        if st == ("ok",) and len(calls) == 1 and calls[0][0] == "put" and calls[0][1] == sid:
            return calls[0][2], calls[0][3]
        return None

    if not params:
        p = one_put(call())
        if p:
            return {"k": "const", "fn": p[0], "value": p[1]}
        return {"k": "opaque", "why": "zero-argument method without exactly one put"}
    if len(params) == 1:
        # relative volume step?  f() -> Up/Down ; f(1) -> "Up 1 dB"
        p0 = one_put(call()) if not required else None
        p1 = one_put(call(1))
        p2 = one_put(call(2))
        if p0 and p1 and p2 and p0[1] in ("Up", "Down") and p1[1] == f"{p0[1]} 1 dB" and p2[1] == f"{p0[1]} 2 dB" and p0[0] == p1[0]:
            return {"k": "volstep", "fn": p0[0], "up": p0[1] == "Up"}
        # mem: None -> Auto, n -> str(n)
        pa = one_put(call(None)) if True else None
        p7 = one_put(call(7))
        if pa and p7 and pa[1] == "Auto" and p7[1] == "7" and pa[0] == p7[0] and not required:
            return {"k": "mem", "fn": pa[0]}
        # scene: "Scene {id}"
        if p7 and p7[1] == "Scene 7":
            ps = one_put(call("x y"))
            if ps and ps[1] == "Scene x y":
                return {"k": "scene", "fn": p7[0]}
        # playback: sends member.value
        try:
            mem = list(E.Playback)[0]
            pp = one_put(call(mem))
            if pp and pp[1] == mem.value:
                ok = all(one_put(call(m)) == (pp[0], m.value) for m in E.Playback)
                if ok:
                    return {"k": "enumarg", "fn": pp[0], "enum": "Playback"}
        except Exception:  # noqa: BLE001
            pass
        # remotecode: length 8 text passes through, other lengths raise ValueError and send nothing
        p8 = one_put(call("7A85-1F2"))
        r7 = call("1234567")
        r9 = call("123456789")
        if p8 and p8[1] == "7A85-1F2" and r7[0] == ("raise", "ValueError") and not r7[1] and r9[0] == ("raise", "ValueError") and not r9[1]:
            return {"k": "fixedlen", "fn": p8[0], "len": 8}
    return {"k": "opaque", "why": "unrecognised action method"}


def lean_action(a) -> str:
    k = a["k"]
    if k == "const":
        return f"(ActionKind.const {lstr(a['fn'])} {lstr(a['value'])})"
    if k == "volstep":
        return f"(ActionKind.volStep {lstr(a['fn'])} {lbool(a['up'])})"
    if k == "mem":
        return f"(ActionKind.mem {lstr(a['fn'])})"
    if k == "scene":
        return f"(ActionKind.scene {lstr(a['fn'])})"
    if k == "enumarg":
        return f"(ActionKind.enumArg {lstr(a['fn'])} {lstr(a['enum'])})"
    if k == "fixedlen":
        return f"(ActionKind.fixedLen {lstr(a['fn'])} {a['len']})"
    return f"(ActionKind.opaque {lstr(a.get('why', ''))})"


# ----------------------------------------------------------------------------- recordings (independent reader)
LINE_RE = re.compile(r"@([^:]+?):([^=]+?)=(.*)")


def read_recording(path):
    """Independent reader of a recording: yields ('send'|'recv'|'other', text) for each YNCA-looking line."""
    out = []
    with open(path, encoding="utf-8") as f:
        for raw in f:
            line = raw.strip().rstrip('",')
            i = line.find("@")
            if i < 0:
                continue
            text = line[i:]
            head = line[:i]
            h = head.rstrip()
            if "Send:" in head or "Send -" in head or h.endswith("<"):
                kind = "send"
            elif "Received:" in head or "Recv" in head or h.endswith(">"):
                kind = "recv"
            else:
                kind = "other"
            out.append((kind, text))
    return out


def recordings():
    res = {}
    for p in sorted(glob.glob(os.path.join(REPO, "logs", "*.txt"))):
        res[os.path.splitext(os.path.basename(p))[0]] = read_recording(p)
    return res


DEC_RE = re.compile(r"^[+-]?[0-9]+(\.[0-9]*)?$|^[+-]?\.[0-9]+$")


def collect():
    """Everything the translator knows, as plain data (also used by the harness as `tables`)."""
    load_repo()
    import ynca.api
    import ynca.server as SRV
    import serial.threaded
    from ynca.connection import YncaProtocol
    from ynca.constants import MIN_VOLUME, Subunit

    enums = {}
    for name, cls in sorted(enum_tables().items()):
        enums[name] = {
            "members": [(m.name, m.value) for m in cls],
            "missing": probe_missing(cls),
            "str_mixin": issubclass(cls, str),
        }
    classes = []
    for cls in subunit_classes():
        fns = []
        for attr, a in class_functions(cls):
            from ynca.function import Cmd

            fns.append(
                {
                    "attr": attr,
                    "name": a.name,
                    "get": Cmd.GET in a.cmd,
                    "put": Cmd.PUT in a.cmd,
                    "init": a.initializer,
                    "no_init": bool(a.no_initialize),
                    "conv": conv_spec(a.converter),
                }
            )
        acts = []
        for n, f in action_methods(cls):
            acts.append({"meth": n, "kind": probe_action(cls, n, f)})
        classes.append({"py": cls.__name__, "id": str(cls.id.value), "fns": fns, "actions": acts})

    consts = {
        "spacing_us": round(YncaProtocol.COMMAND_SPACING * 1_000_000),
        "ka_us": round(YncaProtocol.KEEP_ALIVE_INTERVAL * 1_000_000),
        "cc_timeout_us": round(ynca.api.CONNECTION_CHECK_TIMEOUT * 1_000_000),
        "subunits": [str(s.value) for s in Subunit],
        "min_volume": frac_of_number(MIN_VOLUME),
        "terminator": list(YncaProtocol.TERMINATOR),
        "encoding": YncaProtocol.ENCODING,
        "unicode_handling": YncaProtocol.UNICODE_HANDLING,
        "status": {"undefined": SRV.UNDEFINED, "restricted": SRV.RESTRICTED},
    }
    server = {
        "multi": {k: list(v) for k, v in SRV.multiresponse_functions_table.items()},
        "related": {k: list(v) for k, v in SRV.related_functions_table.items()},
        "inputmap": [(str(m[0].value), list(m[1])) for m in SRV.INPUT_SUBUNITLIST_MAPPING],
        "zones": list(SRV.ZONES),
    }
    # recorded triples for modelled (subunit, function) pairs
    cls_by_id = {c["id"]: c for c in classes}
    rec_enum, rec_num, rec_other = [], [], []
    seen = set()
    for recname, lines in recordings().items():
        for kind, text in lines:
            m = LINE_RE.match(text)
            if not m or m.group(3) == "?":
                continue
            s, f, v = m.group(1), m.group(2), m.group(3)
            c = cls_by_id.get(s)
            if not c:
                continue
            fn = next((x for x in c["fns"] if x["name"] == f), None)
            if not fn:
                continue
            key = (recname, s, f, v)
            if key in seen:
                continue
            seen.add(key)
            ck = fn["conv"]["k"]
            kinds = [ck] if ck != "multi" else [x["k"] for x in fn["conv"]["items"]]
            if ck == "enum":
                rec_enum.append(key)
            elif any(k in ("int", "intOrNone", "float") for k in kinds):
                if DEC_RE.match(v):
                    rec_num.append(key)
                elif ck == "multi" and "enum" in kinds:
                    rec_enum.append(key)
                else:
                    rec_other.append(key)
    zone_playback = []
    for recname, lines in recordings().items():
        for kind, text in lines:
            m = LINE_RE.match(text)
            if m and m.group(1) in server["zones"] and m.group(2) == "PLAYBACK":
                zone_playback.append((recname, m.group(1)))
    return {
        "rec_zone_playback": sorted(set(zone_playback)),
        "enums": enums,
        "classes": classes,
        "consts": consts,
        "server": server,
        "rec_enum": rec_enum,
        "rec_num": rec_num,
        "rec_other": rec_other,
    }


# ----------------------------------------------------------------------------- emit
HEADER = "-- GENERATED by harness/extract.py from the working tree of /repo. Do not edit.\n"


def emit(T) -> dict:
    changed = {}
    # Enums
    rows = []
    for name, e in T["enums"].items():
        mem = llist(f"({lstr(n)}, {lstr(v)})" for n, v in e["members"])
        rows.append(f"{{ name := {lstr(name)}, members := {mem}, hasMissing := {lbool(e['missing'])}, strMixin := {lbool(e['str_mixin'])} }}")
    body = HEADER + "import YncaVerif.Model.Types\nnamespace Ynca.Gen\nopen Ynca\n\n"
    for name, row in zip(T["enums"].keys(), rows):
        body += f"def enum_{name} : EnumTbl :=\n  {row}\n\n"
    body += "def enums : List EnumTbl :=\n  " + llist(f"enum_{n}" for n in T["enums"].keys()) + "\n\nend Ynca.Gen\n"
    changed["Enums"] = write_if_changed(os.path.join(GEN_DIR, "Enums.lean"), body)

    # Functions
    body = HEADER + "import YncaVerif.Model.Types\nnamespace Ynca.Gen\nopen Ynca\n\n"
    for c in T["classes"]:
        frows = []
        for f in c["fns"]:
            frows.append(
                f"{{ attr := {lstr(f['attr'])}, name := {lstr(f['name'])}, get := {lbool(f['get'])}, put := {lbool(f['put'])}, "
                f"init := {lopt_str(f['init'])}, noInit := {lbool(f['no_init'])}, conv := {lean_conv(f['conv'])} }}"
            )
        arows = [f"{{ meth := {lstr(a['meth'])}, kind := {lean_action(a['kind'])} }}" for a in c["actions"]]
        body += (
            f"def cls_{c['py']} : Cls :=\n  {{ py := {lstr(c['py'])}, id := {lstr(c['id'])},\n    fns := {llist(frows, True, '      ')},\n"
            f"    actions := {llist(arows, True, '      ')} }}\n\n"
        )
    body += "def classes : List Cls :=\n  " + llist(f"cls_{c['py']}" for c in T["classes"]) + "\n\nend Ynca.Gen\n"
    changed["Functions"] = write_if_changed(os.path.join(GEN_DIR, "Functions.lean"), body)

    # Consts
    k = T["consts"]
    mv = k["min_volume"]
    body = HEADER + "import YncaVerif.Model.Types\nnamespace Ynca.Gen\nopen Ynca\n\n"
    body += f"def spacingUs : Nat := {k['spacing_us']}\n"
    body += f"def kaIntervalUs : Nat := {k['ka_us']}\n"
    body += f"def ccTimeoutUs : Nat := {k['cc_timeout_us']}\n"
    body += "def subunitIds : List String := " + llist(lstr(s) for s in k["subunits"]) + "\n"
    body += f"def minVolumeNum : Int := {mv[0]}\ndef minVolumeDen : Nat := {mv[1]}\n"
    body += "def terminator : List UInt8 := " + llist(str(b) for b in k["terminator"]) + "\n"
    body += f"def encoding : String := {lstr(k['encoding'])}\n"
    body += f"def unicodeHandling : String := {lstr(k['unicode_handling'])}\n"
    body += f"def statusUndefined : String := {lstr(k['status']['undefined'])}\n"
    body += f"def statusRestricted : String := {lstr(k['status']['restricted'])}\n"
    body += "\nend Ynca.Gen\n"
    changed["Consts"] = write_if_changed(os.path.join(GEN_DIR, "Consts.lean"), body)

    # Server tables
    s = T["server"]
    body = HEADER + "namespace Ynca.Gen\n\n"
    body += "def multiTable : List (String × List String) :=\n  " + llist((f"({lstr(a)}, {llist(lstr(x) for x in b)})" for a, b in s["multi"].items()), True) + "\n\n"
    body += "def relatedTable : List (String × List String) :=\n  " + llist((f"({lstr(a)}, {llist(lstr(x) for x in b)})" for a, b in s["related"].items()), True) + "\n\n"
    body += "def inputMap : List (String × List String) :=\n  " + llist((f"({lstr(a)}, {llist(lstr(x) for x in b)})" for a, b in s["inputmap"]), True) + "\n\n"
    body += "def zones : List String := " + llist(lstr(z) for z in s["zones"]) + "\n\nend Ynca.Gen\n"
    changed["ServerTables"] = write_if_changed(os.path.join(GEN_DIR, "ServerTables.lean"), body)

    # Recordings
    body = HEADER + "namespace Ynca.Gen\n\n"
    body += "/-- (recording, subunit, function, value) for enumerated functions -/\n"
    body += "def recEnum : List (String × String × String × String) :=\n  " + llist((f"({lstr(a)}, {lstr(b)}, {lstr(c)}, {lstr(d)})" for a, b, c, d in T["rec_enum"]), True) + "\n\n"
    body += "/-- (recording, subunit, function, value) where value is a plain decimal literal and the function numeric -/\n"
    body += "def recNum : List (String × String × String × String) :=\n  " + llist((f"({lstr(a)}, {lstr(b)}, {lstr(c)}, {lstr(d)})" for a, b, c, d in T["rec_num"]), True) + "\n\n"
    body += "/-- (recording, zone) pairs for which the recording contains any `@<zone>:PLAYBACK=` line (the server's PLAYBACK coupling indexes a list by the zone's input) -/\n"
    body += "def recZonePlayback : List (String × String) := " + llist(f"({lstr(a)}, {lstr(b)})" for a, b in T["rec_zone_playback"]) + "\n\n"
    body += "/-- recorded values of numeric functions that are not numeric literals (C10's business; listed, not hidden) -/\n"
    body += "def recNonLiteral : List (String × String × String × String) :=\n  " + llist((f"({lstr(a)}, {lstr(b)}, {lstr(c)}, {lstr(d)})" for a, b, c, d in T["rec_other"]), True) + "\n\nend Ynca.Gen\n"
    changed["Recordings"] = write_if_changed(os.path.join(GEN_DIR, "Recordings.lean"), body)
    return changed


def main():
    T = collect()
    ch = emit(T)
    if "--json" in sys.argv:
        json.dump(T, sys.stdout)
    else:
        print("extract:", {k: ("rewritten" if v else "unchanged") for k, v in ch.items()},
              f"enums={len(T['enums'])} classes={len(T['classes'])} functions={sum(len(c['fns']) for c in T['classes'])} "
              f"recEnum={len(T['rec_enum'])} recNum={len(T['rec_num'])} recNonLiteral={len(T['rec_other'])}")


if __name__ == "__main__":
    main()
