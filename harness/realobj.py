"""Real subunit objects on a stub connection (the same seam the repository's own tests use):
exactly the five public members a subunit uses."""
from __future__ import annotations

import os
import sys

REPO = os.environ.get("YNCA_REPO", "/repo")
if REPO not in sys.path:
    sys.path.insert(0, REPO)


class StubConnection:
    def __init__(self):
        self.callbacks = []
        self.sent = []          # ("put", subunit, function, value) / ("get", subunit, function)
        self.num_commands_sent = 0

    def register_message_callback(self, cb):
        if cb not in self.callbacks:
            self.callbacks.append(cb)

    def unregister_message_callback(self, cb):
        if cb in self.callbacks:
            self.callbacks.remove(cb)

    def put(self, subunit, funcname, parameter):
        self.sent.append(("put", f"{subunit}", funcname, parameter))
        self.num_commands_sent += 1

    def get(self, subunit, funcname):
        self.sent.append(("get", f"{subunit}", funcname))
        self.num_commands_sent += 1

    def __getattr__(self, name):
        # the seam the repository's own tests use is a MagicMock: members a refactoring adds to the connection's interface exist there and
        # do nothing; the same here (recorded, so that a check can look at them), instead of an AttributeError inside the harness
        if name.startswith("__"):
            raise AttributeError(name)

        def other(*a, **k):
            self.__dict__.setdefault("other_calls", []).append((name, a, k))
            return None
        return other

    def deliver(self, status, subunit, function, value):
        for cb in list(self.callbacks):
            cb(status, subunit, function, value)


def subunit_class(py_name: str):
    import ynca.api  # noqa: F401  (imports every subunit module)
    from ynca.helpers import all_subclasses
    from ynca.subunit import SubunitBase

    for c in all_subclasses(SubunitBase):
        if c.__name__ == py_name and getattr(c, "id", None) is not None:
            return c
    raise KeyError(py_name)


def make(py_name: str):
    conn = StubConnection()
    return subunit_class(py_name)(conn), conn
