"""Exploration of scheduled executions in a process pool (tie B2): every job = (spec, seed, preemption budget);
the worker runs the real library under DetSched, evaluates the requested monitors, optionally renders the
observable trace for the Lean acceptor, and returns verdicts + statistics (+ the full trace on a failure)."""
from __future__ import annotations

import json
import multiprocessing as mp
import os
import subprocess
import sys
import time

from . import core


def _init():
    from . import sched
    sched.install()


def _job(args):
    spec, seed, preempt, mons, want_trace, prefix, acc, acc_log = args
    from . import monitors, scen
    t0 = time.time()
    mode = spec.get("_mode", "random")          # "first": canonical schedule after the prefix (systematic exploration)
    run = scen.run_spec(spec, seed=seed, prefix=prefix, preempt=preempt, mode=mode)
    run.preempt_budget = preempt
    res = {"seed": seed, "preempt": preempt, "status": run.status, "virtual_s": run.now / 1e6, "events": len(run.trace),
           "choices": len(run.choices), "real_s": time.time() - t0, "violations": [], "blocked": run.blocked,
           "kinds": {}, "main_exc": repr(run.results.get("main_exc")) if "main_exc" in run.results else None}
    for e in run.trace:
        res["kinds"][e["k"]] = res["kinds"].get(e["k"], 0) + 1
    for m in mons:
        try:
            for kind, what in monitors.MONITORS[m](spec, run):
                res["violations"].append({"monitor": m, "kind": kind, "what": what})
        except Exception as e:  # noqa: BLE001
            import traceback
            res["violations"].append({"monitor": m, "kind": "monitor-crash", "what": traceback.format_exc()[-1500:]})
    if acc is not None:
        from . import render
        # the acceptor models ONE connection: events of another connection / API object alive in the same process are not its business
        acc_trace = monitors.first_connection_only(run.trace) if (spec.get("other_device") or spec.get("second")) else run.trace
        lines, idx = render.render(acc_trace, log_size=spec.get("log_size", 0) if acc_log is None else acc_log, hidden=acc, end_t=run.now,
                                   snapshots=acc_log is None)
        try:
            out = core.run_driver("accept", lines, timeout=180)
            res["accept"] = out[0] if out else "NO-OUTPUT"
        except Exception as e:  # noqa: BLE001
            res["accept"] = f"DRIVER-ERROR {e}"
        if not res["accept"].startswith("ACCEPT"):
            want_trace = True
            parts = res["accept"].split()
            if parts[0] == "REJECT":
                i = int(parts[1])
                res["reject_context"] = lines[max(1, i - 12):i + 3]
                res["reject_line"] = lines[i + 1] if i + 1 < len(lines) else None
    if "L5run" in mons:
        pass
    if run.results.get("l5") is not None:
        res["l5"] = run.results["l5"]
    if run.results.get("cc") is not None:
        res["cc"] = run.results["cc"]
    if run.results.get("api") is not None:
        res["api"] = run.results["api"]
    if run.status not in ("all-finished",):
        res["violations"].append({"monitor": "sched", "kind": "hang", "what": f"run ended with status {run.status}; threads still blocked: {run.blocked}"})
    if mode == "first":
        res["choice_log"] = getattr(run, "choice_log", [])
    if res["violations"] or want_trace:
        res["trace"] = run.trace[:6000]
        res["choice_list"] = run.choices[:20000]
    return res


_pool = None


def pool():
    global _pool
    if _pool is None:
        ctx = mp.get_context("spawn")
        _pool = ctx.Pool(min(16, os.cpu_count() or 4), initializer=_init)
    return _pool


def explore(jobs, mons, want_trace=False, accept=None, accept_log_size=None):
    """jobs: list of (spec, seed, preempt[, prefix]).  accept: None (no acceptor) or list of hidden output kinds.
    Returns list of results in order."""
    args = [(j[0], j[1], j[2], mons, want_trace, j[3] if len(j) > 3 else None, accept, accept_log_size) for j in jobs]
    return pool().map(_job, args, chunksize=max(1, len(args) // 64))


def systematic(spec, mons, depth=2, max_runs=20000):
    """Iterative context bounding (Musuvathi & Qadeer): the canonical schedule (at every scheduling decision the first ready thread) and
    EVERY schedule that deviates from it at up to `depth` decisions, for one small scenario.  Exhaustive for that bound; returns
    (results, stats).  Each result carries the explicit choice list, so a violation replays exactly."""
    base = dict(spec, _mode="first")
    level = [[]]                      # prefixes to run at this level
    results = []
    stats = {"runs": 0, "levels": [], "truncated": False}
    for d in range(depth + 1):
        if not level:
            break
        if stats["runs"] + len(level) > max_runs:
            level = level[:max(0, max_runs - stats["runs"])]
            stats["truncated"] = True
        rs = explore([(base, 0, 0, pre) for pre in level], mons)
        stats["runs"] += len(rs)
        stats["levels"].append(len(rs))
        nxt = []
        for pre, r in zip(level, rs):
            r["prefix"] = pre
            results.append(r)
            log = r.get("choice_log") or []
            if d < depth:
                for i in range(len(pre), len(log)):
                    n, c = log[i]
                    for a in range(n):
                        if a != c:
                            nxt.append([x for _, x in log[:i]] + [a])
        level = nxt
    return results, stats


def close_pool():
    global _pool
    if _pool is not None:
        _pool.close()
        _pool.join()
        _pool = None
