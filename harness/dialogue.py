"""Tie of the L5 dialogue model (Model/Dialogue.lean) to the code: a scheduled real execution of one subunit object's initialize()
is rendered as the label sequence of the model (begin / write / consume / unsolicited / process / wake / timeout / tick) and the
compiled driver (`ynca_model dialogue`) executes `L5.step` on it: every label must be enabled, every written / processed text must be the
one the model is about to write / process.  A rejected run is a broken correspondence (not by itself a violation).

Eligible: scenario kind "subunit" with ONE object (possibly initialised several times) and a receiver that is a function of the command
text (the model's `answer`)."""
from __future__ import annotations

from . import core
from .monitors import PROBE, library_probes, lines_by_read


def render(spec, run):
    """-> (lines, note) or (None, why-not-eligible)"""
    kind = spec.get("kind")
    if kind not in ("subunit", "api_init"):
        return None, "kind"
    if kind == "subunit":
        inits = spec.get("inits") or [{}]
        if any(it.get("same_as") not in (None, 0) for it in inits) or sum(1 for it in inits if it.get("same_as") is None) != 1:
            return None, "several objects"
    elif spec.get("fault") or spec.get("first_device") or spec.get("closer") or spec.get("open_fails"):
        return None, "fault / second attempt / concurrent close: outside the dialogue model"
    dev = spec.get("device", {})
    if dev.get("silent_after") is not None or (dev.get("swallow_first") and kind == "subunit") or dev.get("eof_after_bytes") is not None or dev.get("drop_at") is not None or dev.get("cut_reply") or dev.get("pause") or dev.get("mute"):
        return None, "device is not a function of the command text"
    tr = run.trace
    lib = {hi for _, hi, _ in library_probes(tr)}
    # answers: command text -> reply lines (must be the same for every occurrence)
    answers = {}
    by_cause_seq = {}
    writes = [e for e in tr if e["k"] == "write"]
    wtexts = [(e["seq"], bytes.fromhex(e["data"])[:-2].decode("utf-8", "replace")) for e in writes]
    dls = [e for e in tr if e["k"] == "dev_line"]
    # attribute device lines to writes: sequential responder, replies carry their cause
    pending = []         # [(write_seq, text)]
    wi = 0
    groups = []          # (write_seq, text, [dev_line events])
    cur = None
    allw = list(wtexts)
    idx = {}
    for seq, text in allw:
        groups.append([seq, text, []])
    gi = 0
    for e in dls:
        if e.get("cause") is None:
            continue
        # the next group (in write order) with this text that can still take lines
        while gi < len(groups) and not (groups[gi][1] == e["cause"]):
            gi += 1
        if gi >= len(groups):
            return None, "reply without a matching command"
        # lines of one answer are contiguous; a following identical command starts a new group once a later write lies in between
        g = groups[gi]
        if g[2] and e["seq"] > next((s for s, _ in allw if s > g[0] and _ == g[1]), 10 ** 12) and False:
            pass
        g[2].append(e)
    for seq, text, evs in groups:
        if seq in lib:
            continue
        a = [x["line"] for x in evs]
        if text in answers and answers[text] != a:
            return None, "the same command was answered differently"
        answers[text] = a
    out = []
    for cmd, ls in answers.items():
        out.append("answer " + core.hx(cmd) + "".join(" " + core.hx(l) for l in ls))
    # events in trace order
    evs = []
    opname = "sub_initialize" if kind == "subunit" else "initialize"
    calls = [e for e in tr if e["k"] == "api_call" and e["op"] == opname]
    rets = {e["call"]: e for e in tr if e["k"] == "api_ret" and e["op"] == opname}
    spacing = 100_000
    first_begin = 10 ** 12
    for c in calls:
        r = rets.get(c["seq"])
        hi = r["seq"] if r else 10 ** 12
        gets = [e for e in tr if e["k"] == "call" and e["op"][0] == "get" and c["seq"] < e["seq"] < hi and str(e["ctx"]).startswith("api@")]
        # stages: runs of GET submissions, each ending with the synchronisation query
        stages, cur = [], []
        for g in gets:
            cur.append(g)
            if f"{g['op'][1]}" == "SYS" and g["op"][2] == "VERSION":
                stages.append(cur)
                cur = []
        if cur or not stages:
            if r is not None and r["exc"] is None:
                return None, "no synchronisation query"
            if not stages:
                return None, "failed before the first stage"
        for i, st in enumerate(stages):
            qs = [f"@{g['op'][1]}:{g['op'][2]}=?" for g in st]
            bseq, bt = st[0]["seq"], st[0]["t"]
            if i > 0:
                evs.append((bseq - 0.7, bt, "wake"))        # the previous stage's wait ended before this stage began
            evs.append((bseq - 0.5, bt, "begin %d" % (2_000_000 + len(qs) * 5 * spacing) + "".join(" " + core.hx(q) for q in qs[:-1])))
            first_begin = min(first_begin, bseq)
        if r:
            evs.append((r["seq"], r["t"], "wake" if r["exc"] is None else "timeout"))
    for seq, text, g in groups:
        if seq in lib:
            # replies to the library's own probes are lines on the link like any other: unsolicited from the dialogue's point of view
            for x in g:
                evs.append((x["seq"], x["t"], "unsol " + core.hx(x["line"])))
            continue
        wev = next(e for e in writes if e["seq"] == seq)
        evs.append((seq, wev["t"], "write " + core.hx(text)))
        if g:
            evs.append((g[0]["seq"], g[0]["t"], "consume"))
            if any(e["k"] == "dev_line" and g[0]["seq"] < e["seq"] < g[-1]["seq"] and e not in g for e in dls):
                return None, "another line between the lines of one answer"
        else:
            evs.append((seq + 0.5, wev["t"], "consume"))
    for e in dls:
        if e.get("cause") is None:
            evs.append((e["seq"], e["t"], "unsol " + core.hx(e["line"])))
    tmap = {e["seq"]: e["t"] for e in tr}
    for rseq, wend, text in lines_by_read(tr):
        evs.append((rseq, tmap.get(rseq, 0), "process " + core.hx(text)))
    evs.sort(key=lambda x: x[0])
    now = 0
    n_labels = 0
    for seq, t, lab in evs:
        if lab.startswith("write") and seq < first_begin:
            return None, "a command was written before the first initialize()"
        if t > now:
            out.append(f"tick {t - now}")
            now = t
        out.append(lab)
        n_labels += 1
        if lab == "timeout":
            break
    return out, {"labels": n_labels}


def check(spec, run):
    lines, note = render(spec, run)
    if lines is None:
        return {"l5": "SKIP", "why": note}
    res = core.run_driver("dialogue", lines, timeout=60)
    for i, (l, r) in enumerate(zip(lines, res)):
        if r != "ok":
            return {"l5": "REJECT", "index": i, "label": l[:200], "verdict": r, "context": lines[max(0, i - 8):i + 1]}
    return {"l5": "ACCEPT", "labels": note["labels"]}
