"""Common driver of the B2 (scheduled real threads) checks: explore generated scenarios, evaluate monitors on the real
traces, validate the traces against the L4 model with the compiled acceptor, fold everything into the verdict."""
from __future__ import annotations

import json

from . import b2, core


def run_b2(ctx: core.Ctx, make_jobs, mons, hidden=("clock",), log_visible=False, label="", accept=True, accept_log_size=None):
    jobs = make_jobs(ctx.rng, ctx.tier == "thorough")
    hid = [h for h in hidden if not (log_visible and h == "clock")]
    results = b2.explore(jobs, mons, accept=hid if accept else None, accept_log_size=accept_log_size)
    b2.close_pool()
    rejected = []
    for (spec, seed, pre, *_), r in zip(jobs, results):
        ctx.case((json.dumps(spec, sort_keys=True), seed, pre))
        ctx.count(f"status:{r['status']}")
        ctx.count(f"preempt:{pre}")
        ctx.count("virtual_seconds", int(r["virtual_s"]))
        ctx.count("trace_events", r["events"])
        for k in ("write", "msg_cb", "disc_cb", "read_fault", "port_close"):
            ctx.count(f"events:{k}", r["kinds"].get(k, 0))
        for v in r["violations"]:
            ctx.violation(f"[{v['monitor']}/{v['kind']}] schedule seed={seed} preempt={pre}: {v['what']}",
                          {"path": "b2", "spec": spec, "seed": seed, "preempt": pre, "choices": r.get("choice_list"), "monitor": v["monitor"], "kind": v["kind"],
                           "trace_tail": [e for e in r.get("trace", []) if e["k"] not in ("read_enter", "clock")][-80:]},
                          {"kind": v["kind"], "monitor": v["monitor"]})
        if accept and r.get("accept", "").startswith("DRIVER-ERROR") and "timed out" in r["accept"]:
            # the acceptor normally needs well under a second (a few dozen model states); a run it cannot decide in minutes is a run the
            # model does not explain in any ordinary way: reported like a rejection (after the search for a concrete failing input)
            rejected.append({"spec": spec, "seed": seed, "preempt": pre, "verdict": "UNDECIDED: the acceptor did not finish within its time limit (state explosion)"})
            continue
        if accept and r.get("accept", "").startswith("DRIVER-ERROR"):
            raise RuntimeError(f"the trace acceptor failed (harness problem, not a verdict): {r['accept'][:300]} seed={seed}")
        if accept and not r.get("accept", "").startswith("ACCEPT"):
            rejected.append({"spec": spec, "seed": seed, "preempt": pre, "verdict": r.get("accept"), "rejecting_event": r.get("reject_line"),
                             "context": r.get("reject_context")})
    if results:
        r0 = results[0]
        ctx.sample({"spec": jobs[0][0], "seed": jobs[0][1], "preempt": jobs[0][2], "status": r0["status"], "virtual_s": r0["virtual_s"], "events": r0["events"],
                    "acceptor": r0.get("accept")})
    ctx.cov["traces_validated_against_impl"] = ctx.cov.get("traces_validated_against_impl", 0) + sum(1 for r in results if r.get("accept", "").startswith("ACCEPT"))
    ctx.cov["traces_rejected_by_acceptor"] = ctx.cov.get("traces_rejected_by_acceptor", 0) + len(rejected)
    ctx.cov["b2_schedules"] = ctx.cov.get("b2_schedules", 0) + len(results)
    if rejected and not ctx.violations and [m for m in mons if m in ("C01", "C06", "C07", "C08", "C09", "C12", "C13", "C14", "C15", "C16", "C17", "C20")]:
        # extended search (DESIGN §4): the implementation did something the model cannot do in these scenarios — re-run them under many
        # neighbouring schedules and preemption budgets with the property's monitors, looking for a concrete failing input
        import random as _random
        rr = _random.Random(ctx.seed * 7919 + len(rejected))
        extra = []
        for rj in rejected[:3]:
            for _ in range(120):
                extra.append((rj["spec"], rr.randrange(10 ** 9), rr.choice([0, 3, 6, 10])))
        xs = b2.explore(extra, mons)
        b2.close_pool()
        ctx.count("extended_search_schedules", len(xs))
        for (spec, seed, pre), r in zip(extra, xs):
            for v in r["violations"]:
                ctx.violation(f"[{v['monitor']}/{v['kind']}] (extended search after a rejected trace) schedule seed={seed} preempt={pre}: {v['what']}",
                              {"path": "b2", "spec": spec, "seed": seed, "preempt": pre, "choices": r.get("choice_list"), "monitor": v["monitor"], "kind": v["kind"]},
                              {"kind": v["kind"], "monitor": v["monitor"]})
    if rejected and not ctx.violations:
        ctx.correspondence_broken(f"L4 model trace inclusion ({label})", {"count": len(rejected), "first": rejected[0]})
    ctx.assumptions += ["DetSched shims implement the documented semantics of threading.Lock/Event/Thread.join, queue.Queue, time.sleep; single attribute reads/writes are atomic (GIL)",
                        "the virtual port behaves like a pyserial port without cancel_read (1 s read time-out)",
                        "virtual time: computation is instantaneous; OS scheduling latency and real sleep accuracy are outside the model"]
    return results


def replay_b2(rp, mons):
    from . import monitors, render, scen, sched
    sched.install()
    run = scen.run_spec(rp["spec"], seed=rp["seed"], prefix=rp.get("choices"), preempt=rp.get("preempt", 0))
    for e in run.trace[-100:]:
        if e["k"] not in ("read_enter", "clock"):
            print({k: v for k, v in e.items() if k != "seq"})
    bad = []
    for m in mons:
        bad += monitors.MONITORS[m](rp["spec"], run)
    print("monitors:", bad)
    if rp["spec"].get("kind", "conn") == "conn" and not rp["spec"].get("stall"):
        lines, _ = render.render(run.trace, log_size=rp["spec"].get("log_size", 0), hidden=["clock"], end_t=run.now)
        print("acceptor:", core.run_driver("accept", lines))
    return 1 if bad else 0


def l5_fold(ctx, results, label):
    """tie of the L5 dialogue model: every eligible run must be a run of the model (monitor name "L5run" must have been requested)"""
    l5 = [(r, r.get("l5") or {"l5": "SKIP", "why": "no verdict"}) for r in results]
    for _, v in l5:
        ctx.count("l5:" + v["l5"] + (":" + str(v.get("why")) if v["l5"] == "SKIP" else ""))
    ctx.cov["l5_runs_accepted_by_dialogue_model"] = ctx.cov.get("l5_runs_accepted_by_dialogue_model", 0) + sum(1 for _, v in l5 if v["l5"] == "ACCEPT")
    rej = [(r, v) for r, v in l5 if v["l5"] == "REJECT"]
    ctx.cov["l5_runs_rejected_by_dialogue_model"] = ctx.cov.get("l5_runs_rejected_by_dialogue_model", 0) + len(rej)
    if rej and not ctx.violations:
        r, v = rej[0]
        ctx.correspondence_broken(f"L5 dialogue model: a real {label} run is not a run of the model", {"count": len(rej), "first": {"seed": r["seed"], "preempt": r["preempt"], "verdict": v}})


def cc_fold(ctx, results, jobs):
    """tie of the L5c model of connection_check(): every eligible run must be a run of the model with the model's outcome (monitor name
    "CCrun" must have been requested)"""
    cc = [(j, r, r.get("cc") or {"cc": "SKIP", "why": "no verdict"}) for j, r in zip(jobs, results)]
    for _, _, v in cc:
        ctx.count("l5c:" + v["cc"] + (":" + str(v.get("why")) if v["cc"] == "SKIP" else (":" + str(v.get("outcome")) if v["cc"] == "ACCEPT" else "")))
    ctx.cov["l5c_runs_executed_by_conncheck_model"] = ctx.cov.get("l5c_runs_executed_by_conncheck_model", 0) + sum(1 for _, _, v in cc if v["cc"] == "ACCEPT")
    rej = [(j, r, v) for j, r, v in cc if v["cc"] == "REJECT"]
    ctx.cov["l5c_runs_differing_from_conncheck_model"] = ctx.cov.get("l5c_runs_differing_from_conncheck_model", 0) + len(rej)
    if rej and not ctx.violations:
        j, r, v = rej[0]
        ctx.correspondence_broken("L5c model of connection_check(): a real run is not a run of the model, or returns something else",
                                  {"count": len(rej), "first": {"spec": j[0], "seed": r["seed"], "preempt": r["preempt"], "verdict": v}})


def api_fold(ctx, results, jobs):
    """tie of the L7 model of the YncaApi program: every eligible run of initialize() must be a run of the model with the model's key list
    (monitor name "APIrun" must have been requested)"""
    vs = [(j, r, r.get("api") or {"api": "SKIP", "why": "no verdict"}) for j, r in zip(jobs, results)]
    for _, _, v in vs:
        ctx.count("l7:" + v["api"] + (":" + str(v.get("why")) if v["api"] == "SKIP" else (":" + str(v.get("outcome")) if v["api"] == "ACCEPT" else "")))
    ctx.cov["l7_runs_executed_by_api_model"] = ctx.cov.get("l7_runs_executed_by_api_model", 0) + sum(1 for _, _, v in vs if v["api"] == "ACCEPT")
    ctx.cov["l7_objects_constructed_in_model_order"] = ctx.cov.get("l7_objects_constructed_in_model_order", 0) + sum(v.get("objects", 0) for _, _, v in vs if v["api"] == "ACCEPT")
    rej = [(j, r, v) for j, r, v in vs if v["api"] == "REJECT"]
    ctx.cov["l7_runs_differing_from_api_model"] = ctx.cov.get("l7_runs_differing_from_api_model", 0) + len(rej)
    if rej and not ctx.violations:
        j, r, v = rej[0]
        ctx.correspondence_broken("L7 model of YncaApi.initialize(): a real run is not a run of the model, or leaves other subunit keys",
                                  {"count": len(rej), "first": {"spec": j[0], "seed": r["seed"], "preempt": r["preempt"], "verdict": v}})


def run_systematic(ctx, specs, mons, depth, label="", max_runs=20000):
    """exhaustive exploration of every schedule within `depth` deviations from the canonical one, per small scenario"""
    total = 0
    for spec in specs:
        results, stats = b2.systematic(spec, mons, depth=depth, max_runs=max_runs)
        total += stats["runs"]
        ctx.count("systematic_runs", stats["runs"])
        ctx.count(f"systematic_depth:{depth}")
        if stats["truncated"]:
            ctx.count("systematic_truncated")
        for r in results:
            ctx.case((json.dumps(spec, sort_keys=True), "sys", tuple(r["prefix"])))
            if r["status"] != "all-finished":
                ctx.count(f"status:{r['status']}")
            for v in r["violations"]:
                ctx.violation(f"[{v['monitor']}/{v['kind']}] systematic schedule {r['prefix']}: {v['what']}",
                              {"path": "b2", "spec": dict(spec, _mode="first"), "seed": 0, "preempt": 0, "choices": r.get("choice_list") or r["prefix"], "monitor": v["monitor"], "kind": v["kind"]},
                              {"kind": v["kind"], "monitor": v["monitor"]})
    b2.close_pool()
    ctx.cov["systematic_schedules"] = ctx.cov.get("systematic_schedules", 0) + total
    ctx.cov["exhaustive_within_bound"] = f"all schedules within {depth} deviation(s) from the canonical schedule of {len(specs)} small scenario(s) ({label})"
    return total
