"""L3 differential session: real subunit objects on one stub connection vs `ynca_model subunit`.

Every operation is executed on the real objects immediately (collecting a canonical result string) and
appended to the op list for the model; `finish()` pipes the ops to the driver and diffs line by line."""
from __future__ import annotations

import os

import enum
import math
import re
from fractions import Fraction

from . import core
from .realobj import StubConnection, subunit_class

_D = re.compile(r"d:(-?\d+):(\d+)")


def canon_model(s: str) -> str:
    """model decimal `d:mant:frac` -> the double Python caches, as an exact fraction"""
    def rep(m):
        f = Fraction(float(Fraction(int(m.group(1)), 10 ** int(m.group(2)))))
        return f"F:{f.numerator}/{f.denominator}"
    s = _D.sub(rep, s)
    if s == "V n":
        return "V NONE"
    if "=n" in s or ":n" in s:
        toks = []
        for t in s.split(" "):
            if t.endswith("=n"):
                continue                      # dump: a cached None is indistinguishable from "never reported"
            if t.endswith(":n") and t.count(":") == 3:
                t = t[:-1] + "NONE"           # callback invoked with None
            toks.append(t)
        s = " ".join(toks) if toks else "-"
    return s


def show_real(v) -> str:
    if isinstance(v, enum.Enum):
        return f"m:{type(v).__name__}:{v.name}"
    if v is None:
        return "NONE"
    if isinstance(v, bool):
        return f"b:{v}"
    if isinstance(v, int):
        return f"i:{v}"
    if isinstance(v, float):
        if not math.isfinite(v):
            return "fn"
        f = Fraction(v)
        return f"F:{f.numerator}/{f.denominator}"
    if isinstance(v, str):
        return "s:" + core.hx(v)
    return "other:" + type(v).__name__


def pyval_token(v) -> str:
    if v is None:
        return "n"
    if isinstance(v, bool):
        return f"b:{int(v)}"
    if isinstance(v, enum.Enum):
        return f"m:{type(v).__name__}:{v.name}"
    if isinstance(v, int):
        return f"i:{v}"
    if isinstance(v, float):
        if math.isfinite(v):
            f = Fraction(v)
            return f"f:{f.numerator}:{f.denominator}"
        return "fn"
    if isinstance(v, str):
        return "s:" + core.hx(v)
    import decimal
    if isinstance(v, Fraction) or (isinstance(v, decimal.Decimal) and v.is_finite()):
        f = Fraction(v)                      # other exact numeric types: the number they denote
        return f"f:{f.numerator}:{f.denominator}"
    return "o"


def opt(x):
    return "~" if x is None else core.hx(x)


def show_sent(item) -> str:
    if item[0] == "put":
        v = item[3]
        return f"put:{core.hx(item[1])}:{core.hx(item[2])}:{core.hx(v) if isinstance(v, str) else 'NONSTR(' + type(v).__name__ + ')'}"
    return f"get:{core.hx(item[1])}:{core.hx(item[2])}"


class _Listener:
    """a user object whose bound method is the callback (several instances of ONE class register their own method)"""
    def __init__(self, f):
        self._f = f

    def on_update(self, fn, value):
        self._f(fn, value)


class _CallableObj:
    def __init__(self, f):
        self._f = f

    def __call__(self, fn, value):
        self._f(fn, value)


def _shared_target(f, fn, value):
    f(fn, value)


CB_KINDS = ("function", "bound", "partial", "callable")


class L3Session:
    _sessions = 0        # the kind of callable handed to register_update_callback rotates with the session number (no PRNG draw)

    def __init__(self):
        L3Session._sessions += 1
        self.cb_kind = os.environ.get("VERIF_CB_KIND") or CB_KINDS[L3Session._sessions % len(CB_KINDS)]
        from ynca.connection import YncaProtocolStatus

        self.Status = YncaProtocolStatus
        self.conn = StubConnection()
        self.objs = []       # real objects
        self.pys = []
        self.ops = []        # model op lines
        self.real = []       # canonical real outputs
        self.meta = []       # free-form description per op (for reports)
        self.calls = []      # (objIdx, cbId, fn, value) since last message
        self.cbs = {}        # (objIdx, cbId) -> callable
        self.in_init = None
        self.reply_version = True
        self.stale = []      # update callbacks that did not find the reported value in the attribute they were told about
        self._attr_map = None

    def seen(self, idx, fn, value):
        """called from inside an update callback: the attribute must already read the value the callback is told (cache first, then notify)"""
        if self._attr_map is None:
            T = core.tables()
            self._attr_map = {(c["py"], f["name"]): f["attr"] for c in T["classes"] for f in c["fns"] if f["get"]}
        attr = self._attr_map.get((self.pys[idx], fn))
        if attr is None:
            return
        try:
            cur = getattr(self.objs[idx], attr)
        except Exception:  # noqa: BLE001
            return
        if cur != value and not (cur != cur and value != value):
            self.stale.append({"class": self.pys[idx], "function": fn, "told": repr(value), "attribute_reads": repr(cur)})

    # ---- helpers
    def _add(self, op, real, meta=None):
        self.ops.append(op)
        self.real.append(real)
        self.meta.append(meta if meta is not None else op)

    def new(self, py):
        cls = subunit_class(py)
        self.objs.append(cls(self.conn))
        self.pys.append(py)
        self._add(f"new {py}", "ok")
        return len(self.objs) - 1

    def _cb(self, idx, cbid):
        key = (idx, cbid)
        if key not in self.cbs:
            def f(fn, value, _k=key):
                self.calls.append((_k[0], _k[1], fn, value))
                self.seen(_k[0], fn, value)
            self.cbs[key] = self.wrap(f)
        h = self.cbs[key]
        # a bound method is a fresh (equal) object on every attribute access, as in user code: `x.register(self.on_update)` … `x.unregister(self.on_update)`
        return h.on_update if isinstance(h, _Listener) else h

    def wrap(self, f):
        """the callable of this session's kind that stands for `f`; `_cb` resolves it"""
        if self.cb_kind == "bound":
            return _Listener(f)
        if self.cb_kind == "partial":
            import functools
            return functools.partial(_shared_target, f)
        if self.cb_kind == "callable":
            return _CallableObj(f)
        return f

    def reg(self, idx, cbid):
        self.objs[idx].register_update_callback(self._cb(idx, cbid))
        self._add(f"reg {idx} {cbid}", "ok")

    def unreg(self, idx, cbid):
        try:
            self.objs[idx].unregister_update_callback(self._cb(idx, cbid))
            r = "ok"
        except KeyError:
            r = "ok"      # unregistering a callback that is not registered: the model ignores it; the code raises KeyError (informational)
        self._add(f"unreg {idx} {cbid}", r)

    def close(self, idx):
        self.objs[idx].close()
        self._add(f"close {idx}", "ok")

    def msg(self, status, su, fn, val, meta=None):
        st = {"OK": self.Status.OK, "UNDEFINED": self.Status.UNDEFINED, "RESTRICTED": self.Status.RESTRICTED}[status]
        self.calls = []
        try:
            self.conn.deliver(st, su, fn, val)
            inv = sorted(f"{i}:{c}:{core.hx(f)}:{show_real(v)}" for i, c, f, v in self.calls)
            r = " ".join(inv) if inv else "-"
        except Exception as e:  # noqa: BLE001
            r = f"EXC {type(e).__name__}"
        self._add(f"msg {status} {opt(su)} {opt(fn)} {opt(val)}", r, meta or ("msg", status, su, fn, val))
        return r

    def initialize(self, idx, version_reply="1.23"):
        """real initialize() with a stub that answers the SYS:VERSION sync synchronously (as the repo's tests do)"""
        obj = self.objs[idx]
        n0 = len(self.conn.sent)
        orig_get = self.conn.get
        sess = self
        state = {"sent": None}

        def get(subunit, funcname):
            orig_get(subunit, funcname)
            if f"{subunit}" == "SYS" and funcname == "VERSION":
                # record the model ops in the order things really happen
                state["sent"] = [show_sent(x) for x in sess.conn.sent[n0:]]
                sess._add(f"initbegin {idx}", " ".join(state["sent"]))
                if version_reply is not None:
                    sess.msg("OK", "SYS", "VERSION", version_reply)

        self.conn.get = get
        try:
            import ynca.subunit as SU
            # no reply -> the real wait would block for its (2 s + ...) time-out; shorten by patching Event.wait for this call only
            ev = obj._initialized_event
            orig_wait = ev.wait
            ev.wait = lambda timeout=None: ev.is_set()
            try:
                obj.initialize()
                r = "ok"
            except SU.YncaInitializationFailedException:
                r = "timeout"
            finally:
                ev.wait = orig_wait
        finally:
            self.conn.get = orig_get
        if state["sent"] is None:
            self._add(f"initbegin {idx}", " ".join(show_sent(x) for x in self.conn.sent[n0:]) or "closed")
        self._add(f"initend {idx}", r)
        return r

    def read(self, idx, attr):
        n0 = len(self.conn.sent)
        try:
            v = getattr(self.objs[idx], attr)
            r = "V " + show_real(v)
        except AttributeError:
            r = "AE"
        if len(self.conn.sent) != n0:
            r += " TRANSMITTED"
        self._add(f"read {idx} {attr}", r)
        return r

    def dump(self):
        parts = []
        n0 = len(self.conn.sent)
        for i, obj in enumerate(self.objs):
            for name, h in obj.function_handlers.items():
                from ynca.function import Cmd
                f = h.function
                if Cmd.GET in f.cmd:
                    attr = self._attr_of(i, name)
                    v = getattr(obj, attr)
                    if v is not None:
                        parts.append(f"{i}.{attr}={show_real(v)}")
        r = " ".join(parts) if parts else "-"
        if len(self.conn.sent) != n0:
            r += " TRANSMITTED"
        self._add("dump", r)
        return r

    _attr_cache = {}

    def _attr_of(self, idx, name):
        py = self.pys[idx]
        key = (py, name)
        if key not in self._attr_cache:
            T = core.tables()
            for c in T["classes"]:
                for f in c["fns"]:
                    self._attr_cache[(c["py"], f["name"])] = f["attr"]
        return self._attr_cache[key]

    def assign(self, idx, attr, value):
        n0 = len(self.conn.sent)
        try:
            setattr(self.objs[idx], attr, value)
            sent = self.conn.sent[n0:]
            if len(sent) == 1 and sent[0][0] == "put" and isinstance(sent[0][3], str):
                r = f"PUT {core.hx(sent[0][2])} {core.hx(sent[0][3])}"
            elif not sent:
                r = "NOTHING"
            else:
                r = "SENT " + " ".join(show_sent(x) for x in sent)
        except AttributeError:
            r = "AE" if len(self.conn.sent) == n0 else "AE+SENT"
        except Exception as e:  # noqa: BLE001
            r = "R" if len(self.conn.sent) == n0 else "R+SENT"
        self._add(f"assign {idx} {attr} {pyval_token(value)}", r, ("assign", self.pys[idx], attr, repr(value)))
        return r

    def act(self, idx, meth, *args):
        n0 = len(self.conn.sent)
        try:
            getattr(self.objs[idx], meth)(*args)
            sent = self.conn.sent[n0:]
            if len(sent) == 1 and sent[0][0] == "put" and isinstance(sent[0][3], str):
                r = f"PUT {core.hx(sent[0][2])} {core.hx(sent[0][3])}"
            elif not sent:
                r = "NOTHING"
            else:
                r = "SENT " + " ".join(show_sent(x) for x in sent)
        except Exception as e:  # noqa: BLE001
            r = "R" if len(self.conn.sent) == n0 else "R+SENT"
        self._add(" ".join([f"act {idx} {meth}"] + [pyval_token(a) for a in args]), r, ("act", self.pys[idx], meth, [repr(a) for a in args]))
        return r

    def sent(self, idx):
        sid = f"{self.objs[idx].id}"
        # everything the connection saw from this object: puts/gets addressed with its id, plus its VERSION syncs are not attributable -> compare whole-connection record instead
        self._add(f"sent {idx}", "?")

    # ---- model side
    def finish(self):
        """returns list of (index, op, real, model, meta) for disagreeing lines (model U / real informational are filtered by caller)"""
        model = [canon_model(x) for x in core.run_driver("subunit", self.ops)]
        if len(model) != len(self.ops):
            raise RuntimeError("driver output length mismatch")
        self.model = model
        return model


def canon_calls(s: str) -> str:
    if s in ("-", ""):
        return "-"
    return " ".join(sorted(s.split(" ")))
