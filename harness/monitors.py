"""Property monitors: each property as an executable predicate over REAL observable traces
(never demanding more than the property: must / may pairs where concurrency makes a boundary fuzzy)."""
from __future__ import annotations

PROBE = "@SYS:MODELNAME=?"
SPACING_US = 100_000
KA_US = 30_000_000


def writes(trace):
    return [(e["t"], bytes.fromhex(e["data"]), e["seq"]) for e in trace if e["k"] == "write"]


def calls(trace):
    """list of dict(call_seq, ret_seq, op, ctx, exc, res, t_call, t_ret)"""
    out = {}
    for e in trace:
        if e["k"] == "call":
            out[e["seq"]] = {"call": e["seq"], "ret": None, "op": e["op"], "ctx": e["ctx"], "t_call": e["t"], "t_ret": None, "exc": None, "res": None, "th": e["th"]}
        elif e["k"] == "ret" and e["call"] in out:
            c = out[e["call"]]
            c["ret"], c["t_ret"], c["exc"], c["res"], c["msg"] = e["seq"], e["t"], e["exc"], e.get("res"), e.get("msg")
    return list(out.values())


def text_of(op):
    if op[0] == "put":
        return f"@{op[1]}:{op[2]}={op[3]}"
    if op[0] == "get":
        return f"@{op[1]}:{op[2]}=?"
    if op[0] == "raw":
        return op[1]
    return None


def first_seq(trace, pred, default=None):
    for e in trace:
        if pred(e):
            return e["seq"]
    return default


def lifecycle(trace):
    """seq numbers of the events that end the 'connection is up' period"""
    cs = calls(trace)
    connect = next((c for c in cs if c["op"][0] == "connect"), None)
    # the scenario interpreter ends every session with a close() of its own (ctx "...-final"): that is the end of the observation,
    # not a close() "during" the session
    close_call = min([c["call"] for c in cs if c["op"][0] == "close" and not str(c["ctx"]).endswith("-final")], default=None)
    final_close = min([c["call"] for c in cs if c["op"][0] == "close" and str(c["ctx"]).endswith("-final")], default=None)
    fault = first_seq(trace, lambda e: e["k"] in ("fault_injected", "write_fault", "read_fault"))
    rexc = first_seq(trace, lambda e: e["k"] == "thread_exc")
    _fc = min([c["call"] for c in cs if c["op"][0] == "close" and str(c["ctx"]).endswith("-final")], default=None)
    if rexc is not None and _fc is not None and rexc > _fc:
        rexc = None
    final_t = next((c["t_call"] for c in cs if c["call"] == final_close), None) if final_close is not None else None
    return {"connect": connect, "close_call": close_call, "fault": fault, "thread_exc": rexc, "final_close": final_close, "final_t": final_t}


# ------------------------------------------------------------------------------------------------ C01
def mon_c01(spec, run):
    tr = run.trace
    bad = []
    ws = writes(tr)
    lc = lifecycle(tr)
    wire_lines = []
    for t, d, seq in ws:
        if not d.endswith(b"\r\n") or b"\r\n" in d[:-2]:
            bad.append(("framing", f"write {d[:80]!r} is not exactly one CR LF terminated line"))
            continue
        wire_lines.append((t, d[:-2].decode("utf-8", "replace"), seq))
    cs = [c for c in calls(tr) if text_of(c["op"]) is not None]
    for c in cs:
        if c["exc"] is not None:
            bad.append(("api-raises", f"{c['op'][0]}({text_of(c['op'])[:60]!r}) raised {c['exc']}: {c.get('msg')}"))
            break
    if lc["close_call"] is None and lc["fault"] is None:
        for e in tr:
            if e["k"] == "thread_exc" and e["th"][:1] in ("S", "R") and (lc["final_close"] is None or e["seq"] < lc["final_close"]):
                bad.append(("thread-died", f"library thread {e['th']} died with {e['exc']}: {e.get('msg')} while the connection was up; nothing submitted afterwards can reach the wire"))
                break
    by_ctx = {}
    all_texts = set()
    for c in sorted(cs, key=lambda c: c["call"]):
        by_ctx.setdefault(c["ctx"], []).append(c)
        all_texts.add(text_of(c["op"]))
    # every non-probe write is a submitted text
    for t, line, seq in wire_lines:
        if line != PROBE and line not in all_texts:
            bad.append(("foreign", f"the library wrote {line[:80]!r}, which nobody submitted and is not a keep-alive probe"))
    owner = {}
    shared = set()
    for ctx, lst in by_ctx.items():
        for c in lst:
            t = text_of(c["op"])
            if t in owner and owner[t] != ctx:
                shared.add(t)
            owner[t] = ctx
    # A caller's own SYS:MODELNAME query looks like a keep-alive probe on the wire.  Where the shim-level queue observations are available the
    # library's own probes can be told apart (the sender wrote a line that differs from the item it dequeued); the user's queries are then
    # ordinary commands.  If that attribution is not plausible (more "user" probe lines than were submitted) it is not used.
    lib = {hi for _, hi, _ in library_probes(tr)} if any(e["k"] == "qget" for e in tr) else None
    n_user_probe = sum(1 for c in cs if text_of(c["op"]) == PROBE)
    probe_ident = lib is not None and sum(1 for _, line, seq in wire_lines if line == PROBE and seq not in lib) <= n_user_probe
    for ctx, lst in by_ctx.items():
        texts_all = [text_of(c["op"]) for c in lst]
        texts = list(texts_all) if probe_ident else [t for t in texts_all if t != PROBE]
        if any(t in shared for t in texts):
            continue   # identity on the wire ambiguous for this caller: not checked
        tset = set(texts)
        mine = [(line, wi) for wi, (_, line, seq) in enumerate(wire_lines) if line in tset and not (line == PROBE and seq in (lib or ()))]
        # match every wire line to the earliest not yet matched submission with that text (repeated submissions allowed)
        used = [False] * len(texts)
        pos = []
        wpos = {}
        ok = True
        for line, wi in mine:
            k = next((i for i, t in enumerate(texts) if t == line and not used[i]), None)
            if k is None:
                bad.append(("twice", f"command {line[:80]!r} of caller {ctx} was written {[l for l, _ in mine].count(line)} times but submitted {texts.count(line)} time(s)"))
                ok = False
                break
            used[k] = True
            pos.append(k)
            wpos[k] = wi
        if not ok:
            continue
        if pos != sorted(pos):
            bad.append(("order", f"commands of caller {ctx} appear on the wire out of submission order: {[l for l, _ in mine][:6]}"))
            continue
        if pos and pos != list(range(len(pos))) and lc["close_call"] is None and lc["fault"] is None and lc["thread_exc"] is None:
            missing = texts[min(set(range(max(pos) + 1)) - set(pos))]
            bad.append(("lost", f"command {missing[:80]!r} of caller {ctx} never reached the wire although later ones did"))
            continue
        if PROBE in texts_all and not probe_ident:
            # a caller's own MODELNAME queries look like keep-alive probes; what can still be said: the k queries this caller submitted between
            # two of its other commands must be on the wire between those two (the library's own probes only add to the count)
            k_np = -1
            need = 0
            prev_w = None
            for t in texts_all:
                if t == PROBE:
                    need += 1
                    continue
                k_np += 1
                if k_np in wpos:
                    if prev_w is not None and need:
                        have = sum(1 for _, line, _ in wire_lines[prev_w + 1:wpos[k_np]] if line == PROBE)
                        if have < need:
                            bad.append(("order", f"caller {ctx} submitted {need} MODELNAME quer{'y' if need == 1 else 'ies'} between {texts[k_np - 1][:40]!r} and {texts[k_np][:40]!r}, "
                                                 f"but only {have} such line(s) were written between those two commands"))
                            break
                    prev_w = wpos[k_np]
                    need = 0
                else:
                    prev_w = None
                    need = 0
    # quiescence: connection stayed up and idle -> everything submitted while up has been written
    if lc["connect"] and lc["connect"]["exc"] is None and lc["close_call"] is None and lc["fault"] is None and lc["thread_exc"] is None and run.status == "all-finished":
        end_t = lc["final_t"] if lc["final_t"] is not None else run.now
        up_from = lc["connect"]["ret"]
        pend = [c for c in cs if c["call"] > up_from and c["ret"] is not None and c["exc"] is None and (lc["final_close"] is None or c["call"] < lc["final_close"])]
        if pend:
            last_submit = max(c["t_ret"] for c in pend)
            slack = int(sum(float(v) for v in spec.get("slow_writes", {}).values()) * 1_000_000)
            if end_t - last_submit >= (len(pend) + 6) * SPACING_US + slack:
                wl = [l for _, l, s_ in wire_lines if lc["final_close"] is None or s_ < lc["final_close"]]
                subm = [text_of(c["op"]) for c in pend]
                for c in pend:
                    if wl.count(text_of(c["op"])) < subm.count(text_of(c["op"])) and text_of(c["op"]) != PROBE:
                        bad.append(("not-written", f"command {text_of(c['op'])[:80]!r} submitted by {c['ctx']} at t={c['t_call'] / 1e6:.3f}s was never written although the connection stayed up and idle for {(end_t - last_submit) / 1e6:.1f}s"))
                        break
    return bad


# ------------------------------------------------------------------------------------------------ C08 / C12
def mon_c08(spec, run):
    bad = []
    ws = writes(run.trace)
    for t, d, _ in ws:
        # two lines handed to the port in one write are two transmissions started at the same instant
        if d.count(b"\r\n") > 1 or (b"\r\n" in d[:-2]):
            bad.append(("spacing", f"one write carries more than one CR LF terminated line ({d[:60]!r}): the lines in it are started 0 ms apart (< 100 ms)"))
            return bad
    for (t1, d1, _), (t2, d2, _) in zip(ws, ws[1:]):
        if t2 - t1 < SPACING_US:
            bad.append(("spacing", f"writes {d1[:40]!r} at {t1 / 1e6:.6f}s and {d2[:40]!r} at {t2 / 1e6:.6f}s are {(t2 - t1) / 1000:.3f} ms apart (< 100 ms)"))
            break
    return bad


def mon_c12(spec, run):
    bad = []
    tr = run.trace
    ws = writes(tr)
    lc = lifecycle(tr)
    if not lc["connect"] or lc["connect"]["exc"] is not None:
        return bad
    end_seq = min([x for x in (lc["close_call"], lc["fault"], lc["thread_exc"], lc["final_close"]) if x is not None], default=None)
    end_t = next((e["t"] for e in tr if e["seq"] == end_seq), run.now) if end_seq is not None else run.now
    if lc["close_call"] is None and lc["fault"] is None and lc["thread_exc"] is not None:
        e = next(x for x in tr if x["seq"] == lc["thread_exc"])
        if e["th"][:1] in ("S", "R") and (lc["final_close"] is None or e["seq"] < lc["final_close"]):
            bad.append(("thread-died", f"library thread {e['th']} died with {e['exc']}: {e.get('msg')} while connected: no keep-alive can be sent any more"))
    up = [(t, d, s) for t, d, s in ws if end_seq is None or s < end_seq]
    # the connection is "made" when the reader thread started its protocol: first write or connect return
    t0 = up[0][0] if up else lc["connect"]["t_ret"]
    times = [t for t, _, _ in up] + [end_t]
    prev = min(t0, lc["connect"]["t_ret"])
    # a write that blocks inside the driver (slow-write scenarios) legitimately delays what follows by its duration
    slack = int(max([0] + [float(v) for v in spec.get("slow_writes", {}).values()]) * 1_000_000)
    for t in times:
        if t - prev > KA_US + SPACING_US + slack:
            bad.append(("gap", f"nothing was transmitted between {prev / 1e6:.3f}s and {t / 1e6:.3f}s ({(t - prev) / 1e6:.3f}s > 30.1s) while connected"))
            break
        prev = t
    # two probes directly after connecting, before any user command submitted after connect() returned
    if len(up) >= 2 or (end_seq is None and run.now - t0 > 2 * SPACING_US):
        first_two = [d for _, d, _ in up[:2]]
        if len(first_two) < 2 or any(d != (PROBE + "\r\n").encode() for d in first_two):
            bad.append(("probes", f"the first two transmissions after connecting are {first_two!r}, expected two keep-alive probes"))
        elif up[1][0] - up[0][0] > SPACING_US + 1000 + slack:
            bad.append(("probes", f"the second start-up probe came {(up[1][0] - up[0][0]) / 1000:.1f} ms after the first"))
    return bad


# ------------------------------------------------------------------------------------------------ C20
def mon_c20(spec, run):
    bad = []
    tr = run.trace
    N = spec.get("log_size", 0)
    # ground truth from the port: writes (Send) and received lines (Received), by trace sequence
    items = []   # (seq, sub-index, kind, text)
    for t, d, seq in writes(tr):
        items.append((seq, 0, "Send", d[:-2].decode("utf-8", "replace") if d.endswith(b"\r\n") else d.decode("utf-8", "replace")))
    buf = bytearray()
    for e in tr:
        if e["k"] == "read" and e["data"]:
            buf.extend(bytes.fromhex(e["data"]))
            while b"\r\n" in buf:
                raw, _, rest = bytes(buf).partition(b"\r\n")
                buf = bytearray(rest)
                items.append((e["seq"], len(items), "Received", raw.decode("utf-8", "replace")))
    items.sort(key=lambda x: (x[0], x[1]))
    items = [(a, c, d) for a, _b, c, d in items]
    sends = [x for x in items if x[1] == "Send"]
    recvs = [x for x in items if x[1] == "Received"]
    for c in calls(tr):
        if c["op"][0] == "snap" and c["exc"] is not None:
            bad.append(("raises", f"requesting the communication log raised {c['exc']}: {c.get('msg')}"))
            break
        if c["op"][0] != "snap" or c["res"] is None:
            continue
        log = c["res"]
        if len(log) > max(N, 0):
            bad.append(("size", f"log has {len(log)} entries, requested size is {N}"))
            break
        ents = []
        ok = True
        for x in log:
            parts = x.split(" ", 2)
            if len(parts) < 3 or parts[1] not in ("Send:", "Received:"):
                bad.append(("format", f"log entry {x[:80]!r} is not '<time> Send:|Received: <line>'"))
                ok = False
                break
            ents.append((parts[1][:-1], parts[2]))
        if not ok:
            break
        # the entries must be the most recent ones: Send entries = a contiguous run of the port's writes (allowing one entry whose
        # write has not happened yet and writes that happened after the snapshot began), same for Received
        ls = [t for k, t in ents if k == "Send"]
        lr = [t for k, t in ents if k == "Received"]
        s_before = [t for s, _, t in sends if s < c["ret"]]
        r_before = [t for s, _, t in recvs if s < c["ret"]]
        # the snapshot is taken somewhere between the call and its return (the accessor may be preempted / held back before or after it)
        s_call = [t for s, _, t in sends if s < c["call"]]
        r_call = [t for s, _, t in recvs if s < c["call"]]
        s_all = [t for _, _, t in sends]

        # lines that arrived in ONE read are logged one by one as the reader handles them: all lines of the most recent read before the request
        # may still be unlogged (e.g. when the log is requested from inside the callback of the first of them)
        rs_call = [sq for sq, _, _ in recvs if sq < c["call"]]
        chunk_slack = sum(1 for sq in rs_call if sq == rs_call[-1]) if rs_call else 0

        def is_recent_run(sub, full_before, full_all, full_call, slack=0):
            if not sub:
                return True
            n = len(sub)
            # candidates: suffixes of prefixes of full_all ending between (len(full_call)-2-slack .. len(full_before)+1) to allow in-flight entries
            for end in range(max(0, len(full_call) - 2 - slack), min(len(full_all), len(full_before) + 1) + 1):
                if full_all[max(0, end - n):end] == sub:
                    return True
                # an entry logged whose write never happened (port closed / in flight at the end)
                if n >= 1 and full_all[max(0, end - (n - 1)):end] == sub[:-1]:
                    return True
            return False

        if not is_recent_run(ls, s_before, s_all, s_call):
            bad.append(("sends", f"Send entries {ls[-4:]} are not the most recent transmissions {s_before[-4:]} in order"))
            break
        if not is_recent_run(lr, r_before, [t for _, _, t in recvs], r_call, chunk_slack):
            bad.append(("receives", f"Received entries {lr[-4:]} are not the most recent received lines {r_before[-4:]} in order"))
            break
        if N > 0 and len(ents) < min(N, len(s_call) + len(r_call) - 2 - chunk_slack):
            bad.append(("short", f"log holds {len(ents)} entries although {len(s_call) + len(r_call)} lines had crossed the wire when the log was requested (size {N})"))
            break
        # requested from inside a message callback: the line being delivered has been received, so it is listed (two later entries may have
        # pushed it out of a very small ring, hence N >= 3)
        if str(c["ctx"]).startswith("cb") and N >= 3:
            cur = [e for e in tr if e["k"] == "msg_cb" and e["seq"] < c["call"] and e["th"] == c["th"]]
            if cur:
                e0 = cur[-1]
                text = f"@{e0['su']}:{e0['fn']}={e0['val']}" if e0["su"] is not None else ("@" + e0["status"] if e0["status"] != "OK" else None)
                if text is not None and ("Received", text) not in ents:
                    bad.append(("delivered-not-listed", f"the log requested from inside the callback for {text!r} does not list that line as received: {[t for k, t in ents if k == 'Received'][-3:]}"))
                    break
        # causality: a reply is never listed before the command that caused it
        causes = {}
        for e in tr:
            if e["k"] == "dev_line" and e.get("cause") is not None:
                causes.setdefault(e["line"], []).append(e["cause"])
        for i, (k, t) in enumerate(ents):
            if k == "Received" and t in causes and len(causes[t]) == 1:
                cause = causes[t][0]
                later = [j for j, (k2, t2) in enumerate(ents) if k2 == "Send" and t2 == cause and j > i]
                earlier = [j for j, (k2, t2) in enumerate(ents) if k2 == "Send" and t2 == cause and j < i]
                if later and not earlier and s_all.count(cause) == 1:
                    bad.append(("causal", f"reply {t!r} is listed before the command {cause!r} that caused it"))
                    break
    return bad


# ------------------------------------------------------------------------------------------------ C09 (message level)
def lines_by_read(trace):
    """[(read_seq, window_end_seq, line_text)] for every complete line, in arrival order"""
    out = []
    buf = bytearray()
    evs = [e for e in trace if e["th"].startswith("R") or e["k"] in ("read", "read_enter")]
    reads = [e for e in trace if e["k"] in ("read", "read_enter", "read_fault")]
    for i, e in enumerate(reads):
        if e["k"] == "read" and e["data"]:
            buf.extend(bytes.fromhex(e["data"]))
            end = next((r["seq"] for r in reads[i + 1:] if r["k"] == "read_enter"), 10 ** 12)
            while b"\r\n" in buf:
                raw, _, rest = bytes(buf).partition(b"\r\n")
                buf = bytearray(rest)
                out.append((e["seq"], end, raw.decode("utf-8", "replace")))
    return out


def mon_c09_msg(spec, run):
    """message-level callbacks: exactly-once delivery under concurrent / re-entrant (un)registration"""
    import re
    bad = []
    tr = run.trace
    lc = lifecycle(tr)
    cs = calls(tr)
    regs = {}
    for c in cs:
        if c["op"][0] in ("reg", "unreg"):
            regs.setdefault(c["op"][1], []).append(c)
    close_calls = [c for c in cs if c["op"][0] == "close"]
    close_ret = min([c["ret"] for c in close_calls if c["ret"] is not None], default=None)
    close_call = min([c["call"] for c in close_calls], default=None)
    deliveries = {}
    for e in tr:
        if e["k"] == "msg_cb":
            deliveries.setdefault((e["cb"], e["su"], e["fn"], e["val"]), []).append(e["seq"])
            if close_ret is not None and e["seq"] > close_ret:
                bad.append(("after-close", f"message callback {e['cb']} was started after close() had returned"))
    dead_seq = min([x for x in (lc["fault"], lc["thread_exc"]) if x is not None], default=None)
    seen_lines = set()
    all_lines = [x[2] for x in lines_by_read(tr)]
    for rseq, wend, text in lines_by_read(tr):
        if all_lines.count(text) > 1:
            continue            # the same text arrived more than once: deliveries cannot be attributed to one arrival
        m = re.fullmatch(r"@([^:]+?):([^=]+?)=(.*)", text, re.S)
        if not m:
            continue
        su, fn, val = m.groups()
        if (su, fn) == ("SYS", "MODELNAME"):
            continue            # keep-alive suppression is C13's business
        if text in seen_lines:
            continue            # identity of repeated lines is ambiguous
        seen_lines.add(text)
        for cb, ops in regs.items():
            ops = sorted(ops, key=lambda c: c["call"])
            # Operations that overlap in time are unordered (their effect on the collection can take place anywhere between call and
            # return).  certainly: some register() returned before the window and every unregister() that begins before the window
            # ends lies entirely before that register().  possibly: some register() began before the window ends and no unregister()
            # lies entirely between it and the window.
            INF = 10 ** 12
            regs_ = [o for o in ops if o["op"][0] == "reg"]
            unregs_ = [o for o in ops if o["op"][0] == "unreg"]
            ret = lambda o: o["ret"] if o["ret"] is not None else INF  # noqa: E731
            certainly = any(ret(R) < rseq and all(ret(U) < R["call"] for U in unregs_ if U["call"] < wend) for R in regs_)
            if certainly:
                certainly = not (close_call is not None and close_call < wend) and not (dead_seq is not None and dead_seq < wend)
            possibly = any(R["call"] < wend and not any(U["call"] > ret(R) and ret(U) < rseq for U in unregs_) for R in regs_)
            n = len(deliveries.get((cb, su, fn, val), []))
            if n > 1:
                bad.append(("twice", f"callback {cb} was invoked {n} times for the line {text!r}"))
            elif certainly and n == 0:
                bad.append(("lost", f"callback {cb}, registered throughout, was not invoked for the line {text!r}"))
            elif not possibly and n > 0:
                bad.append(("unregistered", f"callback {cb} was invoked for {text!r} although it was not registered"))
    # never breaks the connection
    if lc["fault"] is None:
        for e in tr:
            if e["k"] == "thread_exc" and not (e["th"].startswith("S") and lc["close_call"] is not None and e["seq"] > lc["close_call"]):
                bad.append(("thread-died", f"thread {e['th']} died with {e['exc']}: {e.get('msg')}"))
                break
        if any(e["k"] == "disc_cb" for e in tr):
            bad.append(("disconnected", "the disconnect callback was invoked although the link never failed"))
    return bad


MONITORS = {"C01": mon_c01, "C08": mon_c08, "C12": mon_c12, "C20": mon_c20, "C09": mon_c09_msg}


# ------------------------------------------------------------------------------------------------ C15 / C16
JOIN_US = 2_000_000


def mon_c16(spec, run):
    bad = []
    tr = run.trace
    cs = calls(tr)
    closes = [c for c in cs if c["op"][0] == "close"]
    if spec.get("closer"):
        # YncaApi.close() from a second thread: a close() that began before initialize() had its connection (connect() returned and the first
        # use of the connection was made) may be ordered entirely before initialize() — closing an API object that has nothing open yet
        est = min([c["call"] for c in cs if c["op"][0] in ("reg", "get") and str(c["ctx"]).startswith("api@U0")], default=10 ** 12)
        closes = [c for c in closes if not (c["ctx"] == "U1" and c["call"] < est)]
    if not closes:
        return bad
    fault = first_seq(tr, lambda e: e["k"] in ("fault_injected", "write_fault", "read_fault"))
    for c in closes:
        if c["ret"] is None:
            bad.append(("hang", f"close() called by {c['th']} ({c['ctx']}) at t={c['t_call'] / 1e6:.3f}s never returned"))
        elif c["exc"] is not None:
            bad.append(("raised", f"close() called by {c['th']} ({c['ctx']}) raised {c['exc']}: {c.get('msg')}"))
        elif c["t_ret"] - c["t_call"] > 2 * JOIN_US + 100_000:
            bad.append(("slow", f"close() took {(c['t_ret'] - c['t_call']) / 1e6:.2f}s"))
    first_call = min(c["call"] for c in closes)
    # close() is safe: it must not make a library thread crash (an exception that is not the transport's own error)
    for e in tr:
        if e["k"] == "thread_exc" and e["th"][:1] in ("R", "S") and e["seq"] > first_call and e["exc"] not in ("SerialException", "PortNotOpenError", "SerialTimeoutException", "OSError"):
            bad.append(("thread-crash", f"library thread {e['th']} crashed with {e['exc']}: {e.get('msg')} while / after close() ran"))
            break
    if fault is None:
        for e in tr:
            if e["k"] == "disc_cb" and e["seq"] > first_call:
                bad.append(("disc-cb", "the disconnect callback was invoked after a planned close() on a healthy link"))
                break
    returned = [c for c in closes if c["ret"] is not None and c["exc"] is None]
    connected = any(c["op"][0] == "connect" and c["exc"] is None for c in cs)
    if returned and connected:
        r0 = min(returned, key=lambda c: c["ret"])
        for e in tr:
            if e["seq"] <= r0["ret"]:
                continue
            if e["k"] == "write":
                bad.append(("write-after", f"{bytes.fromhex(e['data'])[:60]!r} was written to the device after close() had returned"))
                break
            if e["k"] in ("msg_cb", "disc_cb"):
                bad.append(("callback-after", f"a {'message' if e['k'] == 'msg_cb' else 'disconnect'} callback was started after close() had returned"))
                break
        if not any(e["k"] == "port_close" and e["seq"] < r0["ret"] for e in tr):
            bad.append(("port-open", "the transport is still open after close() returned"))
        for role in ("R", "S"):
            ex = [e for e in tr if e["k"] == "thread_exit" and e["th"] == role]
            started = any(e["th"] == role for e in tr)
            if started and not ex:
                bad.append(("thread-alive", f"library thread {role} never terminated after close()"))
            elif ex and ex[0]["t"] > r0["t_ret"] + 2 * JOIN_US + 100_000:
                bad.append(("thread-late", f"library thread {role} terminated {(ex[0]['t'] - r0['t_ret']) / 1e6:.2f}s after close() returned"))
    return bad


def mon_c15(spec, run):
    bad = []
    tr = run.trace
    cs = calls(tr)
    rf = [e for e in tr if e["k"] == "read_fault"] or [e for e in tr if e["k"] == "fault_injected" and e.get("exc") == "port-reports-closed"]
    if not rf:
        return bad
    f = rf[0]["seq"]
    closes = [c for c in cs if c["op"][0] == "close"]
    discs = [e for e in tr if e["k"] == "disc_cb"]
    has_cb = spec.get("disconnect_cb", True)
    rexit = first_seq(tr, lambda e: e["k"] == "thread_exit" and e["th"] == "R", 10 ** 12)
    close_before = [c for c in closes if c["call"] < rexit]
    if spec.get("kind") == "api_init":
        # a close() the LIBRARY performs as the clean-up of a failing initialize() is a consequence of the failure, not a planned close by
        # the user: once connect() had returned normally and the fault was read afterwards, only the user's own close() (YncaApi.close() from
        # the scenario or from another thread) can stand for "the user ended the session first"
        conn_ok = [c for c in cs if c["op"][0] == "connect" and c["exc"] is None and c["ret"] is not None and c["ret"] < f]
        if conn_ok:
            user = [e["seq"] for e in tr if e["k"] == "api_call" and e["op"] == "close" and e["seq"] < rexit]
            user += [c["call"] for c in closes if not str(c.get("ctx", "")).startswith("api@") and c["call"] < rexit]
            close_before = user
    if len(discs) > 1:
        bad.append(("twice", f"the disconnect callback was invoked {len(discs)} times"))
    if has_cb and not close_before and len(discs) == 0:
        bad.append(("never", "the transport failed but the disconnect callback was never invoked"))
    if discs:
        d = discs[0]
        if d["t"] - rf[0]["t"] > JOIN_US + SPACING_US + 1000:
            bad.append(("late", f"the disconnect callback came {(d['t'] - rf[0]['t']) / 1e6:.2f}s after the fault was read"))
        sx = [e for e in tr if e["k"] == "thread_exit" and e["th"] == "S"]
        if not sx:
            bad.append(("sender-alive", "the sender thread never terminated after the disconnect"))
        for e in tr:
            if e["seq"] <= d["seq"]:
                continue
            if e["k"] == "write":
                bad.append(("write-after", f"{bytes.fromhex(e['data'])[:60]!r} was written after the disconnect callback"))
                break
            if e["k"] == "msg_cb":
                bad.append(("callback-after", "a message callback was invoked after the disconnect callback"))
                break
        for c in cs:
            if c["call"] > d["seq"] and c["op"][0] in ("put", "get", "raw", "close", "snap", "connected"):
                if c["exc"] is not None:
                    bad.append(("api-raises", f"{c['op'][0]}() on the dead connection raised {c['exc']}"))
                    break
                if c["op"][0] == "connected" and c["res"] is not False and c["ret"] is not None:
                    bad.append(("still-connected", "the connection still reports itself as connected after the disconnect callback"))
                    break
    # once the reader has seen the failure at most the one command the sender had already taken from its queue can still be written
    # (virtual time stands still while the reader is runnable, so without injected stalls nothing else can become due in between)
    if rf[0]["k"] == "read_fault" and not spec.get("stall"):
        # per text: submissions that had returned before the failure was read, minus what was already on the wire by then = the
        # commands that were queued (or held by the sender) at that moment; identical texts submitted later do not count
        old = {}
        for c in cs:
            t_ = text_of(c["op"])
            if t_ is not None and c["ret"] is not None and c["ret"] < f:
                old[t_] = old.get(t_, 0) + 1
        for e in tr:
            if e["k"] == "write" and e["seq"] < f:
                t_ = bytes.fromhex(e["data"])[:-2].decode("utf-8", "replace")
                if old.get(t_, 0) > 0:
                    old[t_] -= 1
        late = []
        for e in tr:
            if e["k"] == "write" and e["seq"] > f:
                t_ = bytes.fromhex(e["data"])[:-2].decode("utf-8", "replace")
                if old.get(t_, 0) > 0:
                    old[t_] -= 1
                    late.append(e)
        if len(late) > 1:
            bad.append(("queued-written", f"{len(late)} commands were written after the reader had seen the transport fail (queued commands must be discarded): "
                                          f"{[bytes.fromhex(e['data'])[:40] for e in late[:4]]}"))
    rx = [e for e in tr if e["k"] == "thread_exit" and e["th"] == "R"]
    if not rx:
        bad.append(("reader-alive", "the reader thread never terminated after the transport failed"))
    # commands still queued when the fault was read are discarded: after the reader finished connection_lost nothing is written
    if rx:
        for e in tr:
            if e["seq"] > rx[0]["seq"] and e["k"] == "write":
                bad.append(("write-after", f"{bytes.fromhex(e['data'])[:60]!r} was written after the connection was lost"))
                break
    return bad


MONITORS.update({"C15": mon_c15, "C16": mon_c16})


# ------------------------------------------------------------------------------------------------ C13
def library_probes(trace):
    """[(lo_seq, hi_seq, write_time)] of keep-alive probes the library generated itself: the sender wrote a line that differs from
    the item it took from its queue.  The flag is set somewhere in (lo_seq, hi_seq)."""
    out = []
    last_get = None
    for e in trace:
        if e["th"] != "S":
            continue
        if e["k"] == "qget":
            last_get = e
        elif e["k"] in ("clock", "write", "write_rejected") and last_get is not None:
            if e["k"] == "clock":
                hi = e["seq"]
                continue_flag = True
            if e["k"] in ("write", "write_rejected"):
                text = bytes.fromhex(e["data"])[:-2].decode("utf-8", "replace")
                if last_get["item"] != text:
                    out.append((last_get["seq"], e["seq"], e["t"]))
                last_get = None
    return out


def mon_c13(spec, run):
    """keep-alive suppression: withheld ⊆ may-withhold, must-withhold ⊆ withheld, everything else delivered"""
    import re
    bad = []
    tr = run.trace
    probes = library_probes(tr)
    lines = lines_by_read(tr)
    watch = spec.get("pre_register", [None])[0]
    if watch is None or any(c["op"][0] == "unreg" and c["op"][1] == watch for c in calls(tr)):
        return bad
    lc = lifecycle(tr)
    end_seq = min([x for x in (lc["close_call"], lc["fault"], lc["thread_exc"]) if x is not None], default=10 ** 12)
    groups = {}
    for i, (rseq, wend, text) in enumerate(lines):
        if wend >= end_seq:
            continue
        groups.setdefault((rseq, wend), []).append(text)
    prev = None          # (rseq, wend) of the previous group
    for (rseq, wend), ls in sorted(groups.items()):
        texts = {}
        for text in ls:
            texts[text] = texts.get(text, 0) + 1
        for text, n in texts.items():
            m = re.fullmatch(r"@([^:]+?):([^=]+?)=(.*)", text, re.S)
            is_mn = bool(m and m.group(1) == "SYS" and m.group(2) == "MODELNAME")
            if m:
                delivered = sum(1 for e in tr if e["k"] == "msg_cb" and e["cb"] == watch and rseq < e["seq"] < wend and (e["su"], e["fn"], e["val"]) == m.groups())
            else:
                st = "UNDEFINED" if text == "@UNDEFINED" else "RESTRICTED" if text == "@RESTRICTED" else "OK"
                delivered = sum(1 for e in tr if e["k"] == "msg_cb" and e["cb"] == watch and rseq < e["seq"] < wend and e["su"] is None and e["status"] == st)
            withheld = n - delivered
            if withheld < 0:
                bad.append(("extra", f"line {text!r} was delivered {delivered} times for {n} arrival(s)"))
                continue
            if not is_mn:
                if withheld > 0 and len(texts) == 1:
                    bad.append(("swallowed", f"line {text!r} (not a SYS:MODELNAME reply) was withheld from the message callbacks"))
                continue
            prev_read = prev[0] if prev else 0
            prev_end = prev[1] if prev else 0
            # may: some probe's flag-setting interval overlaps (read of the previous line, end of this line's processing)
            may = any(lo < wend and hi > prev_read for lo, hi, _ in probes)
            # must: a probe was flagged strictly after the previous line was completely processed and before this line was read,
            #       and this is the only line of its read
            must = len(ls) == 1 and any(lo > prev_end and hi < rseq for lo, hi, _ in probes)
            if withheld > 0 and not may:
                bad.append(("swallowed", f"a MODELNAME reply (read at t={_t(tr, rseq) / 1e6:.6f}s) was withheld although no keep-alive probe was started since the previous line was received"))
            if must and withheld == 0:
                tp = [t for lo, hi, t in probes if lo > prev_end and hi < rseq][-1]
                bad.append(("leaked", f"the reply to the keep-alive probe written at t={tp / 1e6:.6f}s (next line to arrive, nothing in between) was delivered to the message callbacks"))
        prev = (rseq, wend)
    return bad


def _t(trace, seq):
    for e in trace:
        if e["seq"] == seq:
            return e["t"]
    return 0


MONITORS["C13"] = mon_c13


# ------------------------------------------------------------------------------------------------ API level (C06, C07, C14, C17)
import re as _re

_LINE = _re.compile(r"@([^:]+?):([^=]+?)=(.*)", _re.S)
LIB_EXC = {"YncaConnectionError", "YncaConnectionFailed", "YncaInitializationFailedException"}


def api_rets(trace, op):
    return [e for e in trace if e["k"] == "api_ret" and e["op"] == op]


def api_calls(trace, op):
    return [e for e in trace if e["k"] == "api_call" and e["op"] == op]


def dev_lines(trace):
    return [(e["seq"], e["t"], e["line"], e.get("cause")) for e in trace if e["k"] == "dev_line"]


def read_lines(trace):
    """[(seq of the read that completed the line, t, text)]"""
    return [(r, _t(trace, r), text) for r, _w, text in lines_by_read(trace)]


_CONV_KINDS = None


def _conv_kinds():
    global _CONV_KINDS
    if _CONV_KINDS is None:
        from . import core
        _CONV_KINDS = {(c["py"], f["name"]): f["conv"]["k"] for c in core.tables()["classes"] for f in c["fns"]}
    return _CONV_KINDS


def decode_show(py_class, fname, text):
    """typed decoding of `text` for function `fname` of class `py_class`, rendered like scen_api.show; None if undecodable"""
    from .realobj import subunit_class
    from .scen_api import show
    # text functions pass values through unchanged: that much is stated independently of the library's converter (regenerated tables)
    kind = _conv_kinds().get((py_class, fname))
    if kind == "str":
        return show(text)
    cls = subunit_class(py_class)
    for attr in dir(cls):
        a = getattr(cls, attr, None)
        if getattr(a, "name", None) == fname and hasattr(a, "converter"):
            try:
                r = show(a.converter.to_value(text))
                return None if r == "NONE" else r      # a value that decodes to None reads like "never reported"
            except Exception:  # noqa: BLE001
                return None
    return None


def mon_c06(spec, run):
    bad = []
    tr = run.trace
    calls_ = api_calls(tr, "sub_initialize")
    rets = api_rets(tr, "sub_initialize")
    if not calls_:
        return bad
    if len(rets) < len(calls_):
        return [("hang", "subunit.initialize() never returned")]
    inits = spec.get("inits") or [spec]
    for k, (c0, r0) in enumerate(zip(calls_, rets)):
        bad += _mon_c06_one(dict(inits[k], **{"class": inits[k]["class"], "_all_inits": inits}), run, c0, r0, first=(k == 0))
    return bad


def _mon_c06_one(spec, run, c0, r0, first=True):
    bad = []
    tr = run.trace
    sid = spec["expect_id"]
    subs = [c for c in calls(tr) if c0["seq"] < c["call"] < r0["seq"] and c["op"][0] in ("get", "put", "raw")]
    texts = [text_of(c["op"]) for c in subs]
    exp = [f"@{sid}:{q}=?" for q in spec["expect_queries"]]
    sync = "@SYS:VERSION=?"
    if sorted(texts[:-1]) != sorted(exp) or not texts or texts[-1] != sync:
        extra = [t for t in texts if t not in exp + [sync]]
        missing = [t for t in exp if t not in texts]
        dup = sorted({t for t in texts if texts.count(t) > 1})
        bad.append(("queries", f"initialize() of {spec['class']} requested {len(texts)} commands; missing {missing[:4]}, unexpected {extra[:4]}, repeated {dup[:4]}, last {texts[-1:]} (expected each initial query once and {sync} last)"))
    n = len(subs)
    vq_writes = [e for e in tr if e["k"] == "write" and bytes.fromhex(e["data"]) == (sync + "\r\n").encode() and e["seq"] > c0["seq"]]
    vlines = [(s, t, x) for s, t, x in read_lines(tr) if x.startswith("@SYS:VERSION=") and vq_writes and s > vq_writes[0]["seq"]]
    if r0["exc"] is None:
        if not vlines or vlines[0][0] > r0["seq"]:
            # causal signature of the recorded finding: this object existed while ANOTHER initialisation's sync reply was being delivered,
            # and its own initialize() was entered before the reader had finished delivering that line to every message callback
            stale = [(rs, we) for rs, we, x in lines_by_read(tr) if x.startswith("@SYS:VERSION=") and rs < r0["seq"] and c0["seq"] < we
                     and not (vq_writes and rs > vq_writes[0]["seq"])]
            others = len(spec.get("_all_inits", [])) > 1
            kind = "early-return-stale-sync-delivery" if (stale and others and spec.get("same_as") is None) else "early-return"
            bad.append((kind, "initialize() returned before the reply to its SYS:VERSION synchronisation query had been received"
                        + (" (the previous initialisation's sync reply was still being delivered to this object's message callback when initialize() cleared its event)" if kind != "early-return" else "")))
        else:
            barrier = vlines[0][0]
            # every value the device sent before the sync reply is readable; a later report for the same function may already have replaced it
            dl = dev_lines(tr)
            vdev = next((s for s, t, l, c in dl if l.startswith("@SYS:VERSION=") and c == sync), None)
            sent = {}
            for s, t, l, cse in dl:
                m = _LINE.fullmatch(l)
                if m and m.group(1) == sid and s < r0["seq"]:
                    sent.setdefault(m.group(2), []).append((s, m.group(3)))
            attrs = r0.get("attrs", {})
            for fn, vals in sent.items():
                if fn == "VERSION" or (sid == "SYS" and fn == "MODELNAME"):
                    continue            # a SYS:MODELNAME line may legitimately be withheld as a keep-alive reply (C13)
                before = [v for s, v in vals if vdev is not None and s < vdev]
                after = [v for s, v in vals if vdev is None or s >= vdev]
                if not before:
                    continue
                cands = [decode_show(spec["class"], fn, v) for v in [before[-1]] + after]
                if cands[0] is None and fn not in attrs:
                    continue
                if all(c is None for c in cands):
                    continue
                # walk back over undecodable values: the attribute keeps the previous decodable one
                dec_before = [d for d in (decode_show(spec["class"], fn, v) for v in before) if d is not None]
                ok = attrs.get(fn) in [c for c in cands if c is not None] or (cands[0] is None and dec_before and attrs.get(fn) == dec_before[-1])
                if decode_show(spec["class"], fn, before[-1]) is None and not dec_before:
                    ok = ok or fn not in attrs
                if not ok and fn in spec.get("readable", [fn]):
                    bad.append(("stale", f"after initialize() returned, {spec['class']}.{fn} reads {attrs.get(fn)!r}; the device had sent {before[-1]!r} before the sync reply"))
                    break
        if any(e["k"] == "upd_cb" and e["seq"] < r0["seq"] and e.get("obj", 0) == c0.get("idx", 0) and (first or e["seq"] > c0["seq"]) for e in tr) and spec.get("same_as") is None:
            bad.append(("early-callback", "an update callback fired before initialize() had completed"))
    else:
        if r0["exc"] != "YncaInitializationFailedException":
            bad.append(("wrong-exception", f"initialize() raised {r0['exc']}: {r0.get('msg')}"))
        if vlines and vlines[0][1] < r0["t"] - 1000:
            bad.append(("spurious-failure", "initialize() raised although the reply to its synchronisation query had been received in time"))
        idx_ = c0.get("idx", 0)
        inits_ = spec.get("inits") or []
        again = any(r["seq"] > r0["seq"] and r["exc"] is None and (r.get("idx") == idx_ or (r.get("idx", 0) < len(inits_) and inits_[r.get("idx", 0)].get("same_as") == idx_))
                    for r in api_rets(tr, "sub_initialize"))
        late_cb = next((e for e in tr if e["k"] == "upd_cb" and e.get("obj", 0) == idx_ and e["seq"] > c0["seq"]), None)
        if late_cb is not None and not again and spec.get("same_as") is None:
            bad.append(("callback-after-failed-init", f"an update callback fired ({late_cb['fn']}={late_cb['val']}) on a subunit whose initialize() had raised and was never completed"))
        last_sub = max((c["t_ret"] for c in subs if c["t_ret"] is not None), default=c0["t"])
        want = 2_000_000 + n * 500_000
        if abs((r0["t"] - last_sub) - want) > 2000 and not any(e["k"] in ("read_fault", "fault_injected") for e in tr):
            bad.append(("timeout-bound", f"initialize() gave up {(r0['t'] - last_sub) / 1e6:.3f}s after sending {n} commands; the bound is 2 s + 0.5 s per command = {want / 1e6:.1f}s"))
    return bad


def _stage_barriers(tr):
    """seq numbers of the device's SYS:VERSION lines in emission order (stage k ends with the k-th)"""
    return [s for s, t, l, c in dev_lines(tr) if l.startswith("@SYS:VERSION=")]


def mon_c07(spec, run):
    bad = []
    tr = run.trace
    other = next((e for e in tr if e["k"] == "other_api"), None)
    if spec.get("other_device"):
        tr = first_connection_only(tr)          # another YncaApi object talks to another receiver: its traffic is not this object's
    bad = _mon_c07(spec, run, tr)
    if bad or other is None or other.get("exc") is not None:
        return bad
    r_ = api_rets(tr, "initialize")
    if not r_ or r_[0]["exc"] is not None:
        return bad
    state = r_[0]["state"]
    known = set(spec.get("known_ids", []))
    want2 = {"SYS"} | {s for s in spec["other_device"].get("avail", {}) if s in known}
    if set(other["other_state"]) != want2:
        bad.append(("presence-other", f"a second YncaApi object initialised against another receiver has accessors for {sorted(other['other_state'])}; that receiver answered AVAIL for "
                                      f"{sorted(spec['other_device'].get('avail', {}))} (the first object's receiver: {sorted(state)})"))
    elif set(other["state"]) != set(state):
        bad.append(("presence-changed", f"after ANOTHER YncaApi object was initialised against another receiver, the first object's accessors are {sorted(other['state'])}; "
                                        f"when its initialize() returned they were {sorted(state)}"))
    elif spec.get("quiet_first"):
        for s_, o in state.items():
            skip_ = ("VERSION", "MODELNAME") if s_ == "SYS" else ()       # the last sync reply races with the return by design; probe replies
            a1 = {k: v for k, v in o["attrs"].items() if k not in skip_}
            a2 = {k: v for k, v in other["state"][s_]["attrs"].items() if k not in skip_}
            if a1 != a2:
                d = next(k for k in set(a1) | set(a2) if a1.get(k) != a2.get(k))
                bad.append(("values-changed", f"after ANOTHER YncaApi object was initialised against another receiver, {s_}.{d} of the first object reads {other['state'][s_]['attrs'].get(d)!r}; "
                                              f"its own receiver had reported {o['attrs'].get(d)!r} and nothing since"))
                break
    return bad


def _mon_c07(spec, run, tr):
    bad = []
    k2 = next((i for i, e in enumerate(tr) if e["k"] == "attempt2"), None)
    if k2 is not None:
        tr = tr[k2:]          # an earlier, failed attempt on the same object is not judged here
    rets = api_rets(tr, "initialize")
    if not api_calls(tr, "initialize"):
        return bad
    if not rets:
        return [("hang", "YncaApi.initialize() never returned")]
    r0 = rets[0]
    if r0["exc"] is not None:
        if spec.get("healthy"):
            bad.append(("init-failed", f"initialize() raised {r0['exc']}: {r0.get('msg')} against a device that answers every query promptly"))
        return bad
    state = r0["state"]
    dl = dev_lines(tr)
    avail = {}
    first_barrier = next((s for s, t, l, c in dl if l.startswith("@SYS:VERSION=")), 10 ** 12)
    for s, t, l, c in dl:
        m = _LINE.fullmatch(l)
        # the device answered the AVAIL query of the detection stage with a value (the stage ends with the first SYS:VERSION line)
        if m and m.group(2) == "AVAIL" and c is not None and s < first_barrier:
            avail[m.group(1)] = m.group(3)
    known = set(spec.get("known_ids", []))
    want = {"SYS"} | {s for s in avail if s in known}
    if set(state.keys()) != want:
        bad.append(("presence", f"accessors set for {sorted(state.keys())}, the device answered AVAIL for {sorted(avail)} (SYS is always present)"))
        return bad
    for s, o in state.items():
        if o["id"] != s:
            bad.append(("identity", f"accessor {s.lower()} holds an object with id {o['id']}"))
    # a synthetic receiver that gives a value in answer to a GET of the function itself or of the multi-value query carrying it (receiver-side
    # facts frozen in device_facts.json) must have been asked one of the two during start-up
    table = spec.get("device", {}).get("table") or {}
    if table and spec["device"].get("type", "scripted") == "scripted":
        from .gen import device_facts
        facts = device_facts()
        asked = {bytes.fromhex(e["data"])[:-2].decode("utf-8", "replace") for e in tr if e["k"] == "write"}
        for sname in state:
            for fn, fact in facts.get(sname, {}).items():
                if not fact["asked"] or fn not in spec.get("readable", {}).get(sname, []) or (sname == "SYS" and fn in ("MODELNAME", "VERSION")):
                    continue
                keys = [f"@{sname}:{fn}=?"] + ([f"@{sname}:{fact['group']}=?"] if fact["group"] else [])
                gives = [k for k in keys if any(l.startswith(f"@{sname}:{fn}=") for l in (table.get(k) or []))]
                if gives and not any(k in asked for k in gives):
                    bad.append(("never-asked", f"the receiver gives {sname}.{fn} in answer to {gives[0]!r}, but start-up never asked for it: the attribute cannot be populated"))
                    return bad
    barriers = _stage_barriers(tr)
    order = ["SYS"] + sorted(x for x in want if x != "SYS")
    for s, o in state.items():
        stage = 1 + order.index(s)
        bseq = barriers[stage] if stage < len(barriers) else None
        # the object is constructed after the previous stage's synchronisation reply has been processed: what the device sent before that
        # reply (the detection stage's AVAIL answer, say) was handled before the object existed and is not "an answer to its GET"
        prev = barriers[stage - 1] if stage - 1 < len(barriers) else 0
        sent = {}
        for q, t, l, c in dl:
            m = _LINE.fullmatch(l)
            if m and m.group(1) == s and prev < q < r0["seq"] and c is not None and c.endswith("=?"):
                sent.setdefault(m.group(2), []).append((q, m.group(3)))
        # unsolicited / echo lines for the same function may legitimately replace the answer
        other = {}
        for q, t, l, c in dl:
            m = _LINE.fullmatch(l)
            if m and m.group(1) == s and prev < q < r0["seq"]:
                other.setdefault(m.group(2), []).append((q, m.group(3)))
        for fn, vals in sent.items():
            if fn not in spec.get("readable", {}).get(s, [fn]) or fn == "VERSION" or (s == "SYS" and fn == "MODELNAME"):
                continue            # (the sync line itself races with the return by design: "every value sent BEFORE it")
            allv = other.get(fn, vals)
            before = [v for q, v in allv if bseq is None or q < bseq]
            after = [v for q, v in allv if bseq is not None and q >= bseq]
            if not before:
                continue
            cands = {decode_show(o["class"], fn, v) for v in [before[-1]] + after} - {None}
            dec_before = [d for d in (decode_show(o["class"], fn, v) for v in before) if d is not None]
            if not cands and not dec_before:
                continue
            got = o["attrs"].get(fn)
            if got not in cands and not (dec_before and got == dec_before[-1] and decode_show(o["class"], fn, before[-1]) is None):
                bad.append(("populated", f"{s}.{fn} reads {got!r} after initialize(); the device answered {before[-1]!r}"))
                return bad
    return bad


def mon_c14(spec, run):
    bad = []
    tr = run.trace
    if spec.get("other_device"):
        oth = next((e for e in tr if e["k"] == "other_api"), None)
        tr = first_connection_only(tr)
        r_ = api_rets(tr, "initialize")
        if oth is not None and r_ and r_[0]["exc"] is not None and oth["state"]:
            bad.append(("accessors-later", f"after initialize() had failed, another YncaApi object was initialised against another receiver — and the failed object's accessors "
                                           f"{sorted(oth['state'])} are set (the other object has {oth['other_state']})"))
        run = _SubRun(run, tr)
    if not api_calls(tr, "initialize"):
        return bad
    rets = api_rets(tr, "initialize")
    if not rets:
        return [("hang", f"YncaApi.initialize() never returned (fault: {spec.get('fault')}); threads blocked: {run.blocked}")]
    c0, r0 = api_calls(tr, "initialize")[0], rets[0]
    if r0["exc"] is None:
        # normal return: legitimate only if the fault came too late to matter, i.e. every synchronisation query written during
        # initialize() was answered and no link failure was read before it returned
        vq = [e for e in tr if e["k"] == "write" and bytes.fromhex(e["data"]) == b"@SYS:VERSION=?\r\n" and e["seq"] < r0["seq"]]
        vl = [x for x in read_lines(tr) if x[2].startswith("@SYS:VERSION=") and x[0] < r0["seq"]]
        rf = [e for e in tr if e["k"] == "read_fault" and e["seq"] < r0["seq"]]
        if rf and len(vl) < len(vq):
            bad.append(("returned-normally", f"initialize() returned normally although the link failed at t={rf[0]['t'] / 1e6:.3f}s, before it returned, with only {len(vl)} of its {len(vq)} "
                                             f"synchronisation queries answered (accessors set: {sorted(r0['state'])})"))
        elif rf:
            pass        # every step had completed (all synchronisation replies were read) when the failure was read at the same instant: the
            #             failure came after the last step; it is reported through the disconnect callback (C15), not by initialize()
        elif len(vl) < len(vq):
            bad.append(("returned-normally", f"initialize() returned normally although only {len(vl)} of its {len(vq)} synchronisation queries were answered (the device went silent); accessors set: {sorted(r0['state'])}"))
        return bad
    if r0["exc"] not in LIB_EXC:
        bad.append(("wrong-exception", f"initialize() raised {r0['exc']}: {r0.get('msg')}, not one of the library's exceptions"))
    nsub = len([c for c in calls(tr) if c["op"][0] in ("get", "put", "raw") and c["call"] < r0["seq"]])
    bound = nsub * SPACING_US + 2_000_000 + 30 * 500_000 + 2 * JOIN_US + 1_000_000
    if r0["t"] - c0["t"] > bound:
        bad.append(("slow", f"initialize() took {(r0['t'] - c0['t']) / 1e6:.1f}s to fail (bound {bound / 1e6:.1f}s)"))
    if r0["state"]:
        bad.append(("accessors", f"subunit accessors {sorted(r0['state'])} are still set after initialize() failed"))
    opened = any(e["k"] == "open" for e in tr) and not spec.get("open_fails")
    if opened and not any(e["k"] == "port_close" for e in tr):
        bad.append(("port-open", "the transport is still open after initialize() failed"))
    elif opened:
        pc = next(e for e in tr if e["k"] == "port_close")
        if pc["t"] > r0["t"] + 1000:
            bad.append(("port-open", f"the transport was closed only {(pc['t'] - r0['t']) / 1e6:.2f}s after initialize() had failed"))
    for role in ("R", "S"):
        started = any(e["th"] == role for e in tr)
        ex = [e for e in tr if e["k"] == "thread_exit" and e["th"] == role]
        if started and not ex:
            bad.append(("thread-alive", f"library thread {role} keeps running after initialize() failed"))
        elif ex and ex[0]["t"] > r0["t"] + 2 * JOIN_US + 100_000:
            bad.append(("thread-late", f"library thread {role} terminated {(ex[0]['t'] - r0['t']) / 1e6:.2f}s after initialize() failed"))
    return bad


def mon_c17(spec, run):
    bad = []
    tr = run.trace
    k2 = max([i for i, e in enumerate(tr) if e["k"] == "attempt2"], default=None)
    if k2 is not None:
        tr = tr[k2:]          # earlier runs of the check on the same object are not judged
    if not api_calls(tr, "connection_check"):
        return bad
    rets = api_rets(tr, "connection_check")
    if not rets:
        return [("hang", "connection_check() never returned")]
    c0, r0 = api_calls(tr, "connection_check")[0], rets[0]
    dl = dev_lines(tr)
    rl = read_lines(tr)
    # what the device reported before the check ended
    mn_replies = [(s, t, l, c) for s, t, l, c in dl if l.startswith("@SYS:MODELNAME=")]
    zones_reported = [m.group(1) for s, t, l, c in dl for m in [_LINE.fullmatch(l)] if m and m.group(2) == "AVAIL" and m.group(1) in ("MAIN", "ZONE2", "ZONE3", "ZONE4")]
    timeout_us = 1_500_000
    wait_start = max([c["t_ret"] for c in calls(tr) if c["op"][0] == "get" and c["t_ret"] is not None and c["call"] < r0["seq"]], default=c0["t"])
    user_q = [e for e in tr if e["k"] == "write" and bytes.fromhex(e["data"]) == (PROBE + "\r\n").encode()]
    # the reply to the user's own MODELNAME query is the one caused after the third MODELNAME write (two start-up probes first)
    faulty = any(e["k"] in ("read_fault", "fault_injected", "write_fault") for e in tr) or spec.get("open_fails")
    if r0["exc"] is None:
        res = r0["res"]
        model = spec["device"].get("model")
        if res["modelname"] != model:
            bad.append(("modelname", f"connection_check() reported model {res['modelname']!r}, the device says {model!r}"))
        exp = [z for z in ("MAIN", "ZONE2", "ZONE3", "ZONE4") if z in spec["device"].get("avail", {})]
        if sorted(res["zones"]) != sorted(exp) and not faulty and spec["device"].get("silent_after") is None:
            # causal signature of the recorded finding: both start-up probes were answered, the reply to the SECOND probe was delivered
            # to the message callbacks as a MODELNAME message (the flag had been cleared by the first reply), the wait ended
            # there, and the zones reported are exactly those whose AVAIL replies had been read by then
            mcb = [e for e in tr if e["k"] == "msg_cb" and e["su"] == "SYS" and e["fn"] == "MODELNAME" and e["seq"] < r0["seq"]]
            reads_mn = [(s, t) for s, t, x in rl if x.startswith("@SYS:MODELNAME=")]
            avail_read_before = [m.group(1) for s, t, x in rl for m in [_LINE.fullmatch(x)]
                                 if m and m.group(2) == "AVAIL" and mcb and s < mcb[0]["seq"] and m.group(1) in ("MAIN", "ZONE2", "ZONE3", "ZONE4")]
            known_sig = (not spec["device"].get("swallow_first") and len(reads_mn) >= 2 and mcb
                         and reads_mn[1][0] < mcb[0]["seq"] and (len(reads_mn) < 3 or mcb[0]["seq"] < reads_mn[2][0])
                         and sorted(res["zones"]) == sorted(avail_read_before)
                         and reads_mn[1][1] - [t for t, d, _ in writes(tr) if d == (PROBE + "\r\n").encode()][1] >= SPACING_US)
            bad.append(("zones-early-probe-reply" if known_sig else "zones",
                        f"connection_check() reported zones {res['zones']}, the device has {exp} "
                        f"(reply latency {spec['device'].get('latency')}, first probe {'swallowed' if spec['device'].get('swallow_first') else 'answered'})"))
    else:
        if r0["exc"] != "YncaConnectionError" and not (r0["exc"] == "YncaConnectionFailed" and faulty):
            bad.append(("wrong-exception", f"connection_check() raised {r0['exc']}: {r0.get('msg')}"))
        # a model name that arrived well within the time-out must not end in an error
        # the reply to the user's own MODELNAME query is the third one (the second when the device swallowed the first probe)
        own = mn_replies[(2 - int(spec["device"].get("swallow_first", 0))):]
        ok_replies = [t for s, t, l, c in own if t < wait_start + timeout_us - 10_000]
        if ok_replies and not faulty and r0["exc"] == "YncaConnectionError" and spec["device"].get("silent_after") is None:
            bad.append(("spurious-error", "connection_check() raised although a model name reply arrived within the time-out"))
    if r0["exc"] is not None and r0["t"] - wait_start > timeout_us + 2 * JOIN_US + 200_000:
        bad.append(("slow", f"connection_check() took {(r0['t'] - c0['t']) / 1e6:.2f}s"))
    opened = any(e["k"] == "open" for e in tr) and not spec.get("open_fails")
    if opened and not any(e["k"] == "port_close" and e["seq"] < r0["seq"] for e in tr):
        bad.append(("port-open", "the temporary connection was not closed when connection_check() ended"))
    for role in (("R", "S") if k2 is None else ("R2", "S2")):
        started = any(e["th"] == role for e in tr)
        ex = [e for e in tr if e["k"] == "thread_exit" and e["th"] == role]
        if started and not ex:
            bad.append(("thread-alive", f"library thread {role} keeps running after connection_check()"))
        elif ex and ex[0]["t"] > r0["t"]:
            # close() joins the reader, which joins the sender: with callbacks that return at once and writes that do not block both
            # time-outs (2 s each) are never reached, so both threads are gone when connection_check() returns
            bad.append(("thread-left-running", f"library thread {role} was still running when connection_check() returned (it ended {(ex[0]['t'] - r0['t']) / 1000:.1f} ms later)"))
    return [b if len(b) == 2 else (b[0], b[1]) for b in bad]


MONITORS.update({"C06": mon_c06, "C07": mon_c07, "C14": mon_c14, "C17": mon_c17})


# ------------------------------------------------------------------------------------------------ C10 (reader thread / API level)
def mon_c10(spec, run):
    """nothing the device sends takes the connection down: the library's threads survive, the disconnect callback is not invoked, the caller
    sees no exception, and the lines after the hostile ones are still processed (sentinels)"""
    bad = []
    tr = run.trace
    if spec.get("kind") == "api_init":
        close_seq = first_seq(tr, lambda e: e["k"] == "api_call" and e["op"] == "close", 10 ** 12)
        ret = next((e for e in tr if e["k"] == "api_ret" and e["op"] == "initialize"), None)
        if ret is None:
            bad.append(("no-return", "initialize() never returned"))
        elif ret["exc"] is not None:
            bad.append(("raises-in-caller", f"initialize() raised {ret['exc']}: {ret.get('msg')} against a healthy receiver that volunteers lines the library has no use for"))
        st = next((e["state"] for e in tr if e["k"] == "api_state"), None)
        if ret is not None and ret["exc"] is None:
            name, want = spec["sentinel"]
            got = ((st or {}).get("SYS") or {}).get("attrs", {}).get(name)
            if got != want:
                bad.append(("not-processed", f"the line @SYS:{name}=sentinel sent after the hostile lines was not processed (attribute shows {got!r})"))
    else:
        lc = lifecycle(tr)
        close_seq = lc["final_close"] if lc["final_close"] is not None else 10 ** 12
        n = spec.get("sentinels", 0)
        seen = {e["val"] for e in tr if e["k"] == "msg_cb" and e["cb"] == 1 and e["su"] == "MAIN" and e["fn"] == "ZONENAME"}
        for k in range(1, n + 1):
            if f"sentinel{k}" not in seen:
                bad.append(("not-processed", f"the line @MAIN:ZONENAME=sentinel{k} sent after a hostile line was not delivered to the registered callback"))
                break
        for c in calls(tr):
            if c["op"][0] == "connected" and c["res"] is False:
                bad.append(("reports-disconnected", "connected is False although the link never failed"))
            if c["op"][0] in ("put", "get", "raw") and c["exc"] is not None:
                bad.append(("raises-in-caller", f"{c['op'][0]} raised {c['exc']}: {c.get('msg')}"))
    for e in tr:
        if e["seq"] > close_seq:
            break
        if e["k"] == "thread_exc" and e["th"][:1] in ("R", "S"):
            hostile = [d["line"][:80] for d in tr if d["k"] == "dev_line" and d["seq"] < e["seq"] and d.get("cause") is None][-2:]
            bad.append(("thread-died", f"library thread {e['th']} died with {e['exc']}: {e.get('msg')}; last volunteered lines: {hostile}"))
            break
    for e in tr:
        if e["k"] == "disc_cb" and e["seq"] < close_seq:
            bad.append(("disconnect-callback", "the disconnect callback was invoked although the link never failed"))
            break
    return bad


MONITORS["C10"] = mon_c10


def _wire(name):
    def f(spec, run):
        from . import wire
        return getattr(wire, name)(spec, run)
    return f


MONITORS["C03w"] = _wire("mon_c03w")
MONITORS["C05w"] = _wire("mon_c05w")


# ------------------------------------------------------------------------------------------------ C02 (through the reader thread)
def mon_c02_threads(spec, run):
    """what the registered callback is told = the independent reading of the complete lines the device sent, in order, once each —
    however the bytes were split over reads and whatever the library's other threads did in between; an incomplete trailing line is
    never reported (not even when the link fails).  The one exception is C13's: a SYS:MODELNAME line MAY be withheld when the library
    started a keep-alive probe since the previous line was received — only then."""
    import sys
    from .wire import parse_line
    tr = run.trace
    bad = []
    lc = lifecycle(tr)
    end = lc["final_close"] if lc["final_close"] is not None else 10 ** 12
    fault = lc["fault"] if lc["fault"] is not None else 10 ** 12
    probes = library_probes(tr)
    is_mn = lambda m: m[1] == "SYS" and m[2] == "MODELNAME"  # noqa: E731
    L = []                                      # (message, optional, certain)
    prev_read = 0
    for rseq, wend, text in lines_by_read(tr):
        m = parse_line(text)
        may = is_mn(m) and any(lo < wend and hi > prev_read for lo, hi, _ in probes)
        L.append((m, may, wend < min(end, fault)))
        prev_read = rseq
    G = [(e["status"], e["su"], e["fn"], e["val"]) for e in tr if e["k"] == "msg_cb" and e["cb"] == 1]

    def eq(w, g):
        # lines whose syntax the property does not fix must still yield exactly one notification: those match by position only
        return not (w[1] is not None or w[0] != "OK") or tuple(w) == tuple(g)

    n, k = len(L), len(G)
    # ok[i][j]: the lines from i on explain the notifications from j on
    ok = [[False] * (k + 2) for _ in range(n + 2)]
    ok[n][k] = True
    for i in range(n - 1, -1, -1):
        w, opt, certain = L[i]
        for j in range(k, -1, -1):
            v = False
            if j < k and eq(w, G[j]) and ok[i + 1][j + 1]:
                v = True
            elif (opt or not certain) and ok[i + 1][j]:
                v = True
            ok[i][j] = v
    if ok[0][0]:
        return bad
    # diagnosis: the first point at which the two sequences cannot be reconciled
    i = j = 0
    while i < n and j < k and ok[i][j]:
        w, opt, certain = L[i]
        if eq(w, G[j]) and ok[i + 1][j + 1]:
            i, j = i + 1, j + 1
        else:
            i += 1
    req = [w for w, opt, certain in L if not opt and certain]
    if k > n:
        bad.append(("count", f"{k} notifications for {n} complete lines; the extra one: {G[n]} (an incomplete line must not be reported)"))
    elif k < len(req):
        missing = next((w for w in req if not any(eq(w, g) for g in G)), req[min(k, len(req) - 1)])
        bad.append(("count", f"{k} notifications for {len(req)} complete lines that must be reported; missing: {missing}"))
    else:
        w = L[min(i, n - 1)][0] if n else None
        g = G[min(j, k - 1)] if k else None
        bad.append(("parse", f"a line that reads {w} was reported as {g}" if (w is not None and g is not None) else f"lines {[x[0] for x in L][:6]} reported as {G[:6]}"))
    return bad


MONITORS["C02t"] = mon_c02_threads


def first_connection_only(trace):
    """events of the first connection of a two-connection scenario (the second one's threads are R2 / S2, its port and device are tagged)"""
    out = []
    for e in trace:
        if e.get("dev") == 2 or e["th"] in ("R2", "S2") or e["k"].endswith("2"):
            continue
        if e["k"] in ("call", "ret") and isinstance(e.get("op"), list) and e["op"] and str(e["op"][0]).endswith("2"):
            continue
        out.append(e)
    return out


def mon_c13_two(spec, run):
    return mon_c13(spec, _SubRun(run, first_connection_only(run.trace)))


MONITORS["C13two"] = mon_c13_two


def mon_c02_two(spec, run):
    """a second connection alive in the same process: what the FIRST connection's callback is told — on whatever thread — is the reading of
    the first connection's own stream, once each (the other connection's lines are none of its business)"""
    keep = {id(e) for e in first_connection_only(run.trace)}
    tr = [e for e in run.trace if id(e) in keep or (e["k"] in ("msg_cb", "msg_cb_ret") and "cb" in e and e.get("dev") != 2)]
    return mon_c02_threads(spec, _SubRun(run, tr))


MONITORS["C02two"] = mon_c02_two


def mon_c03_late(spec, run):
    """subunit objects constructed on a live connection while lines were being delivered: what the device reports afterwards for their subunit
    and functions is what their attributes read"""
    bad = []
    tr = run.trace
    lc = next((e for e in tr if e["k"] == "late_constructed"), None)
    if lc is None:
        return bad
    for st in [e for e in tr if e["k"] == "late_state"]:
        it = spec["late"]["inits"][st["idx"]]
        sid, readable = it["expect_id"], set(it["readable"])
        last = {}
        for rseq, wend, text in lines_by_read(tr):
            m = _LINE.fullmatch(text)
            # lines read well after the construction and completely handled before the attributes were looked at
            if m and m.group(1) == sid and m.group(2) in readable and _t(tr, rseq) > lc["t"] + 300_000 and wend < st["seq"]:
                d = decode_show(it["class"], m.group(2), m.group(3))
                if d is not None:
                    last[m.group(2)] = (d, text)
                else:
                    last.pop(m.group(2), None)
        for fn, (d, text) in last.items():
            if st["attrs"].get(fn) != d:
                bad.append(("late-object", f"a {it['class']} object constructed on the live connection (while lines were being delivered) reads {fn}={st['attrs'].get(fn)!r}; "
                                           f"the device reported {text!r} {(_t(tr, st['seq']) - lc['t']) / 1e6:.1f}s after its construction at the latest"))
                return bad
    return bad


MONITORS["C03late"] = mon_c03_late


def mon_c09_updates(spec, run):
    """update callbacks of real subunit objects on a live connection (reader thread + the thread that initialises): the invocations of an
    object's callback are, in order, reports that arrived for its subunit and modelled functions — each at most once, none invented, none
    out of arrival order — and every report that arrived after initialize() had returned is among them"""
    bad = []
    tr = run.trace
    inits = spec.get("inits") or [spec]
    rets = api_rets(tr, "sub_initialize")
    lines = lines_by_read(tr)
    for k, it in enumerate(inits):
        if it.get("same_as") is not None:
            continue
        mine = [r for r in rets if r["idx"] == k or (inits[r["idx"]].get("same_as") == k if r["idx"] < len(inits) else False)]
        if not mine or mine[-1]["exc"] is not None:
            continue
        ret = mine[-1]
        sid, readable = it.get("expect_id"), set(it.get("readable") or [])
        t_end = ret["t"] + int((spec.get("settle", 1.0) - 0.25) * 1e6)
        L = []
        for rseq, wend, text in lines:
            m = _LINE.fullmatch(text)
            if not m or m.group(1) != sid or m.group(2) not in readable:
                continue
            d = decode_show(it["class"], m.group(2), m.group(3))
            required = d is not None and rseq > ret["seq"] and _t(tr, rseq) < t_end
            L.append((m.group(2), d, required, text))
        G = [(e["fn"], e["val"]) for e in tr if e["k"] == "upd_cb" and e.get("obj") == k]
        stale = next((e for e in tr if e["k"] == "upd_cb" and e.get("obj") == k and "cache" in e and e["cache"] != e["val"]), None)
        if stale is not None:
            bad.append(("cache-first", f"{it['class']}: the update callback was invoked with {stale['fn']}={stale['val']} while the attribute read {stale['cache']} "
                                       f"(a callback runs after the cache reflects the value it announces)"))
            continue
        n, g = len(L), len(G)
        ok = [[False] * (g + 2) for _ in range(n + 2)]
        ok[n][g] = True
        for i in range(n - 1, -1, -1):
            fn, d, req, _ = L[i]
            for j in range(g, -1, -1):
                v = False
                if j < g and G[j][0] == fn and (d is None or G[j][1] == d) and ok[i + 1][j + 1]:
                    v = True
                elif not req and ok[i + 1][j]:
                    v = True
                ok[i][j] = v
        if not ok[0][0]:
            bad.append(("update-callbacks", f"{it['class']}: the update callback was invoked with {G[:8]} for the reports {[(a, b, 'after initialize()' if c else 'during/before') for a, b, c, _ in L][:8]} "
                                            f"(arrival order): not the arrived values once each in arrival order, with all those that arrived after initialize() had returned"))
    return bad


MONITORS["C09u"] = mon_c09_updates


def second_session(trace):
    """the part of a trace that belongs to the second connect() on the same connection object, presented like a first session (its threads
    R2 / S2 renamed to R / S)"""
    opens = [e["seq"] for e in trace if e["k"] == "open"]
    if len(opens) < 2:
        return None
    cut = opens[1]
    # the connect call that led to the second open
    start = max([e["seq"] for e in trace if e["k"] == "call" and e["op"][0] == "reconnect" and e["seq"] < cut], default=cut)
    out = []
    for e in trace:
        if e["seq"] < start:
            continue
        if e["th"] in ("R", "S"):
            continue                      # stragglers of the first session
        e2 = dict(e)
        if e2["th"] in ("R2", "S2"):
            e2["th"] = e2["th"][0]
        if e2["k"] in ("call", "ret") and e2["op"][0] == "reconnect":
            e2["op"] = ["connect"]
        out.append(e2)
    return out


def _second(name):
    def mon(spec, run):
        tr = second_session(run.trace)
        if tr is None:
            return []
        return [(k, "second session on the same connection object: " + w) for k, w in MONITORS[name](spec, _SubRun(run, tr))]
    return mon


for _n in ("C01", "C08", "C12", "C13", "C15", "C16"):
    MONITORS[_n + "re"] = _second(_n)


def mon_c20_re(spec, run):
    """the log of the second session (other size) judged like a first session's log"""
    tr = second_session(run.trace)
    if tr is None:
        return []
    spec2 = dict(spec, log_size=spec.get("log_size2", spec.get("log_size", 0)))
    return [(k, "second session on the same connection object: " + w) for k, w in MONITORS["C20"](spec2, _SubRun(run, tr))]


MONITORS["C20re"] = mon_c20_re


def mon_c20_api(spec, run):
    """the log as handed out by the YncaApi object: judged against the wire of the connection that is up when it is requested (the object
    may have been used for connection_check() before — those were connections of their own)"""
    tr = run.trace
    opens = [e["seq"] for e in tr if e["k"] == "open"]
    if not opens:
        return []
    cur = [e for e in tr if e["seq"] >= opens[-1]]
    return [(k, "log requested from the YncaApi object: " + w) for k, w in MONITORS["C20"](spec, _SubRun(run, cur))]


MONITORS["C20api"] = mon_c20_api


def mon_c17_two(spec, run):
    """two checks of two receivers at the same time: the first one judged as usual on its own events; the second one's result must be its own
    receiver's model name and zones (replies are fast on both)"""
    tr = run.trace
    own = [e for e in first_connection_only(tr) if e["th"] not in ("U7",) and not (e["th"] in ("R2", "S2"))]
    # library threads are numbered in start order: whichever check starts its reader first owns R/S — judge by tags instead
    bad = []
    r1 = next((e for e in tr if e["k"] == "api_ret" and e["op"] == "connection_check"), None)
    r2 = next((e for e in tr if e["k"] == "api_ret2"), None)
    for name, r, dev, zones in (("first", r1, spec["device"], spec["zones"]), ("second", r2, spec["other_device"], spec["other_zones"])):
        if r is None:
            bad.append(("hang", f"the {name} connection_check() never returned"))
            continue
        if r["exc"] is not None:
            bad.append(("raised", f"the {name} connection_check() raised {r['exc']} although its receiver answers at once"))
            continue
        if r["res"]["modelname"] != dev["model"]:
            bad.append(("modelname", f"the {name} connection_check() reported model {r['res']['modelname']!r}; its receiver says {dev['model']!r} (another check ran at the same time against {spec['other_device']['model'] if name == 'first' else spec['device']['model']!r})"))
        if sorted(r["res"]["zones"]) != sorted(zones):
            bad.append(("zones", f"the {name} connection_check() reported zones {r['res']['zones']}; its receiver has {zones}"))
    return bad


MONITORS["C17two"] = mon_c17_two


def _two(name):
    def mon(spec, run):
        return MONITORS[name](spec, _SubRun(run, first_connection_only(run.trace)))
    return mon


def mon_c01_api_two(spec, run):
    """typed writes of the first YncaApi object while another one is alive: judged on the first object's own wire"""
    bad = []
    gone = next((e for e in run.trace if e["k"] == "accessor_gone"), None)
    if gone is not None:
        bad.append(("not-submittable", f"the accessor {gone['accessor']} of the first YncaApi object is None although its initialize() returned with it set and its close() "
                                       f"has not been called (another YncaApi object was initialised meanwhile): the write cannot even be submitted"))
    return bad + MONITORS["C01"](spec, _SubRun(run, first_connection_only(run.trace)))


MONITORS["C01api2"] = mon_c01_api_two


for _n in ("C01", "C08", "C12", "C15", "C20"):
    MONITORS[_n + "two"] = _two(_n)


class _SubRun:
    def __init__(self, run, trace):
        self.trace, self.results, self.now, self.status = trace, run.results, run.now, run.status


def mon_c02_reconnect(spec, run):
    """connect() again on the same YncaConnection object: each link is a byte stream of its own — what the callback is told while the
    second link is up is the independent reading of the second stream alone (a partial line left over from the first link is never
    reported and never glued in front of the new stream)"""
    tr = run.trace
    opens = [e["seq"] for e in tr if e["k"] == "open"]
    if len(opens) < 2:
        return mon_c02_threads(spec, run)
    cut = opens[1]
    bad = []
    second = [dict(e, th=e["th"][0]) if e["th"] in ("R2", "S2") else e for e in tr if e["seq"] >= cut and e["th"] not in ("R", "S")]
    for name, seg in (("first", [e for e in tr if e["seq"] < cut]), ("second", second)):
        if name == "first":
            # a planned close() ends the first observation: lines read but not yet handled at that moment may legitimately stay unreported
            cc = [e["seq"] for e in seg if e["k"] == "call" and e["op"][0] == "close"]
            if cc:
                seg = [dict(e, ctx="U0-final") if (e["k"] in ("call", "ret") and e["op"][0] == "close") else e for e in seg]
        for k, w in mon_c02_threads(spec, _SubRun(run, seg)):
            bad.append((k, f"{name} link of the same connection object: {w}"))
    return bad


MONITORS["C02r"] = mon_c02_reconnect
MONITORS["C04r"] = _wire("mon_c04_race")
MONITORS["C11r"] = _wire("mon_c11_race")


def mon_l5run(spec, run):
    """not a property monitor: validates the run against the L5 dialogue model (harness/dialogue.py); the verdict travels in the result"""
    from . import dialogue
    run.results["l5"] = dialogue.check(spec, run)
    return []


MONITORS["L5run"] = mon_l5run


def mon_ccrun(spec, run):
    """not a property monitor: executes the L5c model of connection_check() on the run (harness/conncheck.py); the verdict travels in the result"""
    from . import conncheck
    run.results["cc"] = conncheck.check(spec, run, getattr(run, "preempt_budget", 0))
    return []


MONITORS["CCrun"] = mon_ccrun


def mon_apirun(spec, run):
    """not a property monitor: executes the L7 model of the YncaApi program on the run (harness/apimodel.py); the verdict travels in the result"""
    from . import apimodel
    run.results["api"] = apimodel.check(spec, run, getattr(run, "preempt_budget", 0))
    return []


MONITORS["APIrun"] = mon_apirun


def mon_c16_two(spec, run):
    """close() of a second connection from inside a callback of the first one: it returns without raising, and once it has returned nothing
    more is written to that connection's port, the port is closed and its threads (R2, S2) terminate"""
    bad = []
    tr = run.trace
    cs = [c for c in calls(tr) if c["op"][0] == "close2" and not str(c["ctx"]).endswith("-final")]
    if not cs:
        return bad
    for c in cs:
        if c["ret"] is None:
            return [("hang", "close() of the second connection never returned")]
        if c["exc"] is not None:
            return [("raised", f"close() of the second connection raised {c['exc']}: {c.get('msg')}")]
        if c["t_ret"] - c["t_call"] > 2 * JOIN_US + 100_000:
            bad.append(("slow", f"close() of the second connection took {(c['t_ret'] - c['t_call']) / 1e6:.2f}s"))
    r0 = min(cs, key=lambda c: c["ret"])
    for e in tr:
        if e["seq"] > r0["ret"] and e["k"] == "write" and e.get("port") == 2:
            bad.append(("write-after", f"{bytes.fromhex(e['data'])[:60]!r} was written to the second connection's port after its close() had returned"))
            break
        if e["seq"] > r0["ret"] and e["k"] in ("msg_cb2", "disc_cb2"):
            bad.append(("callback-after", "a callback of the second connection was started after its close() had returned"))
            break
    if not any(e["k"] == "port_close" and e.get("port") == 2 and e["seq"] < r0["ret"] for e in tr):
        bad.append(("port-open", "the second connection's port is still open after its close() returned"))
    for role in ("R2", "S2"):
        ex = [e for e in tr if e["k"] == "thread_exit" and e["th"] == role]
        if any(e["th"] == role for e in tr) and not ex:
            bad.append(("thread-alive", f"thread {role} of the second connection never terminated after its close()"))
        elif ex and ex[0]["t"] > r0["t_ret"] + 2 * JOIN_US + 100_000:
            bad.append(("thread-late", f"thread {role} of the second connection terminated {(ex[0]['t'] - r0['t_ret']) / 1e6:.2f}s after its close() returned"))
    return bad


MONITORS["C16two"] = mon_c16_two
