"""C08 — consecutive transmissions are at least 100 ms apart
Lean: Props/C08.lean (L4 model).  Tie: B2 — bursts from 1..4 threads, idle gaps around the keep-alive interval so probes interleave; monitor + trace acceptor."""
from __future__ import annotations

import json

from .. import b2check, core, gen

MONS = ["C08"]


def jobs(rng, thorough):
    n = 40000 if thorough else 400
    out = []
    for _ in range(n):
        out.append((gen.conn_traffic(rng) if rng.random() < 0.7 else gen.conn_lifecycle(rng), rng.randrange(10 ** 9), rng.choice([0, 0, 3, 6])))
    return out


def jobs_slow(rng, thorough):
    """second pass, judged by the monitor only: some writes block inside the driver (write duration is not part of the L4 model)"""
    n = 6000 if thorough else 120
    out = [(gen.conn_slow_writes(rng), rng.randrange(10 ** 9), rng.choice([0, 0, 3])) for _ in range(n)]
    # one write fails after the driver accepted its bytes: whatever the sender does next, the following line is still 100 ms away
    out += [(gen.conn_late_write_fault(rng), rng.randrange(10 ** 9), 0) for _ in range(n // 2)]
    return out


def jobs_stall(rng, thorough):
    """third pass, monitor only: the sender is held back for tens of milliseconds at arbitrary statements of its loop (a slow logging handler, a
    busy machine); whatever it does with clocks, two writes must still be 100 ms apart"""
    out = []
    for _ in range(6000 if thorough else 150):
        spec = gen.conn_traffic(rng, max_threads=2, max_cmds=14, long_idle=rng.random() < 0.3)
        spec["stall"] = {"prob": 0.7, "us": [5000, 30000, 70000, 150000]}
        spec["hot"] = "_send_handler"
        spec["hot_budget"] = rng.choice([10, 30, 60])
        out.append((spec, rng.randrange(10 ** 9), rng.choice([0, 3])))
    return out


def run(ctx: core.Ctx):
    ctx.lean_stage(extra_props=("Tie",))
    b2check.run_b2(ctx, jobs, ["C08"], label="traffic + lifecycle scenarios")
    b2check.run_b2(ctx, jobs_slow, MONS, label="slow (blocking) writes, monitor only", accept=False)
    b2check.run_b2(ctx, jobs_stall, MONS, label="sender held back at arbitrary statements, monitor only", accept=False)
    ctx.info["rule"] = ("burst patterns from 1..4 callers, idle gaps so that probes interleave, also sessions with faults and close(); each under a seeded schedule with extra line-level preemptions; a case = one schedule; "
                        "non-trivial = distinct (spec, seed)")
    return ctx.finish()


def replay(ctx, path):
    return b2check.replay_b2(json.load(open(path))["replay"], ["C08"])
