"""C08 — consecutive transmissions are at least 100 ms apart
Lean: Props/C08.lean (L4 model).  Tie: B2 — bursts from 1..4 threads, idle gaps around the keep-alive interval so probes interleave; monitor + trace acceptor."""
from __future__ import annotations

import json

from .. import b2check, core, gen

MONS = ["C08"]


def jobs(rng, thorough):
    n = 40000 if thorough else 400
    out = []
    for _ in range(n):
        out.append((gen.conn_traffic(rng) if rng.random() < 0.7 else gen.conn_lifecycle(rng), rng.randrange(10 ** 9), rng.choice([0, 0, 3, 6])))
    return out


def jobs_slow(rng, thorough):
    """second pass, judged by the monitor only: some writes block inside the driver (write duration is not part of the L4 model)"""
    n = 6000 if thorough else 120
    out = [(gen.conn_slow_writes(rng), rng.randrange(10 ** 9), rng.choice([0, 0, 3])) for _ in range(n)]
    # one write fails after the driver accepted its bytes: whatever the sender does next, the following line is still 100 ms away
    out += [(gen.conn_late_write_fault(rng), rng.randrange(10 ** 9), 0) for _ in range(n // 2)]
    return out


def jobs_stall(rng, thorough):
    """third pass, monitor only: the sender is held back for tens of milliseconds at arbitrary statements of its loop (a slow logging handler, a
    busy machine); whatever it does with clocks, two writes must still be 100 ms apart"""
    out = []
    for _ in range(6000 if thorough else 150):
        spec = gen.conn_traffic(rng, max_threads=2, max_cmds=14, long_idle=rng.random() < 0.3)
        spec["stall"] = {"prob": 0.7, "us": [5000, 30000, 70000, 150000]}
        spec["hot"] = "_send_handler"
        spec["hot_budget"] = rng.choice([10, 30, 60])
        out.append((spec, rng.randrange(10 ** 9), rng.choice([0, 3])))
    return out


def realtime_pass(ctx):
    """real threads, real time.sleep / time.monotonic, no scheduler and no shims (fresh interpreter): lower bounds on the gaps hold in real
    time too, so this cannot flake; it does not depend on which blocking primitives the library uses"""
    import os
    import subprocess
    specs = [{"threads": 3, "cmds": 4}] if ctx.tier != "thorough" else [{"threads": t, "cmds": c} for t, c in ((1, 12), (2, 10), (3, 8), (4, 6), (4, 10))]
    procs = [(sp, subprocess.Popen([core.PY, "-m", "harness.realtime", json.dumps(sp)], cwd=core.VERIF, stdout=subprocess.PIPE, stderr=subprocess.PIPE, text=True,
                                   env={**os.environ, "YNCA_REPO": core.REPO})) for sp in specs]
    for sp, pr in procs:
        try:
            out, err = pr.communicate(timeout=120)
        except subprocess.TimeoutExpired:
            pr.kill()
            raise RuntimeError("real-time run did not finish")
        if pr.returncode != 0:
            raise RuntimeError("real-time run failed (harness problem, not a verdict): " + err[-600:])
        r = json.loads(out.strip().splitlines()[-1])
        ctx.case(("realtime", json.dumps(sp, sort_keys=True)))
        ctx.count("realtime_runs")
        ctx.count("realtime_writes", r["writes"])
        ctx.cov["realtime_min_gap_ms"] = min(ctx.cov.get("realtime_min_gap_ms", 10 ** 9), r["min_gap_ms"] if r["min_gap_ms"] is not None else 10 ** 9)
        if r["min_gap_ms"] is not None and r["min_gap_ms"] < 100.0 - 0.5:
            ctx.violation(f"[realtime] two lines were written {r['min_gap_ms']} ms apart (real threads, time.monotonic at the entry of write())",
                          {"path": "realtime", "spec": sp, "gaps_ms": r["gaps_ms"], "texts": r["texts"]}, {"kind": "realtime-gap"})
        if r["writes"] < r["expected"]:
            ctx.violation(f"[realtime] only {r['writes']} of {r['expected']} lines were written", {"path": "realtime", "spec": sp, "texts": r["texts"]}, {"kind": "realtime-missing"})


def run(ctx: core.Ctx):
    ctx.lean_stage(extra_props=("Tie",))
    realtime_pass(ctx)
    b2check.run_b2(ctx, jobs, ["C08"], label="traffic + lifecycle scenarios")
    # exhaustive within a bound: every schedule up to 3 (thorough: 5) deviations from the canonical one, on small scenarios
    _small = gen.small_scenarios()
    b2check.run_systematic(ctx, [_small[n] for n in ['traffic', 'two-callers', 'concurrent-close', 'own-modelname']], ["C08"], depth=5 if ctx.tier == "thorough" else 3,
                           label="traffic, two-callers, concurrent-close, own-modelname", max_runs=60000 if ctx.tier == "thorough" else 6000)
    b2check.run_b2(ctx, jobs_slow, MONS, label="slow (blocking) writes, monitor only", accept=False)
    b2check.run_b2(ctx, lambda rng, th: [(gen.conn_second_session(rng, "close"), rng.randrange(10 ** 9), rng.choice([0, 3])) for _ in range(3000 if th else 80)], ["C08re"],
                   label="connect() again on the same object after close() / a lost link: the second session (monitor only)", accept=False)
    b2check.run_b2(ctx, lambda rng, th: [(gen.with_second(rng, gen.conn_traffic(rng, max_threads=2, max_cmds=16)), rng.randrange(10 ** 9), rng.choice([0, 3])) for _ in range(4000 if th else 100)], ["C08two"],
                   label="a second connection with its own traffic alive in the same process (monitor only, first connection judged)", accept=False)
    b2check.run_b2(ctx, jobs_stall, MONS, label="sender held back at arbitrary statements, monitor only", accept=False)
    ctx.info["rule"] = ("burst patterns from 1..4 callers, idle gaps so that probes interleave, also sessions with faults and close(); each under a seeded schedule with extra line-level preemptions; a case = one schedule; "
                        "non-trivial = distinct (spec, seed)")
    return ctx.finish()


def replay(ctx, path):
    rp = json.load(open(path))["replay"]
    if rp.get("path") == "realtime":
        import subprocess
        out = subprocess.run([core.PY, "-m", "harness.realtime", json.dumps(rp["spec"])], cwd=core.VERIF, capture_output=True, text=True).stdout
        print(out)
        r = json.loads(out.strip().splitlines()[-1])
        return 1 if (r["min_gap_ms"] is not None and r["min_gap_ms"] < 99.5) or r["writes"] < r["expected"] else 0
    return b2check.replay_b2(rp, ["C08"])
