"""C17 — connection_check() reports model and exactly the zones present, then cleans up
Lean: Props/C17.lean.  Tie: B2 — 16 zone subsets x reply latencies around the command spacing and the time-out x first probe swallowed or not x fault points; monitor + L4 trace acceptor on the connection-level events of the same runs."""
from __future__ import annotations

import json

from .. import b2check, core, gen

RECS = ["R-N500", "RX-A2A", "RX-A6A", "RX-A810", "RX-V1067", "RX-V2067", "RX-V473", "RX-V475", "RX-V500D", "RX-V583", "RX-V685", "TSR-700"]


def jobs(rng, thorough):
    T = core.tables()
    out = []
    for _ in range(50000 if thorough else 500):
        out.append((gen.conn_check(rng, drops=True), rng.randrange(10 ** 9), rng.choice([0, 0, 3])))
    return out


def run(ctx: core.Ctx):
    ctx.lean_stage(extra_props=("C17x", "C17c", "Tie"))
    js = []
    results = b2check.run_b2(ctx, lambda rng, th: js.extend(jobs(rng, th)) or js, ["C17", "CCrun"], label="connection check")
    b2check.cc_fold(ctx, results, js)
    b2check.run_b2(ctx, lambda rng, th: [(gen.conn_check(rng, drops=True, repeat=True), rng.randrange(10 ** 9), 0) for _ in range(8000 if th else 150)],
                   ["C17"], label="connection_check() run twice on the same YncaApi object (the second run is judged), monitor only", accept=False)
    b2check.run_b2(ctx, lambda rng, th: [(gen.conn_check_two(rng), rng.randrange(10 ** 9), rng.choice([0, 0, 3])) for _ in range(6000 if th else 120)],
                   ["C17two"], label="two YncaApi objects checking two receivers at the same time (monitor only)", accept=False)
    ctx.info["rule"] = ("zone subsets x latencies {0, 60, 99, 100, 101, 150, 400 ms, 1.2..3 s} x first probe swallowed or not x silent / EOF / cannot open / link drop at or right after opening the port and in mid-check; each under a seeded schedule, some with extra line-level preemptions; a case = one schedule; non-trivial = distinct (spec, seed)")
    return ctx.finish()


def replay(ctx, path):
    return b2check.replay_b2(json.load(open(path))["replay"], ["C17"])
