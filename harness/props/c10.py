"""C10 — nothing the device sends can take the connection down.

Lean: Props/C10.lean (undecodable value keeps the previous one, type safety of the cache after any history;
totality of framing / parsing / message handling is by construction of the models).
Tie: B1 — (a) typed attack on real subunit objects vs `ynca_model subunit`; (b) byte-level attack through the real
`YncaProtocol.data_received` -> real `YncaConnection` callbacks -> real subunit objects, vs `ynca_model frame`;
(c) the same lines through the real reader thread under the deterministic scheduler (harness/sched), where a
dying reader shows up as a lost connection / disconnect callback.
Monitor: after every attack line a sentinel line for another function must still be delivered and cached; no
exception may escape the receive path; the attacked attribute is its previous value or None and of its type."""
from __future__ import annotations

import enum
import json
import os

from .. import core
from ..l3 import L3Session, show_real
from .c03 import value_for

UNDECODABLE = ["Auto Down", "Auto Up", "", "abc", "--", "1.5.2", "12a", "0x1F", " ", "None", "1,5", "+-1", "@UNDEFINED", "=", "é", "inf", "-inf", "Infinity", "nan", "1e999", "-1e999", "1e5", "９", "1_0", "0b1"]  # texts Python accepts through exotic syntax (e.g. full-width digits) are C04's informational stream


def type_ok(conv, v):
    from ynca import converters as C
    if v is None:
        return True
    if isinstance(conv, C.EnumConverter):
        return isinstance(v, conv.datatype)
    if isinstance(conv, C.StrConverter):
        return type(v) is str
    if isinstance(conv, (C.IntConverter, C.IntOrNoneConverter)):
        return type(v) is int
    if isinstance(conv, C.FloatConverter):
        return type(v) is float
    if isinstance(conv, C.MultiConverter):
        return any(type_ok(c, v) for c in conv._converters)
    return True


def typed_attack(ctx, T, rng, thorough):
    disagreements = []
    for c in T["classes"]:
        S = L3Session()
        idx = S.new(c["py"])
        obj = S.objs[idx]
        if rng.random() < 0.7:
            S.initialize(idx)
        S.reg(idx, 1)
        sentinel_f = next((f for f in c["fns"] if f["get"] and f["conv"]["k"] == "str"), None) or next(f for f in c["fns"] if f["get"])
        n = 0
        for f in c["fns"]:
            if not f["get"]:
                continue
            conv = getattr(type(obj), f["attr"]).converter
            texts = list(UNDECODABLE) if thorough else rng.sample(UNDECODABLE, 7) + ["Auto Down", ""]
            # texts on which the model is silent (exotic numeric syntax somewhere in the converter chain) are not part of the binding stream
            verdicts = core.run_driver("decode", [f"{c['py']} {f['name']} {core.hx(t)}" for t in texts])
            for t, vd in zip(texts, verdicts):
                if vd == "U":
                    ctx.count("attack:model-unspecified(skipped)")
            texts = [t for t, vd in zip(texts, verdicts) if vd != "U"]
            if rng.random() < 0.7:
                S.msg("OK", c["id"], f["name"], value_for(rng, T, f, undecodable_ok=False))
            for t in texts:
                n += 1
                before = getattr(obj, f["attr"])
                r = S.msg("OK", c["id"], f["name"], t)
                ctx.case((c["py"], f["name"], t))
                try:
                    conv.to_value(t)
                    decodable = True
                except Exception:  # noqa: BLE001
                    decodable = False
                ctx.count("attack:decodable" if decodable else "attack:undecodable")
                sv = f"s{n}" if sentinel_f["conv"]["k"] == "str" else value_for(rng, T, sentinel_f, undecodable_ok=False)
                r2 = S.msg("OK", c["id"], sentinel_f["name"], sv)
                after = getattr(obj, f["attr"])
                what = None
                if r.startswith("EXC"):
                    what = f"the message handler raised {r[4:]} (in the reader thread this ends the connection)"
                elif r2.startswith("EXC"):
                    what = f"the line after the attack raised {r2[4:]}"
                elif sentinel_f["conv"]["k"] == "str" and getattr(obj, sentinel_f["attr"]) != sv:
                    what = "the line after the attack was not processed (sentinel not cached)"
                elif not decodable and f is not sentinel_f and not (after is None or (after == before and type(after) is type(before))):
                    what = f"attribute holds {after!r} after an undecodable value (previous {before!r})"
                elif not type_ok(conv, after):
                    what = f"attribute holds {after!r}, a value of the wrong type"
                if what:
                    ctx.violation(f"@{c['id']}:{f['name']}={t!r} -> {what}",
                                  {"class": c["py"], "subunit": c["id"], "function": f["name"], "text": t, "real": r, "path": "typed"},
                                  {"kind": what.split("(")[0].strip()[:30], "path": "typed"})
        S.dump()
        model = S.finish()
        for i, (op, real, m) in enumerate(zip(S.ops, S.real, model)):
            same = (sorted(real.split()) == sorted(m.split())) if op.startswith("msg ") else real == m
            if not same:
                disagreements.append({"class": c["py"], "op_index": i, "op": op, "meta": str(S.meta[i]), "real": real[:200], "model": m[:200]})
                break
    return disagreements


def byte_attack(ctx, T, rng, thorough):
    """real YncaProtocol.data_received -> YncaConnection callbacks -> subunits, no threads"""
    from ynca.connection import YncaConnection, YncaProtocol
    from ..realobj import subunit_class

    conn = YncaConnection("unused")
    objs = {c["id"]: subunit_class(c["py"])(conn) for c in T["classes"] if c["id"] in ("MAIN", "SYS", "TUN", "DAB")}
    got = []
    conn.register_message_callback(lambda *a: got.append(a))
    proto = YncaProtocol(conn._call_registered_message_callbacks, None, 5)
    lines = []
    n = 30000 if thorough else 300
    for i in range(n):
        r = rng.random()
        if r < 0.2:
            b = bytes(rng.randrange(256) for _ in range(rng.randint(0, 40)))
        elif r < 0.35:
            b = rng.choice([b"\xff\xfe", b"\xc3", b"\xe2\x82", b"\xf0\x9f\x98", b"@MAIN:VOL=\xff", b"\x80@SYS:MODELNAME=x", b"@\xc3\x28:A=B"]) + bytes(rng.randrange(256) for _ in range(rng.randint(0, 5)))
        elif r < 0.45:
            b = b"@MAIN:ZONENAME=" + b"x" * rng.choice([1000, 100000, 1000000 if thorough else 200000])
        elif r < 0.6:
            b = rng.choice([b"", b"@", b"@:", b"@:=", b"@a:=", b"@:a=", b"=", b":", b"@MAIN", b"@MAIN:VOL", b"@MAIN:=5", b"@=:", b"\r", b"\n", b"\n\r",
                            b"@UNDEFINED ", b"@RESTRICTED\n", b"@@MAIN:VOL=1", b" @MAIN:VOL=1", b"@MAIN:VOL=1\n@MAIN:VOL=2", b"\x00", b"@MAIN:VOL=\x00"])
        else:
            c = rng.choice([c for c in T["classes"] if c["id"] in objs])
            f = rng.choice(c["fns"])
            b = f"@{c['id']}:{f['name']}={rng.choice(UNDECODABLE)}".encode()
        b = b.replace(b"\r\n", b"\r \n")
        lines.append(b)
    k = 0
    for b in lines:
        k += 1
        sentinel = f"sentinel{k}"
        data = b + b"\r\n" + f"@MAIN:ZONENAME={sentinel}".encode() + b"\r\n"
        ctx.case(("bytes", b[:64], len(b)))
        ctx.count("bytes:valid-utf8" if _valid(b) else "bytes:invalid-utf8")
        got.clear()
        exc = None
        # random chunking
        cuts = sorted(rng.sample(range(len(data) + 1), min(len(data) + 1, rng.choice([0, 1, 2, 5]))))
        pos = 0
        try:
            for c_ in cuts + [len(data)]:
                if c_ > pos:
                    proto.data_received(data[pos:c_])
                    pos = c_
        except Exception as e:  # noqa: BLE001
            exc = e
        what = None
        if exc is not None:
            what = f"receive path raised {type(exc).__name__}: {exc} (in the reader thread this ends the connection)"
        elif objs["MAIN"].zonename != sentinel:
            what = "the line after the attack was not processed"
        elif len(got) != 2:
            what = f"{len(got)} notifications for 2 lines"
        if what:
            ctx.violation(f"received line {b[:80]!r} ({len(b)} bytes): {what}", {"path": "bytes", "line_hex": b[:4000].hex(), "len": len(b)},
                          {"kind": what.split("(")[0].strip()[:30], "path": "bytes"})
            if exc is not None:
                proto.buffer = bytearray()
    return len(lines)


def _valid(b):
    try:
        b.decode("utf-8")
        return True
    except UnicodeDecodeError:
        return False


def stuck_probe(ctx):
    """long digit / separator runs handed to every readable function in a child process with a time limit (harness/stuck_probe.py)"""
    import subprocess
    import sys
    import time
    p = subprocess.Popen([sys.executable, "-m", "harness.stuck_probe"], cwd=os.path.dirname(os.path.dirname(os.path.dirname(os.path.abspath(__file__)))),
                         stdout=subprocess.PIPE, stderr=subprocess.PIPE, text=True, env={**os.environ, "YNCA_REPO": core.REPO, "PYTHONPATH": core.REPO})
    try:
        out, err = p.communicate(timeout=240 if ctx.tier == "thorough" else 150)
        timed_out = False
    except subprocess.TimeoutExpired:
        p.kill()
        out, err = p.communicate()
        timed_out = True
    lines = out.splitlines()
    n = sum(1 for l in lines if l.startswith("BEGIN"))
    ctx.cov["stuck_probe_deliveries"] = n
    for i, l in enumerate(lines):
        if l.startswith("BEGIN"):
            ctx.case(("stuck", l))
            nxt = lines[i + 1] if i + 1 < len(lines) else None
            if nxt is not None and nxt.startswith("END raised"):
                _, py, sid, fn, hx = l.split(" ")
                ctx.violation(f"@{sid}:{fn}={core.unhx(hx)[:60]!r}... -> the message handler {nxt[4:]} (in the reader thread this ends the connection)",
                              {"path": "stuck-probe", "class": py, "subunit": sid, "function": fn, "text": core.unhx(hx)}, {"kind": "raises", "path": "stuck-probe"})
    if timed_out:
        last = [l for l in lines if l.startswith("BEGIN")][-1:] or ["BEGIN ? ? ? -"]
        _, py, sid, fn, hx = last[0].split(" ")
        ctx.violation(f"@{sid}:{fn}={core.unhx(hx)[:60]!r} ({len(core.unhx(hx))} characters): the message handler was still busy with this one line when the time limit expired "
                      f"({n} deliveries normally take about a second): the reader thread is stalled, no later line is processed, nothing is raised",
                      {"path": "stuck-probe", "class": py, "subunit": sid, "function": fn, "text": core.unhx(hx)}, {"kind": "stalled", "path": "stuck-probe"})
    elif "DONE" not in lines:
        raise RuntimeError(f"stuck probe ended without finishing: {err[-800:]}")


def deleted_functions(ctx, T, rng):
    """the application may remove a function from an object (`del subunit.<function>`, function.py's `__delete__`): what the device reports for
    it afterwards is a line like any other — nothing raises, the lines after it are processed"""
    from ..realobj import StubConnection, subunit_class
    from ynca.connection import YncaProtocolStatus as St
    n = 0
    for c in T["classes"]:
        cls = subunit_class(c["py"])
        conn = StubConnection()
        obj = cls(conn)
        readable = [f for f in c["fns"] if f["get"]]
        if len(readable) < 2:
            continue
        f, g = rng.sample(readable, 2)
        try:
            delattr(obj, f["attr"])
        except Exception:  # noqa: BLE001
            continue            # (not removable: nothing to check)
        n += 1
        ctx.case(("deleted", c["py"], f["name"]))
        what = None
        try:
            conn.deliver(St.OK, c["id"], f["name"], value_for(rng, T, f, undecodable_ok=False))
        except Exception as e:  # noqa: BLE001
            what = f"the report {f['name']}=... for a function the application had removed from the object raised {type(e).__name__} in the message handler (in the reader thread this ends the connection)"
        if what is None:
            try:
                v = value_for(rng, T, g, undecodable_ok=False)
                conn.deliver(St.OK, c["id"], g["name"], v)
                if getattr(obj, g["attr"]) is None and cls is not None and getattr(cls, g["attr"]).converter.to_value(v) is not None:
                    what = f"the line after it ({g['name']}={v!r}) was not processed"
            except Exception as e:  # noqa: BLE001
                what = f"the line after it raised {type(e).__name__}"
        if what:
            ctx.violation(f"{c['py']}: del obj.{f['attr']}, then the device reports it: {what}", {"path": "deleted", "class": c["py"], "function": f["name"]},
                          {"kind": "deleted-function", "path": "deleted"})
            break
    ctx.cov["deleted_function_reports"] = n


def run(ctx: core.Ctx):
    ctx.lean_stage()
    T = core.tables()
    thorough = ctx.tier == "thorough"
    stuck_probe(ctx)
    deleted_functions(ctx, T, ctx.rng)
    dis = typed_attack(ctx, T, ctx.rng, thorough)
    nb = byte_attack(ctx, T, ctx.rng, thorough)
    # user-declared functions: a converter may signal "cannot decode" with any exception (a dict lookup raises KeyError, an index raises
    # IndexError, arithmetic raises ZeroDivisionError ...): such a value must not take the message handler down either
    import copy as _copy
    from ..realobj import StubConnection, subunit_class
    from ynca.connection import YncaProtocolStatus as _St
    from ynca.converters import ConverterBase

    def _conv(exc_type):
        class Picky(ConverterBase):
            def to_value(self, value_string):
                if value_string.startswith("bad"):
                    raise exc_type("cannot decode " + value_string)
                return value_string

            def to_str(self, value):
                return str(value)
        return Picky()
    nsyn = 0
    for c in T["classes"][:: (1 if thorough else 3)]:
        base = subunit_class(c["py"])
        readable = [f for f in c["fns"] if f["get"]]
        if not readable:
            continue
        d = getattr(base, readable[0]["attr"])
        for exc_type in (KeyError, IndexError, TypeError, ZeroDivisionError, AttributeError, RuntimeError, LookupError):
            extra = _copy.copy(d)
            extra.converter = _conv(exc_type)
            extra._name_override = "ZZPICKY"
            sub = type("Synth" + c["py"] + exc_type.__name__, (base,), {"zzpicky": extra})
            conn_ = StubConnection()
            obj_ = sub(conn_)
            nsyn += 1
            ctx.case(("synthetic-converter", c["py"], exc_type.__name__))
            try:
                conn_.deliver(_St.OK, c["id"], "ZZPICKY", "good 1")
                conn_.deliver(_St.OK, c["id"], "ZZPICKY", "bad value")           # undecodable for this function
                conn_.deliver(_St.OK, c["id"], "ZZPICKY", "good 2")              # the line after it is processed normally
                got = obj_.zzpicky
                raised = None
            except Exception as e:  # noqa: BLE001
                raised, got = e, None
            if raised is not None:
                ctx.violation(f"{c['py']} subclass with a user-declared function whose converter raises {exc_type.__name__} for a value it cannot decode: the message handler "
                              f"raised {type(raised).__name__} (on the reader thread this ends the connection)", {"path": "synthetic-converter", "class": c["py"], "exception": exc_type.__name__},
                              {"kind": "synthetic-converter"})
            elif got != "good 2":
                ctx.violation(f"{c['py']} subclass, converter raising {exc_type.__name__}: after good / undecodable / good reports the attribute reads {got!r}",
                              {"path": "synthetic-converter", "class": c["py"], "exception": exc_type.__name__}, {"kind": "synthetic-converter-value"})
    ctx.cov["synthetic_converters"] = nsyn
    try:
        from . import c10_threads
        c10_threads.run(ctx, T)
    except ImportError:
        ctx.info["threads"] = "reader-thread scenarios not built yet"
    ctx.info["rule"] = ("(a) every readable function of every class x undecodable texts (incl. the recorded 'Auto Down'), each followed by a sentinel "
                        "line; (b) %d byte lines (random bytes, invalid UTF-8, up to 1 MB, malformed YNCA, undecodable values) through the real "
                        "data_received with random chunking, each followed by a sentinel; a case = one attack line; non-trivial = distinct lines" % nb)
    ctx.cov["disagreements_model_vs_impl"] = len(dis)
    if dis and not ctx.violations:
        ctx.correspondence_broken("L3 message handling model vs real subunit objects on undecodable values", dis[0])
    ctx.assumptions += ["bytes.decode('utf-8','replace') is total (CPython)", "user callbacks do not raise (environment assumption)"]
    return ctx.finish()


def replay(ctx, path):
    rp = json.load(open(path))["replay"]
    if rp.get("path") == "b2":
        from .. import b2check
        return b2check.replay_b2(rp, ["C10", "C09"])
    if rp.get("path") == "deleted":
        from ..realobj import StubConnection, subunit_class
        from ynca.connection import YncaProtocolStatus as St
        T = core.tables()
        c = next(x for x in T["classes"] if x["py"] == rp["class"])
        f = next(x for x in c["fns"] if x["name"] == rp["function"])
        conn = StubConnection()
        obj = subunit_class(c["py"])(conn)
        delattr(obj, f["attr"])
        try:
            conn.deliver(St.OK, c["id"], f["name"], "1")
            print("impl : handled")
            return 0
        except Exception as e:  # noqa: BLE001
            print("impl : raises", type(e).__name__, e)
            return 1
    if rp.get("path") == "stuck-probe":
        # deliver the one line to a fresh object in a child process with a time limit
        import subprocess
        import sys
        code = ("import sys; sys.path.insert(0, %r); from harness import core; from harness.realobj import StubConnection, subunit_class; "
                "from ynca.connection import YncaProtocolStatus as St; c = StubConnection(); o = subunit_class(%r)(c); c.deliver(St.OK, %r, %r, %r); print('handled')"
                % (os.path.dirname(os.path.dirname(os.path.dirname(os.path.abspath(__file__)))), rp["class"], rp["subunit"], rp["function"], rp["text"]))
        try:
            r = subprocess.run([sys.executable, "-c", code], timeout=30, capture_output=True, text=True, env={**os.environ, "YNCA_REPO": core.REPO, "PYTHONPATH": core.REPO})
            print("impl :", (r.stdout.strip() or r.stderr.strip()[-300:]))
            return 0 if "handled" in r.stdout else 1
        except subprocess.TimeoutExpired:
            print("impl : still busy with this one line after 30 s (the reader thread would be stalled)")
            return 1
    if rp.get("path") == "typed":
        S = L3Session()
        i = S.new(rp["class"])
        print("impl :", S.msg("OK", rp["subunit"], rp["function"], rp["text"]))
        print("model:", S.finish()[-1])
    else:
        from ynca.connection import YncaProtocol
        p = YncaProtocol(lambda *a: print("callback", a), None, 0)
        try:
            p.data_received(bytes.fromhex(rp["line_hex"]) + b"\r\n")
            print("impl : ok")
        except Exception as e:  # noqa: BLE001
            print("impl : raises", type(e).__name__, e)
    return 0
