"""C15 — an unexpected disconnect is reported exactly once and ends all activity.
Lean: Props/C15.lean (L4 model).  Tie: B2 — close() at random points of random sessions, from caller threads, from inside
message callbacks and from the disconnect callback, repeated and concurrent; monitor + trace acceptor."""
from __future__ import annotations

import json

from .. import b2check, core, gen


def jobs(rng, thorough):
    n = 40000 if thorough else 500
    out = []
    for _ in range(n):
        out.append((gen.conn_lifecycle(rng), rng.randrange(10 ** 9), rng.choice([0, 0, 3, 6])))
    return out


def jobs_api(rng, thorough, with_other=False):
    """the user's disconnect callback handed to YncaApi: the link fails (EOF after k bytes / drop at time t) during or after initialize()"""
    T = core.tables()
    out = []
    while len(out) < ((6000 if thorough else 150) if not with_other else (600 if thorough else 50)):
        spec = gen.api_init_fault(rng, T)
        if spec["fault"] in ("eof", "drop"):
            if spec["fault"] == "drop" and rng.random() < 0.5:
                spec["device"]["drop_at"] = round(rng.uniform(8.0, 40.0), 3)        # usually after initialize() has returned
            if with_other != bool(spec.get("other_device")):
                continue
            out.append((spec, rng.randrange(10 ** 9), rng.choice([0, 0, 3])))
    return out


def run(ctx: core.Ctx):
    ctx.lean_stage(extra_props=("C15x", "Tie", "L4Live"))
    b2check.run_b2(ctx, jobs, ["C15"], label="lifecycle scenarios")
    # exhaustive within a bound: every schedule up to 3 (thorough: 5) deviations from the canonical one, on small scenarios
    _small = gen.small_scenarios()
    b2check.run_systematic(ctx, [_small[n] for n in ['link-drop', 'traffic', 'concurrent-close']], ["C15"], depth=5 if ctx.tier == "thorough" else 3,
                           label="link-drop, traffic, concurrent-close", max_runs=60000 if ctx.tier == "thorough" else 6000)
    b2check.run_b2(ctx, lambda rng, th: [(gen.conn_port_dies(rng), rng.randrange(10 ** 9), rng.choice([0, 3])) for _ in range(4000 if th else 120)],
                   ["C15"], label="transport ends without raising (port reports closed), monitor only", accept=False)
    def jobs_hot(rng, th):
        out = []
        for _ in range(6000 if th else 150):
            spec = gen.conn_lifecycle(rng)
            spec["hot"] = "connection_lost"          # thread switches between any two bytecodes of the disconnect handling
            spec["hot_budget"] = rng.choice([5, 15, 40])
            out.append((spec, rng.randrange(10 ** 9), rng.choice([0, 3])))
        return out
    b2check.run_b2(ctx, lambda rng, th: [(gen.conn_second_session(rng, "drop"), rng.randrange(10 ** 9), rng.choice([0, 3])) for _ in range(4000 if th else 120)], ["C15re"],
                   label="connect() again on the same object after close() / a lost link; the second session's link fails (monitor only)", accept=False)
    b2check.run_b2(ctx, lambda rng, th: [(gen.conn_dead_flood(rng), rng.randrange(10 ** 9), 0) for _ in range(1500 if th else 40)], ["C15"],
                   label="hundreds of API calls on the dead connection (monitor only)", accept=False)
    b2check.run_b2(ctx, jobs_hot, ["C15"], label="lifecycle scenarios with bytecode-level preemption inside the disconnect handling, monitor only", accept=False)
    b2check.run_b2(ctx, jobs_api, ["C15"], label="link failure during / after YncaApi.initialize() (the callback given to YncaApi)")
    b2check.run_b2(ctx, lambda rng, th: jobs_api(rng, th, with_other=True), ["C15two"],
                   label="... and afterwards another YncaApi object of the same process talks to another, healthy receiver (first object judged)")
    ctx.info["rule"] = ("sessions of two caller threads with bursts, a link drop / EOF / write error / close() inserted at a random position, close() from a caller, "
                        "from inside a message callback, from the disconnect callback, repeated and concurrent, then API calls on the dead connection; each under a "
                        "seeded schedule with 0/3/6 extra line-level preemptions; a case = one schedule; non-trivial = distinct (spec, seed)")
    return ctx.finish()


def replay(ctx, path):
    return b2check.replay_b2(json.load(open(path))["replay"], ["C15"])
