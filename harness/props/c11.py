"""C11 — stepped numbers are written on the step grid with fixed decimals.

Lean: Props/C11.lean (C11_main for every rational and every grid of the statement's table, wiring of
the regenerated function tables, MAXVOL exception).
Tie: B1 — real attribute assignment on real subunit objects vs `ynca_model encode`, compared as exact
texts; monitor = independent exact-Fraction oracle on the text the real code transmitted."""
from __future__ import annotations

import json
import math
import multiprocessing as mp
import re
from fractions import Fraction

from .. import core

# the statement's table (property text): function -> (step, decimals)
SPEC = {
    "VOL": (Fraction(1, 2), 1), "ZONEBVOL": (Fraction(1, 2), 1), "HPBASS": (Fraction(1, 2), 1),
    "HPTREBLE": (Fraction(1, 2), 1), "SPBASS": (Fraction(1, 2), 1), "SPTREBLE": (Fraction(1, 2), 1),
    "INITVOLLVL": (Fraction(1, 2), 1), "MAXVOL": (Fraction(5), 1), "FMFREQ": (Fraction(1, 5), 2),
    "AMFREQ": (Fraction(10), 0),
}
LIMIT = 10 ** 4


def pyval_token(v):
    if isinstance(v, bool):
        return f"b:{int(v)}"
    if isinstance(v, int):
        return f"i:{v}"
    if isinstance(v, float):
        if math.isfinite(v):
            f = Fraction(v)
            return f"f:{f.numerator}:{f.denominator}"
        return "fn"
    raise TypeError(v)


def oracle(fname, v, text):
    """Independent statement of C11 on one (function, exact value, transmitted text). Returns None or a reason."""
    step, d = SPEC[fname]
    fv = Fraction(v)
    if fname == "MAXVOL" and fv == Fraction(33, 2):
        return None if text == "16.5" else "maxvol-exception: MAXVOL 16.5 must be transmitted as '16.5'"
    pat = r"-?[0-9]+" + (r"\.[0-9]{%d}" % d if d else "")
    if not re.fullmatch(pat, text):
        return f"not-a-literal: not a plain decimal literal with {d} decimals"
    g = Fraction(text)
    if (g / step).denominator != 1:
        return f"off-grid: {text} is not on the {step} grid"
    # "the requested number" is read generously: the exact binary value, or (for floats) the shortest
    # decimal that denotes it (what the user typed); a grid point nearest to either reading is accepted
    alt = Fraction(repr(v)) if isinstance(v, float) else fv
    if abs(fv - g) > step / 2 and abs(alt - g) > step / 2:
        return f"not-nearest: {text} is not a grid point nearest to the requested number (off by {float(abs(fv - g))})"
    if text.startswith("-") and g == 0:
        return "negative-zero: zero written with a minus sign"
    return None


def _work(args):
    """Worker: real assignment for a chunk of values. Returns list of (token, repr, outcome, text, oracle_reason, decoded_ok)."""
    py, attr, fname, values = args
    from ..realobj import make

    obj, conn = make(py)
    conv = getattr(type(obj), attr).converter
    out = []
    for v in values:
        n0 = len(conn.sent)
        try:
            setattr(obj, attr, v)
            sent = conn.sent[n0:]
            if len(sent) == 1 and sent[0][0] == "put" and sent[0][2] == fname:
                text = sent[0][3]
                reason = oracle(fname, v, text) if isinstance(text, str) else "not-text: transmitted value is not text"
                if reason is None:
                    try:
                        back = conv.to_value(text)
                        if Fraction(back) != Fraction(float(Fraction(text))):
                            reason = f"decode-back: decoding {text!r} gives {back!r}, not the grid value"
                    except Exception as e:  # noqa: BLE001
                        reason = f"decode-back: decoding {text!r} raises {type(e).__name__}"
                out.append((pyval_token(v), repr(v), "S", text, reason))
            else:
                out.append((pyval_token(v), repr(v), "X", json.dumps(sent), "not-one-put: did not transmit exactly one PUT"))
        except Exception as e:  # noqa: BLE001
            extra = conn.sent[n0:]
            out.append((pyval_token(v), repr(v), "R", type(e).__name__, "raised: raised %s for a valid number" % type(e).__name__ + (" and transmitted" if extra else "")))
    return out


def grid_values(step: Fraction, rng, stride, with_neighbours=True):
    vals = []
    kmax = int(Fraction(LIMIT) / step)
    off = rng.randrange(stride)
    for k in range(-kmax + off, kmax + 1, stride):
        for num in (k * step, (k + Fraction(1, 2)) * step):
            if abs(num) > LIMIT:
                continue
            f = float(num)
            vals.append(f)
            if with_neighbours:
                vals.append(math.nextafter(f, math.inf))
                vals.append(math.nextafter(f, -math.inf))
            if num.denominator == 1:
                vals.append(int(num))
    return vals


def random_values(rng, n):
    vals = []
    for _ in range(n):
        r = rng.random()
        if r < 0.5:
            vals.append(rng.uniform(-LIMIT, LIMIT))
        elif r < 0.7:
            vals.append(round(rng.uniform(-LIMIT, LIMIT), rng.choice([0, 1, 2, 3])))
        elif r < 0.85:
            vals.append(rng.uniform(-1, 1) * 10 ** rng.uniform(-8, 0))
        elif r < 0.95:
            vals.append(rng.randint(-LIMIT, LIMIT))
        else:
            vals.append(rng.choice([0.0, -0.0, -1e-300, 1e-300, 16.5, -80.5, 16.499999999999996, 16.500000000000004,
                                    float(LIMIT), -float(LIMIT), 0.25, -0.25, 0.1, -0.1, 8.6, 87.7, 2.5, 7.5, -2.5]))
    return vals


def stepped_functions(T):
    """(py, attr, fname) of every writable function whose name is in the statement's table."""
    res = []
    for c in T["classes"]:
        for f in c["fns"]:
            if f["put"] and f["name"] in SPEC:
                res.append((c["py"], f["attr"], f["name"]))
    return res


def run(ctx: core.Ctx):
    ctx.lean_stage()
    T = core.tables()
    fns = stepped_functions(T)
    thorough = ctx.tier == "thorough"
    jobs = []
    # one full sweep per distinct (function name) on the first class that has it; random sample on every other (class, function)
    seen = set()
    nrand = 20000 if thorough else 2000
    for py, attr, fname in fns:
        step, d = SPEC[fname]
        if fname not in seen:
            seen.add(fname)
            stride = 1 if thorough else (1 if step >= 5 else 4)
            vals = grid_values(step, ctx.rng, stride) + random_values(ctx.rng, nrand * (10 if thorough else 5))
        else:
            vals = grid_values(step, ctx.rng, 97 if not thorough else 11, with_neighbours=False) + random_values(ctx.rng, nrand)
        for i in range(0, len(vals), 20000):
            jobs.append((py, attr, fname, vals[i:i + 20000]))
    ctx.info["rule"] = ("values: every grid point and tie point (stride %s in quick) of each stepped function with |v|<=1e4 as float, both "
                        "floating-point neighbours, ints, plus seeded random doubles; a case = (class, function, value); non-trivial = "
                        "distinct (function, value) pairs whose real outcome was obtained and compared with the model and the oracle") % (
                            "1" if thorough else "4 for steps < 5")
    with mp.Pool(min(16, max(1, len(jobs)))) as pool:
        results = pool.map(_work, jobs, chunksize=1)
    # model side
    lines = []
    index = []
    for (py, attr, fname, _vals), res in zip(jobs, results):
        for r in res:
            lines.append(f"{py} {fname} {r[0]}")
            index.append((py, attr, fname, r))
    model = core.run_driver("encode", lines)
    if len(model) != len(lines):
        raise RuntimeError("driver output length mismatch")
    disagreements = []
    failures = []
    for (py, attr, fname, r), m in zip(index, model):
        tok, rep, kind, text, reason = r
        ctx.case((fname, tok))
        ctx.count(f"fn:{fname}")
        ctx.count(f"real:{kind}")
        if reason:
            failures.append((len(rep), py, attr, fname, rep, kind, text, reason, m))
        if m.startswith("S "):
            mt = core.unhx(m[2:])
            ctx.count("model:sent")
            if kind != "S" or text != mt:
                disagreements.append((len(rep), py, fname, rep, kind, text, mt))
        elif m == "R":
            ctx.count("model:raises")
            if kind != "R":
                disagreements.append((len(rep), py, fname, rep, kind, text, "raises"))
        elif m == "U":
            ctx.count("model:unspecified(informational)")
        else:
            raise RuntimeError(f"driver said {m!r} for {py} {fname} {tok}")
    for py, attr, fname, r in index[:: max(1, len(index) // 10)]:
        ctx.sample({"class": py, "function": fname, "value": r[1], "real": r[3]})
    failures.sort()
    disagreements.sort()
    ctx.cov["disagreements_model_vs_impl"] = len(disagreements)
    ctx.cov["oracle_failures"] = len(failures)
    by_reason = {}
    for f in failures:
        by_reason.setdefault((f[3], f[7].split(":")[0]), []).append(f)
    for (fname, reason), fl in sorted(by_reason.items())[:6]:
        _, py, attr, fname, rep, kind, text, why, m = fl[0]
        ctx.violation(
            f"{py}.{attr} = {rep} transmitted {text!r}: {why} ({len(fl)} such values in this run)",
            {"class": py, "attr": attr, "function": fname, "value": rep, "value_hex": float(eval(rep)).hex() if "." in rep or "e" in rep else rep,
             "real": {"outcome": kind, "text": text}, "model": m if not m.startswith("S ") else "S " + core.unhx(m[2:]),
             "count_in_run": len(fl), "others": [x[4] for x in fl[1:6]]},
            {"function": fname, "kind": reason})
    if disagreements and not failures:
        d0 = disagreements[0]
        ctx.correspondence_broken("encode(stepped) vs attribute assignment",
                                  {"count": len(disagreements), "first": {"class": d0[1], "function": d0[2], "value": d0[3], "real": [d0[4], d0[5]], "model": d0[6]}})
    # history independence: interleaved threads on shared descriptors / converters, repeats, receiver reports in between (scheduled real objects)
    from .. import b2check, gen
    b2check.run_b2(ctx, lambda rng_, th: [(gen.set_race(rng_, T), rng_.randrange(10 ** 9), 0) for _ in range(12000 if th else 400)], ["C11r"],
                   label="stepped writes from two threads through shared descriptors, with repeats and receiver reports in between", accept=False)
    ctx.assumptions += [
        "Python float(text) is the correctly rounded double of the decimal literal (CPython strtod); checked on every transmitted text",
        "values are finite ints/floats with |v| <= 1e4 (the property's domain); the Lean theorems need no bound",
    ]
    # ambient state and other exact number types: what is written must not depend on the arithmetic context of the thread that writes
    # (decimal rounding mode / precision set by the application), and a number given as Decimal or Fraction is the number it denotes
    import decimal
    from ..realobj import make as _make
    from decimal import Decimal
    n_amb = 0
    saved = decimal.getcontext().copy()
    try:
        for ctx_name, setter in (("default", lambda c: None), ("ROUND_DOWN", lambda c: setattr(c, "rounding", decimal.ROUND_DOWN)),
                                 ("ROUND_CEILING", lambda c: setattr(c, "rounding", decimal.ROUND_CEILING)), ("prec=3", lambda c: setattr(c, "prec", 3)),
                                 ("ROUND_UP,prec=2", lambda c: (setattr(c, "rounding", decimal.ROUND_UP), setattr(c, "prec", 2)))):
            decimal.setcontext(saved.copy())
            setter(decimal.getcontext())
            done = set()
            for py, attr, fname in fns:
                if fname in done:
                    continue
                done.add(fname)
                step, d = SPEC[fname]
                obj, conn = _make(py)
                vals = [-30.3, 4, 101.55, 1537, 16.5, -0.2, 0.24, 87.55, -80.5, 7.49, 12.5, 2.5, 531, 1005.0,
                        Decimal("16.5"), Decimal("16.50"), Fraction(33, 2), Decimal("-30.3"), Fraction(-61, 2), Decimal("101.55"), Fraction(1537), Decimal("2.50")]
                vals += [round(ctx.rng.uniform(-80, 110), ctx.rng.choice([0, 1, 2, 3])) for _ in range(40 if not thorough else 400)]
                for v in vals:
                    n0 = len(conn.sent)
                    try:
                        setattr(obj, attr, v)
                    except Exception as e:  # noqa: BLE001
                        if isinstance(v, (int, float)):
                            ctx.violation(f"{py}.{attr} = {v!r} under decimal context {ctx_name}: raised {type(e).__name__} for a valid number",
                                          {"path": "ambient", "class": py, "attr": attr, "value": repr(v), "decimal_context": ctx_name}, {"kind": "raised", "function": fname})
                        continue
                    sent = conn.sent[n0:]
                    n_amb += 1
                    ctx.case(("ambient", ctx_name, fname, repr(v)))
                    if len(sent) != 1 or sent[0][0] != "put" or not isinstance(sent[0][3], str):
                        continue
                    reason = oracle(fname, v, sent[0][3])
                    if reason:
                        ctx.violation(f"{py}.{attr} = {v!r} ({type(v).__name__}) under decimal context {ctx_name}: PUT carries {sent[0][3]!r}: {reason}",
                                      {"path": "ambient", "class": py, "attr": attr, "value": repr(v), "decimal_context": ctx_name}, {"kind": reason.split(":")[0], "function": fname})
                        break
    finally:
        decimal.setcontext(saved)
    ctx.cov["ambient_context_assignments"] = n_amb
    return ctx.finish()


def replay(ctx: core.Ctx, path):
    from ..realobj import make

    rp = json.load(open(path))["replay"]
    if rp.get("path") == "b2":
        from .. import b2check
        return b2check.replay_b2(rp, ["C11r"])
    obj, conn = make(rp["class"])
    v = eval(rp["value"])
    try:
        setattr(obj, rp["attr"], v)
        real = conn.sent[-1]
    except Exception as e:  # noqa: BLE001
        real = f"raises {type(e).__name__}: {e}"
    core.tables()
    m = core.run_driver("encode", [f"{rp['class']} {rp['function']} {pyval_token(v)}"])[0]
    print("value     :", repr(v), Fraction(v))
    print("impl      :", real)
    print("model     :", m if not m.startswith("S ") else "S " + core.unhx(m[2:]))
    text = real[3] if isinstance(real, tuple) else None
    reason = oracle(rp["function"], v, text) if text is not None else "no text"
    print("oracle    :", reason or "ok")
    return 1 if reason else 0
