"""C19 — no client command can make the test server drop the session.
Lean: Props/C19.lean (L6 model, total by construction; relative steps only for volume functions).
Tie: B1 — every command the typed client API can emit (all attribute writes and action methods of all subunits, produced by
the real objects) and random lines, against a real handler loaded from each bundled recording, vs `ynca_model server`."""
from __future__ import annotations

import json
import os

from .. import core, srv
from ..l3 import L3Session
from . import c05


def typed_api_commands(T, rng):
    """drive the real subunit objects through every writable attribute / action method and collect what they send"""
    cmds = []
    for c in T["classes"]:
        S = L3Session()
        i = S.new(c["py"])
        for f in c["fns"]:
            if not f["put"]:
                continue
            for v, validity in c05.candidate_values(rng, T, f, False):
                if validity != "valid":
                    continue
                n0 = len(S.conn.sent)
                try:
                    setattr(S.objs[i], f["attr"], v)
                except Exception:  # noqa: BLE001
                    continue
                for x in S.conn.sent[n0:]:
                    if x[0] == "put" and isinstance(x[3], str):
                        cmds.append(f"@{x[1]}:{x[2]}={x[3]}")
        for a in c["actions"]:
            k = a["kind"]
            argsets = {"const": [()], "volstep": [(), (1,), (2,), (5,), (0.5,), (1.0,), (True,)], "mem": [(), (1,), (40,)], "scene": [(1,), (12,)],
                       "enumarg": [(m,) for m in c05.enum_class(k["enum"])] if k["k"] == "enumarg" else [], "fixedlen": [("7A85-1F2",)]}.get(k["k"], [])
            for args in argsets:
                n0 = len(S.conn.sent)
                try:
                    getattr(S.objs[i], a["meth"])(*args)
                except Exception:  # noqa: BLE001
                    continue
                for x in S.conn.sent[n0:]:
                    if x[0] == "put" and isinstance(x[3], str):
                        cmds.append(f"@{x[1]}:{x[2]}={x[3]}")
        # the GETs of initialisation
        S.initialize(i)
        for x in S.conn.sent:
            if x[0] == "get":
                cmds.append(f"@{x[1]}:{x[2]}=?")
    seen = set()
    out = []
    for c in cmds:
        if c not in seen:
            seen.add(c)
            out.append(c)
    return out


def wire_bytes(text):
    """the bytes the library itself puts on the wire for a command text (its own write path: encoding, error handling, terminator)"""
    from ynca.connection import YncaProtocol

    class _T:
        def __init__(self):
            self.data = b""

        def write(self, b):
            self.data += bytes(b)
    p = YncaProtocol()
    p.transport = _T()
    p.write_line(text)
    return p.transport.data


ALPH = list("@:=?UpDown 0123456789.-+") + ["é", "\t", "MAIN", "VOL", "SYS", "PWR", "ZONE2", "Up", "Down", " dB", "INPNAME", "SCENENAME", "PLAYBACK", "Play"]


def random_line(rng, T):
    r = rng.random()
    if r < 0.4:
        return "".join(rng.choice(ALPH) for _ in range(rng.randint(0, 14)))
    s = rng.choice(T["consts"]["subunits"] + ["FOO", ""])
    f = rng.choice(["VOL", "ZONEBVOL", "PRESET", "PARTYVOL", "LIPSYNCHDMIOUT1OFFSET", "ZONENAME", "SCENENAME", "INPNAME", "PLAYBACK", "PWR", "MEM", "REMOTECODE",
                    "BASIC", "STRAIGHT", "DIRMODE", "NOSUCH", "INP", "SCENE1NAME"])
    v = rng.choice(["Up", "Down", "Up 1 dB", "Down 5 dB", "Up 1.0 dB", "Down x dB", "Up  2 dB", "Upstairs", "Downstairs", "Downtown 3", "Up -3 dB", "?", "", "Play", "Stop",
                    "On", "Standby", "-30.5", "abc", "12345678", "1234567", "@UNDEFINED", "@RESTRICTED", "@x", "Up 99999999999999999999 dB",
                    # texts some number parser or other accepts (or chokes on): stored as free text, later the base of a relative step
                    "1/0", "3/4", "1e400", "-1e400", "nan", "inf", "-inf", "0x10", "１２", "1_0", " 5 ", "5.", ".5", "+5", "--5", "1e3", "٣", "1,5"])
    if rng.random() < 0.04:
        # a long line (any length is a line: a scene or zone name pasted by a user, a raw command), multi-byte characters at arbitrary offsets
        pre = "a" * rng.randint(0, 3)
        v = pre + "".join(rng.choice(["ü", "é", "𝄞", "x", "€"]) for _ in range(rng.choice([300, 520, 700, 1100, 2500, 5000])))
    return f"@{s}:{f}={v}"


def run(ctx: core.Ctx):
    ctx.lean_stage()
    T = core.tables()
    rng = ctx.rng
    thorough = ctx.tier == "thorough"
    api_cmds = typed_api_commands(T, rng)
    ctx.cov["typed_api_commands"] = len(api_cmds)
    disagreements = []
    nrand = 200000 if thorough else 1500
    stores = [(os.path.basename(p), p, None) for p in srv.recordings()]
    stores.append(("(minimal built-in store)", None, [("SYS", "MODELNAME", "ModelName"), ("SYS", "VERSION", "Version"), ("MAIN", "AVAIL", "Not ready"), ("MAIN", "VOL", "0.0"),
                                                      ("MAIN", "ZONENAME", "MainZone"), ("ZONE2", "AVAIL", "Not ready"), ("ZONE2", "ZONENAME", "Zone2Name")]))
    for rec, path, pairs in stores:
        shuffled = list(api_cmds)
        rng.shuffle(shuffled)
        streams = [("typed-api", api_cmds), ("typed-api-shuffled", shuffled if thorough else shuffled[:len(shuffled) // 2]), ("random", [random_line(rng, T) for _ in range(nrand)])]
        if thorough:
            for _ in range(4):
                sh = list(api_cmds)
                rng.shuffle(sh)
                streams.append(("typed-api-shuffled", sh))
        # relative steps on whatever text is stored for a volume function (a client can store any text: the typed API's raw entry, another client)
        rel = []
        for z in ("MAIN", "ZONE2", "ZONE3", "ZONE4"):
            for fn_ in ("VOL", "ZONEBVOL"):
                for base in ("-30.0", "-30.5", "0.0", "16.5", "-80.5", "5", "1/0", "3/4", "1e400", "nan", "inf", "-inf", "0x10", "１２", "1_0", " 5 ", "5.", ".5", "+5", "--5", "1e3", "٣",
                             "1,5", "", "abc", "Up", "Down", "@home", "-0.0", "99999999999999999999", "1e-400"):
                    rel.append(f"@{z}:{fn_}={base}")
                    rel += [f"@{z}:{fn_}={w}" for w in rng.sample(["Up", "Down", "Up 1 dB", "Down 2 dB", "Up 5 dB", "Down 5 dB", "Up 1.0 dB", "Down x dB"], 3)]
        streams.append(("relative-steps", rel))
        for stream, lines in streams:
            real = srv.RealServer(path, pairs)
            ops = (srv.model_ingest_ops(path)[:-1] if path else ["reset"] + [f"add {core.hx(s)} {core.hx(f)} {core.hx(v)}" for s, f, v in pairs])
            n0 = len(ops)
            reals = []
            done = []
            for line in lines:
                before_up = None
                # typed-API commands travel as the bytes the library's own write path produces for them
                out, exc = real.command(wire_bytes(line) if stream.startswith("typed-api") else line)
                ctx.case((rec, line))
                ctx.count("stream:" + stream)
                done.append(line)
                ops.append("cmd " + core.hx(line))
                reals.append(" ".join(core.hx(x) for x in out) if out else "-")
                if exc is not None:
                    ctx.count("real:exception")
                    ctx.violation(f"{rec}: command {line!r} raised {type(exc).__name__}: {exc} -> the server drops the session",
                                  {"recording": rec, "command": line, "previous": done[-6:-1]}, {"kind": "crash", "exc": type(exc).__name__, "site": str(exc)[:30]})
                    real = srv.RealServer(path, pairs)      # the session is gone; continue with a fresh one for the search
                    ops = ops[:n0]
                    reals = []
                    done = []
                    continue
                for o in out:
                    if not srv.WELLFORMED.match(o):
                        ctx.violation(f"{rec}: reply {o!r} to {line!r} is not a well-formed YNCA line", {"recording": rec, "command": line}, {"kind": "malformed-reply"})
            model = core.run_driver("server", ops)[n0:]
            for line, r, mo in zip(done, reals, model):
                if mo == "U":
                    ctx.count("model:unspecified(informational)")
                    break
                if r != mo:
                    disagreements.append({"recording": rec, "command": line, "real": [core.unhx(x) for x in r.split()] if r != "-" else r,
                                          "model": [core.unhx(x) for x in mo.split()] if mo != "-" else mo})
                    break
        # Up and Down are ordinary values for functions other than the two volume functions, identically
        real = srv.RealServer(path, pairs)
        for (s, sub) in list(real.store._store.items())[:6]:
            for f in list(sub.keys())[:25]:
                if f in ("VOL", "ZONEBVOL") or f in srv.SPECIAL:
                    continue
                res = {}
                for word in ("Up", "Down"):
                    r2 = srv.RealServer(path, pairs)
                    out, exc = r2.command(f"@{s}:{f}={word}")
                    res[word] = ("EXC " + type(exc).__name__) if exc else [o.replace(word, "<W>") for o in out]
                    ctx.case((rec, s, f, word))
                if res["Up"] != res["Down"]:
                    ctx.violation(f"{rec}: {s}:{f}=Up answered {res['Up']!r} but {s}:{f}=Down answered {res['Down']!r}", {"recording": rec, "subunit": s, "function": f},
                                  {"kind": "updown-asymmetric"})
    ctx.sample({"typed_api_sample": api_cmds[:: max(1, len(api_cmds) // 8)][:8]})
    ctx.info["rule"] = ("every command the typed client API emits (all valid attribute writes, all action methods, all initialisation GETs, produced by the real objects) and seeded "
                        "random / adversarial lines, against a handler loaded from each of the 12 recordings and the built-in minimal store; Up/Down symmetry on every stored "
                        "non-volume function; a case = (store, line); non-trivial = distinct ones")
    ctx.cov["disagreements_model_vs_impl"] = len(disagreements)
    if disagreements and not ctx.violations:
        # extended search for a concrete failing input: the server no longer behaves like its model around these commands — many short
        # sessions of typed-API commands for the subunits involved, in random order, against the stores involved
        import re as _re
        tried = 0
        for d in disagreements[:4]:
            m = _re.match(r"@([^:]+):", d["command"])
            su = m.group(1) if m else None
            pool_ = [c for c in api_cmds if su is None or c.startswith(f"@{su}:") or c.startswith("@SYS:")]
            path = next((p_ for r_, p_, _ in stores if r_ == d["recording"]), None)
            pairs = next((q_ for r_, _, q_ in stores if r_ == d["recording"]), None)
            for _ in range(60):
                real = srv.RealServer(path, pairs)
                seq = [rng.choice(pool_) for _ in range(rng.randint(2, 12))] + [d["command"]]
                done = []
                for line in seq:
                    out, exc = real.command(wire_bytes(line))
                    done.append(line)
                    tried += 1
                    if exc is not None:
                        ctx.violation(f"{d['recording']}: after {done[:-1]!r} the command {line!r} raised {type(exc).__name__}: {exc} -> the server drops the session",
                                      {"recording": d["recording"], "command": line, "previous": done[:-1]}, {"kind": "crash", "exc": type(exc).__name__, "site": str(exc)[:30]})
                        break
                if ctx.violations:
                    break
            if ctx.violations:
                break
        ctx.count("extended_search_commands", tried)
    if disagreements and not ctx.violations:
        ctx.correspondence_broken("L6 server model vs ynca/server.py", {"count": len(disagreements), "first": disagreements[0]})
    ctx.assumptions += ["lines are valid UTF-8 text (undecodable bytes are outside the claim)", "socketserver plumbing is not modelled"]
    return ctx.finish()


def replay(ctx, path):
    rp = json.load(open(path))["replay"]
    p = os.path.join(core.REPO, "logs", rp["recording"]) if rp["recording"].endswith(".txt") else None
    real = srv.RealServer(p, None if p else [("MAIN", "VOL", "0.0")])
    for c in rp.get("previous", []) + [rp["command"]]:
        print(c, "->", real.command(c))
    return 0
