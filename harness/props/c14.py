"""C14 — a failed initialize() raises in bounded time and leaves nothing behind
Lean: Props/C14.lean.  Tie: B2 — YncaApi.initialize() with a fault at a random position of the start-up dialogue: port cannot be opened, silence after the k-th reply, EOF after the k-th byte, write error after the k-th line; monitor + L4 trace acceptor on the connection-level events of the same runs."""
from __future__ import annotations

import json

from .. import b2check, core, gen

RECS = ["R-N500", "RX-A2A", "RX-A6A", "RX-A810", "RX-V1067", "RX-V2067", "RX-V473", "RX-V475", "RX-V500D", "RX-V583", "RX-V685", "TSR-700"]


def jobs(rng, thorough):
    T = core.tables()
    out = []
    for _ in range(30000 if thorough else 450):
        out.append((gen.api_init_fault(rng, T), rng.randrange(10 ** 9), rng.choice([0, 0, 0, 3])))
    return out


def run(ctx: core.Ctx):
    ctx.lean_stage(extra_props=("C06b", "C07a", "C14t", "Tie", "L4Live"))
    js = []
    results = b2check.run_b2(ctx, lambda rng, th: js.extend(jobs(rng, th)) or js, ["C14", "APIrun"], label="api initialisation with faults")
    b2check.api_fold(ctx, results, js)
    ctx.info["rule"] = ("small devices (<= 3 optional subunits) x fault kind (open fails / silent after k replies / EOF after k bytes incl. k = 0,1 / write error after k lines) x k sampled over the whole start-up dialogue; each under a seeded schedule, some with extra line-level preemptions; a case = one schedule; non-trivial = distinct (spec, seed)")
    return ctx.finish()


def replay(ctx, path):
    return b2check.replay_b2(json.load(open(path))["replay"], ["C14"])
