"""C04 — typed decoding is total and round-trips with the wire text.

Lean: Props/C04.lean (generic theorems for every well-formed enumeration table; complete kernel
evaluation of the regenerated tables and of every distinct recorded value).
Tie: A (tables regenerated) + B1: the real `converter.to_value/to_str` of every function of every class
against `ynca_model decode/encode`; monitor = independent oracle built from the enumeration classes'
`__members__` and exact Fractions."""
from __future__ import annotations

import enum
import json
from fractions import Fraction

from .. import core
from ..realobj import subunit_class

ALPH = list("abcXYZ 019-+._@:=<>") + ["é", "ß", "𝄞", " ", "\t", "١", "２"]


def near_misses(t, rng):
    out = {t.lower(), t.upper(), t + " ", " " + t, t[:-1], t + t[-1:] if t else "x", t.replace(" ", "  "), t.swapcase(), t + "​"}
    if len(t) > 1:
        i = rng.randrange(len(t))
        out.add(t[:i] + t[i + 1:])
        out.add(t[:i] + "x" + t[i + 1:])
    out.discard(t)
    return sorted(out)


def conv_kinds(conv):
    """['str'] for a plain text converter, [] / other tags otherwise (by behaviour of the class names, not by identity)"""
    n = type(conv).__name__
    if n == "StrConverter":
        return ["str"]
    return [n]


def rand_text(rng):
    r = rng.random()
    if r < 0.25:
        return "".join(rng.choice(ALPH) for _ in range(rng.randint(0, 12)))
    if r < 0.5:
        return rng.choice(["", "0", "-0", "12", "-12", "+5", "1.5", "-30.5", "87.60", "12.", ".5", "-.5", "1e3", "inf", "-inf", "nan", "NaN",
                           "Infinity", " 12 ", "1_000", "0x10", "Auto", "Auto Down", "Auto Up", "No Preset", "Off", "On", "< UNKNOWN >",
                           "--1", "1-", "1.2.3", "１２", "1,5", "٣", "+", "-", ".", "1 2"])
    if r < 0.6:
        # text in which Unicode normalisation, case folding or width folding would change something: "any Unicode text" is passed through as it is
        return rng.choice(["Cafe\u0301", "e\u0301", "\u212b", "\u2126", "\u1112\u1161\u11ab", "ﬁ", "Ａ", "ǆ", "İ", "ß", "ſ", "a\u0308\u0323", "\u00a0x\u00a0", "x\u200b", "\ufeffx",
                           "Straße", "ÅNGSTRÖM", "ｱ", "㍿", "½", "²", "x\u0000y"[:1] + "y"])
    if r < 0.75:
        return str(rng.randint(-10**6, 10**6)) if rng.random() < 0.5 else f"{rng.uniform(-1e4, 1e4):.{rng.randint(0, 4)}f}"
    return "".join(chr(rng.choice([rng.randint(32, 126), rng.randint(160, 0x2FF), rng.randint(0x4E00, 0x4E80)])) for _ in range(rng.randint(1, 8)))


def show_real(v):
    """canonical rendering of a real decoded value, same vocabulary as the driver"""
    if isinstance(v, enum.Enum):
        return f"m:{type(v).__name__}:{v.name}"
    if v is None:
        return "n"
    if isinstance(v, bool):
        return f"b:{v}"
    if isinstance(v, int):
        return f"i:{v}"
    if isinstance(v, float):
        if v != v or v in (float("inf"), float("-inf")):
            return "fn"
        f = Fraction(v)
        return f"F:{f.numerator}/{f.denominator}"
    if isinstance(v, str):
        return "s:" + core.hx(v)
    return "other:" + type(v).__name__


def model_matches(m, real_kind, real_val):
    """binding comparison of the model's decode result with the real one.  Returns (binding?, equal?)"""
    if m == "U":
        return False, True
    if m == "R":
        return True, real_kind == "R"
    assert m.startswith("OK "), m
    mv = m[3:]
    if real_kind != "OK":
        return True, False
    if mv.startswith("d:"):
        _, mant, fr = mv.split(":")
        want = float(Fraction(int(mant), 10 ** int(fr)))
        return True, isinstance(real_val, float) and (real_val == want)
    return True, show_real(real_val) == mv


def conv_enums(conv, out):
    from ynca import converters as C

    if isinstance(conv, C.EnumConverter):
        out.append(conv.datatype)
    elif isinstance(conv, C.MultiConverter):
        for c in conv._converters:
            conv_enums(c, out)
    return out


def run(ctx: core.Ctx):
    ctx.lean_stage()
    T = core.tables()
    rng = ctx.rng
    thorough = ctx.tier == "thorough"
    from ynca import converters as C

    ops = []  # (py, fname, text, real_kind, real_val, conv, kindtag)
    enc_ops = []
    n_rand = 2000 if thorough else 40
    rec_by_fn = {}
    for key in T["rec_enum"] + T["rec_num"] + T["rec_other"]:
        rec_by_fn.setdefault((key[1], key[2]), set()).add(key[3])
    for c in T["classes"]:
        cls = subunit_class(c["py"])
        for f in c["fns"]:
            conv = getattr(cls, f["attr"]).converter
            texts = []
            for E in conv_enums(conv, []):
                for m in E:
                    texts.append(("member", m.value))
                    for nm in near_misses(m.value, rng)[: (12 if thorough else 4)]:
                        texts.append(("nearmiss", nm))
            for v in sorted(rec_by_fn.get((c["id"], f["name"]), ())):
                texts.append(("recorded", v))
            for _ in range(n_rand):
                texts.append(("random", rand_text(rng)))
            for tag, t in texts:
                try:
                    rv = conv.to_value(t)
                    ops.append((c["py"], f["name"], t, "OK", rv, conv, tag))
                except Exception as e:  # noqa: BLE001
                    ops.append((c["py"], f["name"], t, "R", type(e).__name__, conv, tag))
            if f["get"]:
                # the observation point the property names: the attribute of a real subunit object after the device reported the text
                # (fresh object per function: whatever the text, "" included, the attribute then reads its decoding)
                from ..realobj import StubConnection
                from ynca.connection import YncaProtocolStatus as _St
                sample = [("empty", "")] + [x for x in texts if x[0] == "member"][:3] + [x for x in texts if x[0] == "recorded"][:2] + [x for x in texts if x[0] == "random"][:2]
                if conv_kinds(conv) == ["str"]:
                    sample += [("unicode", "Füße 𝄞 Cafe\u0301"), ("unicode", "\u212b\u2126 ｱ")]
                for tag, t in sample:
                    conn_ = StubConnection()
                    obj_ = cls(conn_)
                    if tag == "unicode" and "\r\n" not in t:
                        # the whole receive path: the line arrives byte by byte (every read boundary inside a multi-byte character included) through
                        # a real YncaProtocol that hands its messages to the object
                        from ynca.connection import YncaProtocol
                        pr_ = YncaProtocol(conn_.deliver, None, 0)
                        try:
                            for b_ in (f"@{c['id']}:{f['name']}={t}\r\n").encode("utf-8"):
                                pr_.data_received(bytes([b_]))
                            got_ = getattr(obj_, f["attr"])
                        except Exception as e:  # noqa: BLE001
                            got_ = f"<raised {type(e).__name__}>"
                        ctx.case(("attr-bytes", c["py"], f["name"], t))
                        ctx.count("attribute_reads_bytewise")
                        if got_ != t:
                            ctx.violation(f"{c['py']}.{f['attr']} reads {got_!r} after the device sent {f['name']}={t!r} one byte per read; text functions pass values through unchanged",
                                          {"path": "attribute-bytes", "class": c["py"], "function": f["name"], "text": t}, {"kind": "attribute-bytes"})
                        continue
                    try:
                        want = ("OK", conv.to_value(t))
                    except Exception:  # noqa: BLE001
                        want = ("R", None)
                    try:
                        variant = rng.choice(["fresh", "fresh", "after-other", "reinit"]) if want[0] == "OK" else "fresh"
                        if variant == "after-other":
                            # the object has a history: other reports for the same function came first, the same text among them
                            for _tag2, t2 in rng.sample(sample, min(2, len(sample))):
                                if "\r\n" not in t2:
                                    conn_.deliver(_St.OK, c["id"], f["name"], t2)
                            conn_.deliver(_St.OK, c["id"], f["name"], t)
                            conn_.deliver(_St.OK, c["id"], f["name"], sample[0][1])
                        elif variant == "reinit":
                            # ... or the same text was reported before the object was initialised (again)
                            conn_.deliver(_St.OK, c["id"], f["name"], t)
                            _orig_get = conn_.get

                            def _get(subunit, funcname, _o=_orig_get, _c=conn_):
                                _o(subunit, funcname)
                                if f"{getattr(subunit, 'value', subunit)}" == "SYS" and funcname == "VERSION":
                                    _c.deliver(_St.OK, "SYS", "VERSION", "1.0")
                            conn_.get = _get
                            obj_.initialize()
                            conn_.get = _orig_get
                        ctx.count("attribute_history:" + variant)
                        if "\r\n" not in t and rng.random() < 0.3:
                            # the report travels the whole receive path: bytes -> framing -> the line parser -> the object (function names
                            # that start with a digit, values with ':' and '=' in them are parsed there, not here)
                            from ynca.connection import YncaProtocol as _YP
                            _pr = _YP(conn_.deliver, None, 0)
                            _pr.data_received((f"@{c['id']}:{f['name']}={t}\r\n").encode("utf-8"))
                            ctx.count("attribute_via_receive_path")
                        else:
                            conn_.deliver(_St.OK, c["id"], f["name"], t)
                        got = getattr(obj_, f["attr"])
                    except Exception as e:  # noqa: BLE001
                        ctx.violation(f"{c['py']}.{f['attr']}: the report {f['name']}={t!r} raised {type(e).__name__} in the message handler / on reading the attribute",
                                      {"path": "attribute", "class": c["py"], "function": f["name"], "text": t}, {"kind": "attribute-raises"})
                        continue
                    ctx.case(("attr", c["py"], f["name"], t))
                    ctx.count("attribute_reads")
                    exp = want[1] if want[0] == "OK" else None
                    both_nan = isinstance(got, float) and isinstance(exp, float) and got != got and exp != exp
                    if (got != exp or type(got) is not type(exp)) and not both_nan:
                        ctx.violation(f"{c['py']}.{f['attr']} reads {got!r} after the device reported {f['name']}={t!r}; the decoding of that text is {exp!r}",
                                      {"path": "attribute", "class": c["py"], "function": f["name"], "text": t, "history": variant,
                                       "how": "fresh: report the text to a new object; after-other: other reports for the function first; reinit: report, initialize(), report again — then read the attribute"},
                                      {"kind": "attribute-not-decoding", "tag": tag})
            for E in conv_enums(conv, []):
                for m in E:
                    try:
                        enc_ops.append((c["py"], f["name"], E.__name__, m.name, "S", conv.to_str(m), conv, E))
                    except Exception as e:  # noqa: BLE001
                        enc_ops.append((c["py"], f["name"], E.__name__, m.name, "R", type(e).__name__, conv, E))
    model = core.run_driver("decode", [f"{py} {fn} {core.hx(t)}" for py, fn, t, *_ in ops])
    emodel = core.run_driver("encode", [f"{py} {fn} m:{en}:{mn}" for py, fn, en, mn, *_ in enc_ops])
    ctx.info["rule"] = ("every function of every subunit class x (every member text of its enumeration(s), near-misses of each, every distinct "
                        "recorded value for that (subunit, function), seeded random strings incl. numeric edge syntax); plus to_str of every member; "
                        "a case = (class, function, text); non-trivial = distinct (converter shape, text) pairs")
    disagree = []
    for (py, fn, t, rk, rv, conv, tag), m in zip(ops, model):
        ctx.case((fn, t))
        ctx.count("text:" + tag)
        ctx.count("real:" + rk)
        binding, eq = model_matches(m, rk, rv)
        ctx.count("model:" + (m.split(" ")[0] if not m.startswith("OK") else "ok") + ("" if binding else "(informational)"))
        if binding and not eq:
            disagree.append((py, fn, t, rk, show_real(rv) if rk == "OK" else rv, m))
        # ---- monitor (independent of the model)
        es = conv_enums(conv, [])
        if isinstance(conv, C.EnumConverter):
            E = conv.datatype
            want = None
            for mem in E.__members__.values():
                if mem.value == t:
                    want = mem
                    break
            if rk != "OK":
                ctx.violation(f"decoding {t!r} for {py}.{fn} raises {rv}: enumerated decoding must be total",
                              {"class": py, "function": fn, "text": t, "real": [rk, str(rv)]}, {"kind": "raises", "function": fn})
            elif want is not None and rv is not want:
                ctx.violation(f"decoding {t!r} for {py}.{fn} gives {rv!r}, not the member with that wire text",
                              {"class": py, "function": fn, "text": t, "real": show_real(rv)}, {"kind": "wrong-member", "function": fn})
            elif want is None and getattr(rv, "name", None) != "UNKNOWN":
                ctx.violation(f"decoding {t!r} for {py}.{fn} gives {rv!r}, expected the UNKNOWN member",
                              {"class": py, "function": fn, "text": t, "real": show_real(rv)}, {"kind": "not-unknown", "function": fn})
        elif isinstance(conv, C.MultiConverter) and es and not any(ch.isdigit() for ch in t) and t.strip().lstrip("+-").lower() not in ("inf", "infinity", "nan"):
            # enumerated-or-numeric function: a text without any digit cannot be a number, so the enumeration decides
            want = [mem for E in es for mem in E.__members__.values() if mem.value == t]
            if rk != "OK":
                ctx.violation(f"decoding {t!r} for {py}.{fn} raises {rv}: enumerated decoding must be total",
                              {"class": py, "function": fn, "text": t, "real": [rk, str(rv)]}, {"kind": "raises", "function": fn})
            elif want and not any(rv is w for w in want):
                ctx.violation(f"decoding {t!r} for {py}.{fn} gives {rv!r}, not the member with that wire text",
                              {"class": py, "function": fn, "text": t, "real": show_real(rv)}, {"kind": "wrong-member", "function": fn})
            elif not want and getattr(rv, "name", None) != "UNKNOWN":
                ctx.violation(f"decoding {t!r} for {py}.{fn} gives {rv!r}, expected the UNKNOWN member",
                              {"class": py, "function": fn, "text": t, "real": show_real(rv)}, {"kind": "not-unknown", "function": fn})
        elif isinstance(conv, C.StrConverter):
            if rk != "OK" or rv != t or type(rv) is not str:
                ctx.violation(f"text function {py}.{fn} does not pass {t!r} through unchanged",
                              {"class": py, "function": fn, "text": t, "real": [rk, str(rv)]}, {"kind": "str", "function": fn})
        if tag == "recorded":
            if es and isinstance(conv, C.EnumConverter):
                if rk != "OK" or getattr(rv, "name", "UNKNOWN") == "UNKNOWN" or conv.to_str(rv) != t:
                    ctx.violation(f"recorded value {t!r} of {py}.{fn} does not decode to a proper member that re-encodes identically",
                                  {"class": py, "function": fn, "text": t, "real": [rk, str(rv)]}, {"kind": "recorded-enum", "function": fn})
            else:
                import re
                if re.fullmatch(r"[+-]?[0-9]+(\.[0-9]*)?", t) and not isinstance(conv, C.StrConverter):
                    ok = rk == "OK" and isinstance(rv, (int, float)) and not isinstance(rv, bool) and Fraction(rv) == Fraction(float(Fraction(t))) \
                        and (not isinstance(rv, int) or Fraction(rv) == Fraction(t))
                    if not ok:
                        ctx.violation(f"recorded numeric literal {t!r} of {py}.{fn} does not decode to exactly that number",
                                      {"class": py, "function": fn, "text": t, "real": [rk, str(rv)]}, {"kind": "recorded-num", "function": fn})
    for (py, fn, en, mn, rk, rv, conv, E), m in zip(enc_ops, emodel):
        ctx.case(("enc", fn, en, mn))
        ctx.count("encode-member")
        want = "S " + core.hx(rv) if rk == "S" and isinstance(rv, str) else "R"
        if m != "U" and m != want:
            disagree.append((py, fn, f"{en}.{mn}", rk, rv, m))
        if mn != "UNKNOWN" and isinstance(conv, C.EnumConverter):
            mem = E[mn]
            try:
                back = conv.to_value(conv.to_str(mem))
            except Exception as e:  # noqa: BLE001
                back = e
            if back is not mem:
                ctx.violation(f"{py}.{fn}: member {en}.{mn} does not round-trip (got {back!r})",
                              {"class": py, "function": fn, "member": f"{en}.{mn}"}, {"kind": "roundtrip", "function": fn})
    # distinct members have distinct wire texts (every enumeration used by any function)
    seenE = set()
    for *_x, conv, E in enc_ops:
        if E in seenE:
            continue
        seenE.add(E)
        vals = [m.value for m in E.__members__.values()]
        if len(set(vals)) != len(vals):
            ctx.violation(f"enumeration {E.__name__} has two members with the same wire text", {"enum": E.__name__}, {"kind": "dup"})
    ctx.cov["enumerations_checked"] = len(seenE)
    ctx.cov["disagreements_model_vs_impl"] = len(disagree)
    for i in range(0, len(ops), max(1, len(ops) // 8)):
        py, fn, t, rk, rv, conv, tag = ops[i]
        ctx.sample({"class": py, "function": fn, "text": t, "kind": tag, "real": show_real(rv) if rk == "OK" else f"raises {rv}", "model": model[i]})
    if disagree and not ctx.violations:
        d = disagree[0]
        ctx.correspondence_broken("decode/encode vs converter.to_value/to_str",
                                  {"count": len(disagree), "first": {"class": d[0], "function": d[1], "input": d[2], "real": [d[3], str(d[4])], "model": d[5]}})
    from .. import b2check, gen
    b2check.run_b2(ctx, lambda rng_, th: [(gen.conv_race(rng_, T), rng_.randrange(10 ** 9), 0) for _ in range(10000 if th else 300)], ["C04r"],
                   label="concurrent decoding through the shared class-level converters", accept=False)
    ctx.info["exhaustive"] = False
    ctx.assumptions += [
        "Python float()/int() on plain decimal literals are exact/correctly rounded (CPython); exotic numeric syntax is informational only",
        "Enum lookup and the _missing_ protocol of the standard library",
        "recordings are read by the harness's own reader (not ynca.server)",
    ]
    return ctx.finish()


def replay(ctx, path):
    rp = json.load(open(path))["replay"]
    if rp.get("path") == "b2":
        from .. import b2check
        return b2check.replay_b2(rp, ["C04r"])
    cls = subunit_class(rp["class"])
    T = core.tables()
    attr = next(f["attr"] for c in T["classes"] if c["py"] == rp["class"] for f in c["fns"] if f["name"] == rp["function"])
    conv = getattr(cls, attr).converter
    if "text" in rp:
        try:
            r = conv.to_value(rp["text"])
        except Exception as e:  # noqa: BLE001
            r = f"raises {type(e).__name__}"
        print("impl :", repr(r))
        print("model:", core.run_driver("decode", [f"{rp['class']} {rp['function']} {core.hx(rp['text'])}"])[0])
    return 0
