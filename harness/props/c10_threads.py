"""C10 (c): hostile device output through the real reader thread — a plain connection with a registered callback, and a full
YncaApi.initialize() during whose start-up dialogue the receiver volunteers lines the library has no use for (unknown subunit ids with
AVAIL/VERSION/..., unknown functions, undecodable values, malformed lines, invalid UTF-8, 100 kB lines).  Monitor only (C10 is not an L4
property; the same runs' connection-level behaviour is validated by the acceptor in the C01/C09/C14 checks)."""
from __future__ import annotations

from .. import b2check, core, gen


def jobs_conn(rng, thorough):
    T = core.tables()
    return [(gen.conn_hostile(rng, T), rng.randrange(10 ** 9), rng.choice([0, 0, 3])) for _ in range(6000 if thorough else 150)]


def jobs_api(rng, thorough):
    T = core.tables()
    return [(gen.api_init_hostile(rng, T), rng.randrange(10 ** 9), rng.choice([0, 0, 3])) for _ in range(8000 if thorough else 250)]


def run(ctx, T):
    b2check.run_b2(ctx, jobs_conn, ["C10", "C09"], label="hostile lines, connection level", accept=False)
    b2check.run_b2(ctx, jobs_api, ["C10"], label="hostile lines during YncaApi.initialize()", accept=False)
