"""C10 (c): hostile device output through the real reader thread — a plain connection with a registered callback, and a full
YncaApi.initialize() during whose start-up dialogue the receiver volunteers lines the library has no use for (unknown subunit ids with
AVAIL/VERSION/..., unknown functions, undecodable values, malformed lines, invalid UTF-8, 100 kB lines).  Monitor only (C10 is not an L4
property; the same runs' connection-level behaviour is validated by the acceptor in the C01/C09/C14 checks)."""
from __future__ import annotations

from .. import b2check, core, gen


def jobs_conn(rng, thorough):
    T = core.tables()
    return [(gen.conn_hostile(rng, T), rng.randrange(10 ** 9), rng.choice([0, 0, 3])) for _ in range(6000 if thorough else 150)]


def jobs_api(rng, thorough):
    T = core.tables()
    return [(gen.api_init_hostile(rng, T), rng.randrange(10 ** 9), rng.choice([0, 0, 3])) for _ in range(8000 if thorough else 250)]


def jobs_api_ctor(rng, thorough):
    """the receiver volunteers ordinary and hostile lines while another thread is anywhere inside a constructor of the library (subunit objects
    are constructed on the live connection during initialize()): thread switches between any two bytecodes of every __init__, with the
    preempted thread held back so that lines do arrive in between"""
    T = core.tables()
    out = []
    for _ in range(8000 if thorough else 200):
        spec = gen.api_init_hostile(rng, T)
        # plain reports for the subunits that are being constructed, every 40 ms during the first seconds
        present = spec.get("present") or []
        t = 0.9
        extra = []
        for k in range(60):
            su = rng.choice(["SYS", "MAIN"] + list(present))
            extra.append([round(t, 3), f"@{su}:{rng.choice(['PWR=On', 'VOL=-30.0', 'MUTE=Off', 'INP=HDMI1', 'MODELNAME=X', 'AVAIL=Ready'])}"])
            t += rng.choice([0.02, 0.04, 0.1])
        spec["device"]["unsolicited"] = sorted(list(spec["device"].get("unsolicited", [])) + extra, key=lambda x: x[0])
        spec["hot"] = "__init__"
        spec["hot_budget"] = rng.choice([20, 60])
        spec["stall"] = {"prob": 0.8, "us": [5000, 30000, 70000]}
        out.append((spec, rng.randrange(10 ** 9), 0))
    return out


def run(ctx, T):
    b2check.run_b2(ctx, jobs_conn, ["C10", "C09"], label="hostile lines, connection level", accept=False)
    b2check.run_b2(ctx, jobs_api, ["C10"], label="hostile lines during YncaApi.initialize()", accept=False)
    b2check.run_b2(ctx, jobs_api_ctor, ["C10"], label="lines arriving while another thread is inside a constructor of the library", accept=False)
