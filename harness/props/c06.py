"""C06 — subunit initialisation asks each query once, returns only after the sync reply
Lean: Props/C06.lean.  Tie: B2 — every subunit class initialised on a live connection against devices answering random subsets of functions, unsolicited traffic, latencies up to beyond the time-out, silent devices; monitor + L4 trace acceptor on the connection-level events of the same runs."""
from __future__ import annotations

import json

from .. import b2check, core, gen

RECS = ["R-N500", "RX-A2A", "RX-A6A", "RX-A810", "RX-V1067", "RX-V2067", "RX-V473", "RX-V475", "RX-V500D", "RX-V583", "RX-V685", "TSR-700"]


jobs_cache = []


def jobs(rng, thorough):
    T = core.tables()
    out = jobs_cache
    del out[:]
    for _ in range(30000 if thorough else 400):
        out.append((gen.subunit_init(rng, T), rng.randrange(10 ** 9), rng.choice([0, 0, 3, 6])))
    return out


def synthetic_pass(ctx):
    """user-defined subclasses of the bundled classes (re-declared / added functions): the GETs of a real initialize() against an independent
    statement of the property (harness/synth.py)"""
    from .. import synth
    from ..realobj import subunit_class
    T = core.tables()
    n = 0
    for rep in range(6 if ctx.tier == "thorough" else 1):
        for c in T["classes"]:
            base = subunit_class(c["py"])
            for what, cls in [(f"{c['py']}: the bundled class itself", base)] + synth.variants(ctx.rng, base):
                gets, exc, sid = synth.init_gets(cls)
                want = [(sid, q) for q in synth.expected_queries(cls)] + [("SYS", "VERSION")]
                ctx.case(("synthetic", what))
                ctx.count("synthetic_classes")
                n += 1
                if exc is not None:
                    ctx.violation(f"{what}: initialize() raised {type(exc).__name__}: {exc} although the sync query was answered at once",
                                  {"path": "synthetic", "what": what}, {"kind": "synthetic-raises"})
                elif gets != want:
                    dup = sorted({g for g in gets if gets.count(g) > 1})
                    extra = [g for g in gets if g not in want]
                    missing = [g for g in want if g not in gets]
                    ctx.violation(f"{what}: initialize() requested {len(gets)} GETs, expected {len(want)}"
                                  + (f"; requested more than once: {dup}" if dup else "") + (f"; must not be requested: {extra}" if extra else "")
                                  + (f"; missing: {missing}" if missing else "") + ("" if dup or extra or missing else "; order differs"),
                                  {"path": "synthetic", "what": what, "gets": gets, "expected": want}, {"kind": "synthetic-queries"})
    ctx.cov["synthetic_subclasses_initialised"] = n


def run(ctx: core.Ctx):
    ctx.lean_stage(extra_props=("C06b", "C06c", "Tie"))
    synthetic_pass(ctx)
    results = b2check.run_b2(ctx, jobs, ["C06", "L5run"], label="subunit initialisation")
    b2check.l5_fold(ctx, results, "SubunitBase.initialize()")
    ctx.info["rule"] = ("23 classes x devices answering a random subset of functions with valid values, unsolicited reports, latencies 0..1 s, devices that never answer the sync query or fall silent; each under a seeded schedule, some with extra line-level preemptions; a case = one schedule; non-trivial = distinct (spec, seed)")
    return ctx.finish()


def replay(ctx, path):
    rp = json.load(open(path))["replay"]
    if rp.get("path") == "synthetic":
        print(json.dumps(rp, indent=1))
        return 1
    return b2check.replay_b2(rp, ["C06"])
