"""C06 — subunit initialisation asks each query once, returns only after the sync reply
Lean: Props/C06.lean.  Tie: B2 — every subunit class initialised on a live connection against devices answering random subsets of functions, unsolicited traffic, latencies up to beyond the time-out, silent devices; monitor + L4 trace acceptor on the connection-level events of the same runs."""
from __future__ import annotations

import json

from .. import b2check, core, gen

RECS = ["R-N500", "RX-A2A", "RX-A6A", "RX-A810", "RX-V1067", "RX-V2067", "RX-V473", "RX-V475", "RX-V500D", "RX-V583", "RX-V685", "TSR-700"]


jobs_cache = []


def jobs(rng, thorough):
    T = core.tables()
    out = jobs_cache
    del out[:]
    for _ in range(30000 if thorough else 400):
        out.append((gen.subunit_init(rng, T), rng.randrange(10 ** 9), rng.choice([0, 0, 3, 6])))
    return out


def run(ctx: core.Ctx):
    ctx.lean_stage(extra_props=("C06b", "C06c", "Tie"))
    results = b2check.run_b2(ctx, jobs, ["C06", "L5run"], label="subunit initialisation")
    b2check.l5_fold(ctx, results, "SubunitBase.initialize()")
    ctx.info["rule"] = ("23 classes x devices answering a random subset of functions with valid values, unsolicited reports, latencies 0..1 s, devices that never answer the sync query or fall silent; each under a seeded schedule, some with extra line-level preemptions; a case = one schedule; non-trivial = distinct (spec, seed)")
    return ctx.finish()


def replay(ctx, path):
    return b2check.replay_b2(json.load(open(path))["replay"], ["C06"])
