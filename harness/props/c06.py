"""C06 — subunit initialisation asks each query once, returns only after the sync reply
Lean: Props/C06.lean.  Tie: B2 — every subunit class initialised on a live connection against devices answering random subsets of functions, unsolicited traffic, latencies up to beyond the time-out, silent devices; monitor + L4 trace acceptor on the connection-level events of the same runs."""
from __future__ import annotations

import json

from .. import b2check, core, gen

RECS = ["R-N500", "RX-A2A", "RX-A6A", "RX-A810", "RX-V1067", "RX-V2067", "RX-V473", "RX-V475", "RX-V500D", "RX-V583", "RX-V685", "TSR-700"]


jobs_cache = []


def jobs(rng, thorough):
    T = core.tables()
    out = jobs_cache
    del out[:]
    for _ in range(30000 if thorough else 400):
        out.append((gen.subunit_init(rng, T), rng.randrange(10 ** 9), rng.choice([0, 0, 3, 6])))
    return out


def run(ctx: core.Ctx):
    ctx.lean_stage(extra_props=("C06b",))
    results = b2check.run_b2(ctx, jobs, ["C06", "L5run"], label="subunit initialisation")
    # tie of the L5 dialogue model: every eligible run (one object, receiver = function of the command text) must be a run of the model
    l5 = [r.get("l5") or {"l5": "SKIP", "why": "no verdict"} for r in results]
    for v in l5:
        ctx.count("l5:" + v["l5"] + (":" + str(v.get("why")) if v["l5"] == "SKIP" else ""))
    ctx.cov["l5_runs_accepted_by_dialogue_model"] = sum(1 for v in l5 if v["l5"] == "ACCEPT")
    rej = [(j, v) for j, v in zip(jobs_cache, l5) if v["l5"] == "REJECT"]
    ctx.cov["l5_runs_rejected_by_dialogue_model"] = len(rej)
    if rej and not ctx.violations:
        (spec, seed, pre), v = rej[0]
        ctx.correspondence_broken("L5 dialogue model: a real initialize() run is not a run of the model", {"count": len(rej), "first": {"spec": spec, "seed": seed, "preempt": pre, "verdict": v}})
    ctx.info["rule"] = ("23 classes x devices answering a random subset of functions with valid values, unsolicited reports, latencies 0..1 s, devices that never answer the sync query or fall silent; each under a seeded schedule, some with extra line-level preemptions; a case = one schedule; non-trivial = distinct (spec, seed)")
    return ctx.finish()


def replay(ctx, path):
    return b2check.replay_b2(json.load(open(path))["replay"], ["C06"])
