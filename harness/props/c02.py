"""C02 — received bytes are framed and parsed identically however they are chunked.

Lean: Props/C02.lean (chunk independence, framing round trip for every list of lines, UTF-8 never produces a
terminator, the parse theorem for every S, F and ANY V, status literals).
Tie: B1 — the real `YncaProtocol.data_received` (pyserial Packetizer + LineReader + handle_line) fed with random
partitions vs `ynca_model frame`; the real `handle_line` vs the model's `parseLine` on an adversarial alphabet.
Monitor: independent oracle with bytes.split / str.partition."""
from __future__ import annotations

import json

from .. import core

ADV = ["@", ":", "=", "\n", "\r", "a", "é", "𝄞", " ", "S", "Y", "."]
VALUES = ["", "1", "-30.5", "a:b", "a=b", "=:=", "::", "==", "Ünïcödé", "𝄞𝄞", "a\rb", "a\nb", "\n", "\r", "\n\r", "x" * 10000, "@", "@A:B=C",
          "tab\there", "\x00", "\x7f", " ", "é" * 50]


def msg_str(status, su, fn, val):
    o = lambda x: "~" if x is None else core.hx(x)  # noqa: E731
    return f"{status} {o(su)} {o(fn)} {o(val)}"


def oracle_line(text):
    """what the property says about a complete line, or None if it only demands 'exactly one notification'"""
    if text == "@UNDEFINED":
        return ("UNDEFINED", None, None, None)
    if text == "@RESTRICTED":
        return ("RESTRICTED", None, None, None)
    if text.startswith("@"):
        s, sep, rest = text[1:].partition(":")
        if sep and s:
            f, sep2, v = rest.partition("=")
            if sep2 and f:
                return ("OK", s, f, v)
    return None


def gen_lines(rng, T):
    n = rng.choice([0, 1, 2, 5, 20])
    lines = []
    for _ in range(n):
        r = rng.random()
        if r < 0.6:
            c = rng.choice(T["classes"])
            f = rng.choice(c["fns"])
            su = rng.choice([c["id"], c["id"], "X", "ÄB", "a=b"])
            fn = rng.choice([f["name"], f["name"], "F:G", "ÖÖ", "f"])
            lines.append(f"@{su}:{fn}={rng.choice(VALUES)}")
        elif r < 0.7:
            lines.append(rng.choice(["@UNDEFINED", "@RESTRICTED"]))
        elif r < 0.9:
            lines.append("".join(rng.choice(ADV) for _ in range(rng.randint(0, 10))))
        else:
            lines.append(rng.choice(["", "@", "@:", "@a", "@a:", "@a:b", "@:b=c", "@a:=c", "x@a:b=c", "@UNDEFINED ", "@RESTRICTED:x=y", "garbage"]))
    lines = [l.replace("\r\n", "\r \n") for l in lines]
    return lines


def partition(rng, data: bytes):
    if not data:
        return [b""] if rng.random() < 0.5 else []
    style = rng.random()
    if style < 0.15:
        return [data]
    if style < 0.3:
        return [data[i:i + 1] for i in range(len(data))] if len(data) < 4000 else [data]
    k = rng.randint(1, min(12, len(data)))
    cuts = sorted(rng.sample(range(len(data) + 1), k))
    # favour cuts inside CR LF and inside multi-byte characters
    for i in range(len(data) - 1):
        if data[i] == 13 and data[i + 1] == 10 and rng.random() < 0.3:
            cuts.append(i + 1)
        if data[i] >= 0xC0 and rng.random() < 0.1:
            cuts.append(i + 1)
    cuts = sorted(set(cuts))
    out, pos = [], 0
    for c in cuts + [len(data)]:
        out.append(data[pos:c])
        pos = c
    if rng.random() < 0.2:
        out.insert(rng.randrange(len(out) + 1), b"")
    return out


def thread_jobs(rng, thorough):
    from .. import gen
    T = core.tables()
    return [(gen.conn_chunked(rng, T), rng.randrange(10 ** 9), rng.choice([0, 0, 3])) for _ in range(8000 if thorough else 200)]


def run(ctx: core.Ctx):
    ctx.lean_stage(extra_props=("C02x",))
    T = core.tables()
    rng = ctx.rng
    thorough = ctx.tier == "thorough"
    from ynca.connection import YncaProtocol, YncaProtocolStatus

    names = {YncaProtocolStatus.OK: "OK", YncaProtocolStatus.UNDEFINED: "UNDEFINED", YncaProtocolStatus.RESTRICTED: "RESTRICTED"}
    n_streams = 100000 if thorough else 1500
    ops, real_out, metas = [], [], []
    disagreements = []
    for sno in range(n_streams):
        malformed = rng.random() < 0.15
        if malformed:
            data = bytes(rng.choice([13, 10, 64, 58, 61, 0xC3, 0xA9, 0xF0, 0x9D, 0x84, 0x9E, 65, 0xFF, 0x80]) for _ in range(rng.randint(0, 60)))
            lines = None
            tail = None
        else:
            lines = gen_lines(rng, T)
            tail = rng.choice(["", "", "@MAIN:VOL=", "@MAIN:VOL=-3\r", "incompl", "é"]).replace("\r\n", "")
            raw_lines = [l.encode("utf-8") for l in lines]
            if rng.random() < 0.25:
                # line noise: a complete line that is not valid UTF-8 somewhere in the stream — the lines after it (non-ASCII ones too) are
                # lines like any other
                for _ in range(rng.randint(1, 2)):
                    raw_lines.insert(rng.randrange(0, len(raw_lines) + 1), rng.choice([b"@MAIN:ZONENAME=\xff\xfe", b"\xc3", b"@SYS:INPNAMEUSB=\xe9t\xe9", b"@MAIN:VOL=\x80-3", b"\xf0\x9d\x84"]))
                raw_lines.append("@MAIN:ZONENAME=Café ÄÖ 𝄞".encode("utf-8"))
                ctx.count("stream:with-invalid-utf8-line")
            data = b"".join(l + b"\r\n" for l in raw_lines) + tail.encode("utf-8")
        chunks = partition(rng, data)
        assert b"".join(chunks) == data
        got = []
        proto = YncaProtocol(lambda st, su, fn, v: got.append((names[st], su, fn, v)), None, 0)
        ops.append("reset")
        real_out.append("ok")
        metas.append(None)
        exc = None
        for ch in chunks:
            n0 = len(got)
            try:
                proto.data_received(ch)
            except Exception as e:  # noqa: BLE001
                exc = e
                break
            ops.append("chunk " + (ch.hex() if ch else "-"))
            real_out.append(" | ".join("L " + msg_str(*g) for g in got[n0:]) or "-")
            metas.append((sno, ch[:40]))
        ops.append("buffer")
        real_out.append(bytes(proto.buffer).hex() or "-")
        metas.append((sno, "buffer"))
        ctx.case(("stream", data[:200], tuple(len(c) for c in chunks)[:20]))
        ctx.count("stream:malformed" if malformed else "stream:lines")
        ctx.count(f"chunks:{min(len(chunks), 10)}")
        # ---- monitor
        parts = data.split(b"\r\n")
        complete, rest = parts[:-1], parts[-1]
        what = None
        if exc is not None:
            what = f"data_received raised {type(exc).__name__}: {exc}"
        elif len(got) != len(complete):
            what = f"{len(got)} notifications for {len(complete)} complete lines"
        elif bytes(proto.buffer) != rest:
            what = f"buffer holds {bytes(proto.buffer)[:40]!r}, the incomplete trailing line is {rest[:40]!r}"
        else:
            for raw, g in zip(complete, got):
                text = raw.decode("utf-8", "replace")
                exp = oracle_line(text)
                if exp is not None:
                    ctx.count("line:in-domain")
                    if g != exp:
                        what = f"line {text[:60]!r} reported as {g!r}, expected {exp!r}"
                        break
                else:
                    ctx.count("line:other(one notification)")
        if what:
            ctx.violation(f"stream #{sno}: {what}", {"data_hex": data[:6000].hex(), "chunks": [len(c) for c in chunks][:200]},
                          {"kind": what.split(" ")[0][:20]})
            if len(ctx.violations) >= 4:
                break
        if sno < 4:
            ctx.sample({"lines": lines and [l[:40] for l in lines[:4]], "tail": tail, "chunk_sizes": [len(c) for c in chunks][:12]})
    # ---- regex vs parseLine on an adversarial alphabet (real handle_line, no framing)
    n_re = 1000000 if thorough else 20000
    got = []
    proto = YncaProtocol(lambda st, su, fn, v: got.append((names[st], su, fn, v)), None, 0)
    for _ in range(n_re):
        ln = "".join(rng.choice(ADV) for _ in range(rng.randint(0, 9)))
        if rng.random() < 0.3:
            ln = "@" + ln
        if rng.random() < 0.02:
            ln = rng.choice(["@UNDEFINED", "@RESTRICTED"]) + rng.choice(["", "", " ", "\n", ":a=b"])
        got.clear()
        try:
            proto.handle_line(ln)
        except Exception as e:  # noqa: BLE001
            ctx.violation(f"handle_line({ln!r}) raised {type(e).__name__}: {e} (in the reader thread this ends the connection)", {"line": ln}, {"kind": "raises"})
            got.append(("EXC", None, None, None))
        ops.append("line " + core.hx(ln))
        real_out.append(msg_str(*got[0]) if len(got) == 1 else f"{len(got)} notifications")
        metas.append(("line", ln))
        ctx.case(("line", ln))
        exp = oracle_line(ln)
        if len(got) != 1:
            ctx.violation(f"line {ln!r}: {len(got)} notifications", {"line": ln}, {"kind": "count"})
        elif exp is not None and got[0] != exp:
            ctx.violation(f"line {ln!r} reported as {got[0]!r}, expected {exp!r}", {"line": ln}, {"kind": "parse"})
    model = core.run_driver("frame", ops)
    for i, (op, r, m) in enumerate(zip(ops, real_out, model)):
        if " X " in (" " + m) or m.startswith("X "):
            ctx.count("model:invalid-utf8(informational)")
            # compare only the positions of valid lines: the count of packets must still agree
            if len(r.split(" | ")) != len(m.split(" | ")) and r != "-":
                disagreements.append({"op_index": i, "op": op[:200], "real": r[:200], "model": m[:200]})
            continue
        if r != m:
            disagreements.append({"op_index": i, "op": op[:200], "meta": str(metas[i])[:200], "real": r[:300], "model": m[:300]})
    ctx.info["rule"] = ("streams of 0..20 YNCA lines (table names and adversarial names, values from a list incl. empty, ':'/'='-rich, multi-byte, bare CR, "
                        "bare LF, 10 kB) plus an unterminated tail, and a malformed stream (random bytes, invalid UTF-8), each under a random partition "
                        "(single bytes, cuts inside CR LF and multi-byte characters, empty reads); plus single lines over the alphabet "
                        f"{ADV!r}; a case = a (stream, partition) or a line; non-trivial = distinct ones")
    ctx.cov["streams"] = n_streams
    ctx.cov["regex_lines"] = n_re
    ctx.cov["disagreements_model_vs_impl"] = len(disagreements)
    if disagreements and not ctx.violations:
        ctx.correspondence_broken("framing/parse model vs YncaProtocol.data_received / handle_line", {"count": len(disagreements), "first": disagreements[0]})
    ctx.assumptions += ["bytes.decode('utf-8','replace') on invalid input is not modelled (such packets are compared by count only)",
                        "CPython's re engine implements the documented semantics of the pattern"]
    from .. import b2check, gen
    b2check.run_b2(ctx, thread_jobs, ["C02t"], label="chunked arrival through the real reader thread", accept=False)
    b2check.run_b2(ctx, lambda rng, th: [(gen.with_second(rng, gen.conn_chunked(rng, T)), rng.randrange(10 ** 9), rng.choice([0, 3])) for _ in range(3000 if th else 80)],
                   ["C02two"], label="a second connection with its own traffic alive in the same process (first connection's callback judged)", accept=False)
    b2check.run_b2(ctx, lambda rng, th: [(gen.conn_reg_race(rng), rng.randrange(10 ** 9), 0) for _ in range(6000 if th else 400)], ["C09"],
                   label="every REGISTERED callback: several threads (un)register callbacks at the same instant while lines are delivered (bytecode-level switches in the registration), monitor only", accept=False)
    b2check.run_b2(ctx, lambda rng, th: [(gen.conn_reconnect(rng, T), rng.randrange(10 ** 9), rng.choice([0, 0, 3])) for _ in range(4000 if th else 120)],
                   ["C02r"], label="connect() again on the same connection object after a close() / a lost link that left a partial line", accept=False)
    return ctx.finish()


def replay(ctx, path):
    rp = json.load(open(path))["replay"]
    if rp.get("path") == "b2":
        from .. import b2check
        return b2check.replay_b2(rp, ["C02r" if rp["spec"].get("reconnect_device") else ("C02two" if rp["spec"].get("second") else ("C09" if rp["spec"].get("hot") else "C02t"))])
    from ynca.connection import YncaProtocol
    p = YncaProtocol(lambda *a: print("impl callback:", a), None, 0)
    if "line" in rp:
        p.handle_line(rp["line"])
        print("model:", core.run_driver("frame", ["line " + core.hx(rp["line"])])[0])
    else:
        data = bytes.fromhex(rp["data_hex"])
        pos = 0
        for n in rp["chunks"]:
            p.data_received(data[pos:pos + n])
            pos += n
        print("model:", core.run_driver("frame", ["chunk " + (data.hex() or "-"), "buffer"]))
    return 0
