"""C03 — an attribute always reads the decoding of the last value the device reported.

Lean: Props/C03.lean (C03_read_is_last for every history and every well-formed class table, frame lemma,
nothing transmitted).  Tie: A + B1 — real subunit objects of all classes on one stub connection vs
`ynca_model subunit`, every attribute of every object compared after every message.
Monitor: independent oracle (dict of last decodable value per (subunit id, function))."""
from __future__ import annotations

import json

from .. import core
from ..l3 import L3Session, show_real


def value_for(rng, T, f, undecodable_ok=True):
    """a value text for function table entry f: mostly valid"""
    conv = f["conv"]
    kinds = [conv] if conv["k"] != "multi" else conv["items"]
    k = rng.choice(kinds)
    r = rng.random()
    if k["k"] == "enum":
        mem = T["enums"][k["enum"]]["members"]
        if r < 0.85:
            return rng.choice(mem)[1]
        # (non-ASCII near-misses only for pure enumerations: a numeric converter in front would make the model silent)
        return rng.choice(["", "Bogus", "on", "On ", rng.choice(mem)[1] + "x"] + (["Ｏn"] if conv["k"] == "enum" else []))
    if k["k"] == "str":
        return rng.choice(["", "Living Room", "a:b=c", "ÄÖÜ ß", "𝄞 tune", "@x", "x" * rng.randint(1, 40), "12", " lead", "= =", "two\nlines", "trail ",
                           # texts that mean something in the protocol when they stand elsewhere: as a reported value they are just text
                           "?", "Up", "Down", "@UNDEFINED", "@RESTRICTED", "=?", "None", "null", "0", "-", "Mute", "Auto"])
    if k["k"] in ("int", "intOrNone"):
        if r < 0.85 or not undecodable_ok:
            return str(rng.randint(-300, 300))
        return rng.choice(["", "Auto", "Auto Up", "abc", "--", "1.5", "12."])
    if k["k"] == "float":
        if r < 0.85 or not undecodable_ok:
            return rng.choice([f"{rng.randint(-805, 165) / 10:.1f}", f"{rng.randint(8750, 10800) / 100:.2f}", str(rng.randint(-80, 16)), "-0.0", "16.5"])
        return rng.choice(["", "Auto Down", "Auto Up", "abc", "-", "."])
    return "x"


def gen_history(rng, T, n):
    classes = T["classes"]
    ids = T["consts"]["subunits"]
    hist = []
    for _ in range(n):
        r = rng.random()
        if r < 0.06:
            hist.append((rng.choice(["UNDEFINED", "RESTRICTED"]), None, None, None))
        elif r < 0.14:
            # other subunit ids / unknown functions / foreign functions
            c = rng.choice(classes)
            other = rng.choice(classes)
            f = rng.choice(other["fns"])
            su = rng.choice([c["id"], "FOO", c["id"].lower(), c["id"] + "2", ""])
            fn = rng.choice([f["name"], "NOSUCHFUNC", f["name"].lower(), "BASIC", "VERSION", ""])
            hist.append(("OK", su, fn, value_for(rng, T, f)))
        elif r < 0.16:
            hist.append(("OK", None, None, None))          # a line the regex did not match
        elif r < 0.18:
            c = rng.choice(classes)
            f = rng.choice(c["fns"])
            hist.append((rng.choice(["UNDEFINED", "RESTRICTED"]), c["id"], f["name"], value_for(rng, T, f)))  # error status with fields
        else:
            c = rng.choice(classes)
            f = rng.choice(c["fns"])
            hist.append(("OK", c["id"], f["name"], value_for(rng, T, f)))
    return hist


def wire_jobs(rng, thorough):
    """end to end: the same reads / writes on a real subunit object on a real connection (reader + sender threads under the deterministic
    scheduler), the device reporting values in between; the trace is replayed on the L3 model (harness/wire.py)"""
    from .. import gen
    T = core.tables()
    return [(gen.subunit_wire(rng, T, writes=rng.random() < 0.5), rng.randrange(10 ** 9), 0) for _ in range(20000 if thorough else 400)]


def run(ctx: core.Ctx):
    ctx.lean_stage()
    T = core.tables()
    rng = ctx.rng
    thorough = ctx.tier == "thorough"
    n_hist = 2000 if thorough else 40
    from ynca.connection import YncaProtocolStatus  # noqa: F401

    total_msgs = 0
    disagreements = []
    for hno in range(n_hist):
        S = L3Session()
        for c in T["classes"]:
            S.new(c["py"])
        init = rng.random() < 0.7
        if init:
            for i in range(len(S.objs)):
                S.initialize(i)
            if rng.random() < 0.5:
                # update callbacks that read the attribute they are told about: "at any time" includes the time of the notification
                for i in range(len(S.objs)):
                    S.reg(i, 1)
        n = rng.choice([0, 1, 5, 30, 120, 400]) if not thorough else rng.choice([0, 1, 5, 30, 120, 400, 1000])
        hist = gen_history(rng, T, n)
        # values on which the model is silent (exotic numeric syntax somewhere in the converter chain) stay out of the binding stream
        py_of = {c["id"]: c["py"] for c in T["classes"]}
        fnames = {(c["id"], f["name"]) for c in T["classes"] for f in c["fns"]}
        q = [(i, f"{py_of[su]} {fn} {core.hx(val)}") for i, (st, su, fn, val) in enumerate(hist) if (su, fn) in fnames and val is not None]
        if q:
            for (i, _), vd in zip(q, core.run_driver("decode", [x[1] for x in q])):
                if vd == "U":
                    ctx.count("value:model-unspecified(replaced)")
                    st, su, fn, val = hist[i]
                    hist[i] = (st, su, fn, "Bogus")
        # oracle
        last = {}
        fn_of = {(c["id"], f["name"]): (ci, f) for ci, c in enumerate(T["classes"]) for f in c["fns"]}
        convs = {}
        if init:
            # the synchronous VERSION replies of the initialisations are device reports too
            pass
        for (st, su, fn, val) in hist:
            total_msgs += 1
            if init and rng.random() < 0.03:
                # an object is initialised again in the middle of the history (with or without an answer to the sync query): only what the
                # device reports changes what attributes read
                k = rng.randrange(len(S.objs))
                answered = rng.random() < 0.7
                S.initialize(k, version_reply="1.23" if answered else None)
                if answered:
                    last[("SYS", "VERSION")] = "1.23"
                ctx.count("reinitialize:" + ("answered" if answered else "unanswered"))
            ctx.case((st, su, fn, val))
            ctx.count("status:" + st)
            sent0 = len(S.conn.sent)
            r = S.msg(st, su, fn, val)
            if S.stale:
                st_ = S.stale[0]
                ctx.violation(f"{st_['class']}: an update callback told {st_['function']} = {st_['told']} read the attribute at that moment and got {st_['attribute_reads']}: "
                              "the attribute does not read the most recent value the device reported",
                              {"path": "l3-callback-read", "class": st_["class"], "function": fn, "value": val}, {"kind": "stale-in-callback"})
                S.stale = []
            if r.startswith("EXC"):
                ctx.count("real:exception-in-handler")
            key = (su, fn)
            if st == "OK" and key in fn_of and val is not None:
                ci, f = fn_of[key]
                conv = getattr(type(S.objs[ci]), f["attr"]).converter
                try:
                    last[key] = conv.to_value(val)
                    ctx.count("msg:modelled-decodable")
                except Exception:  # noqa: BLE001
                    ctx.count("msg:modelled-undecodable")
            else:
                ctx.count("msg:not-for-a-modelled-function")
            S.dump()
            # monitor: every readable attribute of every object
            for ci, c in enumerate(T["classes"]):
                obj = S.objs[ci]
                for f in c["fns"]:
                    if not f["get"]:
                        continue
                    got = getattr(obj, f["attr"])
                    want = last.get((c["id"], f["name"]))
                    if init and c["id"] == "SYS" and f["name"] == "VERSION" and (c["id"], f["name"]) not in last:
                        want = "1.23"
                    if not (got == want and type(got) is type(want)):
                        ctx.violation(
                            f"after history #{hno} ({len(S.ops)} ops) {c['py']}.{f['attr']} reads {got!r}, last reported decodable value is {want!r}",
                            {"history": hist[: hist.index((st, su, fn, val)) + 1][-50:], "class": c["py"], "attr": f["attr"], "got": show_real(got), "want": show_real(want),
                             "initialized": init}, {"kind": "stale-or-wrong", "function": f["name"]})
            if len(S.conn.sent) != sent0:
                ctx.violation(f"reading attributes / receiving {st} {su}:{fn} transmitted {S.conn.sent[sent0:]}",
                              {"history": hist[-20:], "sent": [list(x) for x in S.conn.sent[sent0:]]}, {"kind": "transmitted"})
            if len(ctx.violations) >= 3:
                break
        model = S.finish()
        for i, (op, real, m) in enumerate(zip(S.ops, S.real, model)):
            if op.startswith("msg "):
                same = sorted(real.split()) == sorted(m.split())
            else:
                same = real == m
            if not same:
                disagreements.append({"history": hno, "op_index": i, "op": op, "meta": str(S.meta[i]), "real": real[:300], "model": m[:300], "diff": sorted(set(real.split()) ^ set(m.split()))[:6]})
                break
        if hno < 3:
            ctx.sample({"history_len": len(hist), "initialized": init, "first_ops": S.ops[24:30] if len(S.ops) > 30 else S.ops[:6]})
        if len(ctx.violations) >= 3:
            break
    ctx.info["rule"] = ("histories of 0..400 (thorough: ..1000) messages over all (subunit, function) pairs of all 23 classes attached to one stub "
                        "connection: ~80% modelled pairs with mostly valid values, other subunits / unknown functions, error lines, unparsed lines; "
                        "after every message ALL readable attributes of ALL objects are compared with the model and the oracle; a case = one message; "
                        "non-trivial = distinct (status, subunit, function, value)")
    ctx.cov["histories"] = n_hist
    ctx.cov["messages"] = total_msgs
    ctx.cov["disagreements_model_vs_impl"] = len(disagreements)
    if disagreements and not ctx.violations:
        ctx.correspondence_broken("L3 subunit model vs real subunit objects (message handling / attribute reads)", disagreements[0])
    ctx.assumptions += ["subunits are driven through a stub connection exposing register/unregister_message_callback, put, get, num_commands_sent",
                        "values with exotic numeric syntax are not generated in the binding stream (see C04/C10)"]
    # user-defined subclasses: a function re-declared in a subclass (other converter) is the function the subclass models; an added function is
    # modelled too, whichever class of the hierarchy was instantiated first in this process
    from ..realobj import StubConnection, subunit_class
    from ynca.connection import YncaProtocolStatus as _St
    from ynca.converters import StrConverter
    from ynca.function import FunctionMixinBase
    import copy as _copy
    nsyn = 0
    for c in T["classes"]:
        base = subunit_class(c["py"])
        base(StubConnection())                      # the parent class is instantiated first (what a process that uses both would do)
        readable = [f for f in c["fns"] if f["get"]]
        if not readable:
            continue
        f = rng.choice(readable)
        d = getattr(base, f["attr"])
        red = _copy.copy(d)
        red.converter = StrConverter()
        red._name_override = d.name
        extra = _copy.copy(d)
        extra.converter = StrConverter()
        extra._name_override = "ZZEXTRA"
        sub = type("Synth" + c["py"] + "Conv", (base,), {f["attr"]: red, "zzextra": extra})
        for text in ("some text 123", "", "On"):
            conn_ = StubConnection()
            obj_ = sub(conn_)
            nsyn += 1
            ctx.case(("synthetic", c["py"], f["name"], text))
            for fn_, attr_ in ((d.name, f["attr"]), ("ZZEXTRA", "zzextra")):
                try:
                    conn_.deliver(_St.OK, c["id"], fn_, text)
                    got = getattr(obj_, attr_)
                except Exception as e:  # noqa: BLE001
                    got = f"<raised {type(e).__name__}>"
                if got != text:
                    ctx.violation(f"{c['py']} subclass that {'re-declares ' + fn_ + ' as a text function' if fn_ != 'ZZEXTRA' else 'adds the text function ZZEXTRA'}: after the device reported "
                                  f"{fn_}={text!r} the attribute reads {got!r}", {"path": "synthetic", "class": c["py"], "function": fn_, "text": text}, {"kind": "synthetic-subclass"})
    ctx.cov["synthetic_subclass_reads"] = nsyn
    from .. import b2check
    b2check.run_b2(ctx, wire_jobs, ["C03w"], label="end-to-end reads on a real connection", accept=False)
    from .. import b2check as _b2c, gen as _gen
    _b2c.run_b2(ctx, lambda rng_, th: [(_gen.subunit_late(rng_, core.tables()), rng_.randrange(10 ** 9), 0) for _ in range(4000 if th else 120)], ["C03late"],
                label="subunit objects constructed on a live connection while lines are being delivered (bytecode-level switches in the registration and the fan-out); later reports must be readable", accept=False)
    # two objects of the same class on two connections (class-level / module-level state shows here)
    from .. import twin as _twin
    _twin.run(ctx, core.tables(), ctx.rng, "read")
    return ctx.finish()


def replay(ctx, path):
    rp = json.load(open(path))["replay"]
    if rp.get("path") == "b2":
        from .. import b2check
        return b2check.replay_b2(rp, ["C03w"])
    T = core.tables()
    S = L3Session()
    for c in T["classes"]:
        S.new(c["py"])
    if rp.get("initialized"):
        for i in range(len(S.objs)):
            S.initialize(i)
    for st, su, fn, val in rp["history"]:
        S.msg(st, su, fn, val)
    ci = [c["py"] for c in T["classes"]].index(rp["class"])
    print("impl :", S.read(ci, rp["attr"]))
    print("model:", S.finish()[-1])
    return 0
