"""C16 — close() is safe at any time, from any thread, any number of times.
Lean: Props/C16.lean (L4 model).  Tie: B2 — close() at random points of random sessions, from caller threads, from inside
message callbacks and from the disconnect callback, repeated and concurrent; monitor + trace acceptor."""
from __future__ import annotations

import json

from .. import b2check, core, gen


def jobs(rng, thorough):
    n = 40000 if thorough else 500
    out = []
    for _ in range(n):
        out.append((gen.conn_lifecycle(rng), rng.randrange(10 ** 9), rng.choice([0, 0, 3, 6])))
    return out


def run(ctx: core.Ctx):
    ctx.lean_stage()
    b2check.run_b2(ctx, jobs, ["C16"], label="lifecycle scenarios")
    T = core.tables()
    b2check.run_b2(ctx, lambda rng, th: [(gen.api_close_race(rng, T), rng.randrange(10 ** 9), rng.choice([0, 0, 3])) for _ in range(6000 if th else 150)],
                   ["C16"], label="YncaApi.close() from a second thread during / after initialize(), monitor only", accept=False)
    ctx.info["rule"] = ("sessions of two caller threads with bursts, a link drop / EOF / write error / close() inserted at a random position, close() from a caller, "
                        "from inside a message callback, from the disconnect callback, repeated and concurrent, then API calls on the dead connection; each under a "
                        "seeded schedule with 0/3/6 extra line-level preemptions; a case = one schedule; non-trivial = distinct (spec, seed)")
    return ctx.finish()


def replay(ctx, path):
    return b2check.replay_b2(json.load(open(path))["replay"], ["C16"])
