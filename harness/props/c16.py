"""C16 — close() is safe at any time, from any thread, any number of times.
Lean: Props/C16.lean (L4 model).  Tie: B2 — close() at random points of random sessions, from caller threads, from inside
message callbacks and from the disconnect callback, repeated and concurrent; monitor + trace acceptor."""
from __future__ import annotations

import json

from .. import b2check, core, gen


def jobs(rng, thorough):
    n = 40000 if thorough else 500
    out = []
    for _ in range(n):
        out.append((gen.conn_lifecycle(rng), rng.randrange(10 ** 9), rng.choice([0, 0, 3, 6])))
    return out


def subunit_close(ctx, T, rng, n):
    """close() on a subunit from inside one of its own update callbacks, repeated, and before/after initialisation: it returns without raising
    and once it has returned no update callback of that subunit is started any more (not even the rest of the current delivery round)"""
    from ..l3 import L3Session
    from .c03 import value_for
    for sno in range(n):
        c = rng.choice(T["classes"])
        S = L3Session()
        idx = S.new(c["py"])
        obj = S.objs[idx]
        if rng.random() < 0.8:
            S.initialize(idx)
        closer = rng.choice([1, 2, 3, 4])
        state = {"closed": False, "after": [], "exc": None}

        def make(cb):
            def f(fn, value):
                if state["closed"]:
                    state["after"].append(cb)
                if cb == closer and not state["closed"]:
                    try:
                        obj.close()
                        if rng.random() < 0.5:
                            obj.close()
                    except Exception as e:  # noqa: BLE001
                        state["exc"] = e
                    state["closed"] = True
            return f
        for cb in (1, 2, 3, 4):
            obj.register_update_callback(make(cb))
        fs = [f for f in c["fns"] if f["get"]]
        for k in range(rng.randint(1, 4)):
            f = rng.choice(fs)
            r = S.msg("OK", c["id"], f["name"], value_for(rng, T, f, undecodable_ok=False))
            ctx.case(("subunit-close", c["py"], closer, k))
            ctx.count("subunit-close:delivery")
            what = None
            if state["exc"] is not None:
                what = f"close() raised {type(state['exc']).__name__}: {state['exc']}"
            elif r.startswith("EXC"):
                what = f"delivery raised {r[4:]} after a callback closed the subunit"
            elif state["after"]:
                what = f"update callbacks {state['after']} were started after close() had returned"
            if what:
                ctx.violation(f"{c['py']}: close() from inside update callback {closer}: {what}", {"path": "subunit-close", "class": c["py"], "closer": closer},
                              {"kind": what.split(" ")[0][:20], "path": "subunit-close"})
                return
        try:
            obj.close()
        except Exception as e:  # noqa: BLE001
            ctx.violation(f"{c['py']}: repeated close() raised {type(e).__name__}: {e}", {"path": "subunit-close", "class": c["py"]}, {"kind": "raised", "path": "subunit-close"})
            return


def run(ctx: core.Ctx):
    ctx.lean_stage(extra_props=("Tie", "L4Live"))
    b2check.run_b2(ctx, jobs, ["C16"], label="lifecycle scenarios")
    # exhaustive within a bound: every schedule up to 3 (thorough: 5) deviations from the canonical one, on small scenarios
    _small = gen.small_scenarios()
    b2check.run_systematic(ctx, [_small[n] for n in ['close-in-callback', 'concurrent-close', 'link-drop', 'reg-in-callback']], ["C16"], depth=5 if ctx.tier == "thorough" else 3,
                           label="close-in-callback, concurrent-close, link-drop, reg-in-callback", max_runs=60000 if ctx.tier == "thorough" else 6000)
    T = core.tables()
    subunit_close(ctx, T, ctx.rng, 4000 if ctx.tier == "thorough" else 200)
    b2check.run_b2(ctx, lambda rng, th: [(gen.api_close_race(rng, T), rng.randrange(10 ** 9), rng.choice([0, 0, 3])) for _ in range(6000 if th else 150)],
                   ["C16"], label="YncaApi.close() from a second thread during / after initialize(), monitor only", accept=False)
    b2check.run_b2(ctx, lambda rng, th: [(gen.conn_second_session(rng, "close"), rng.randrange(10 ** 9), rng.choice([0, 3])) for _ in range(4000 if th else 100)], ["C16re"],
                   label="connect() again on the same object after close() / a lost link; close() of the second session (monitor only)", accept=False)
    b2check.run_b2(ctx, lambda rng, th: [(gen.conn_two(rng), rng.randrange(10 ** 9), rng.choice([0, 0, 3])) for _ in range(4000 if th else 100)],
                   ["C16two"], label="close() of a second connection from inside a callback of the first, monitor only", accept=False)
    ctx.info["rule"] = ("sessions of two caller threads with bursts, a link drop / EOF / write error / close() inserted at a random position, close() from a caller, "
                        "from inside a message callback, from the disconnect callback, repeated and concurrent, then API calls on the dead connection; each under a "
                        "seeded schedule with 0/3/6 extra line-level preemptions; a case = one schedule; non-trivial = distinct (spec, seed)")
    return ctx.finish()


def replay(ctx, path):
    rp = json.load(open(path))["replay"]
    if rp.get("path") == "subunit-close":
        import random
        from ..l3 import L3Session
        T = core.tables()
        c = next(x for x in T["classes"] if x["py"] == rp["class"])
        S = L3Session()
        obj = S.objs[S.new(c["py"])]
        S.initialize(0)
        started = []

        def make(cb):
            def f(fn, value):
                started.append(cb)
                if cb == rp.get("closer", 1):
                    obj.close()
                    started.append("closed")
            return f
        for cb in (1, 2, 3, 4):
            obj.register_update_callback(make(cb))
        f = next(f for f in c["fns"] if f["get"] and f["conv"]["k"] == "str") if any(f["get"] and f["conv"]["k"] == "str" for f in c["fns"]) else None
        if f:
            print("impl :", S.msg("OK", c["id"], f["name"], "x"), "order of starts:", started)
        return 0
    return b2check.replay_b2(rp, ["C16", "C16two"])
