"""C13 — keep-alive traffic is invisible and swallows nothing else
Lean: Props/C13.lean (L4 model).  Tie: B2 — probes, user MODELNAME queries racing them, unsolicited lines, latencies on both sides of the command spacing; monitor + trace acceptor."""
from __future__ import annotations

import json

from .. import b2check, core, gen


def jobs(rng, thorough):
    n = 80000 if thorough else 600
    out = []
    for _ in range(n):
        out.append((gen.conn_keepalive(rng), rng.randrange(10 ** 9), rng.choice([0, 3, 6, 10])))
    return out


def run(ctx: core.Ctx):
    ctx.lean_stage(extra_props=("C13x", "Tie"))
    b2check.run_b2(ctx, jobs, ["C13"], label="keep-alive scenarios")
    # exhaustive within a bound: every schedule up to 3 (thorough: 5) deviations from the canonical one, on small scenarios
    _small = gen.small_scenarios()
    b2check.run_systematic(ctx, [_small[n] for n in ['traffic', 'own-modelname', 'two-callers']], ["C13"], depth=5 if ctx.tier == "thorough" else 3,
                           label="traffic, own-modelname, two-callers", max_runs=60000 if ctx.tier == "thorough" else 6000)
    b2check.run_b2(ctx, lambda rng, th: [(gen.conn_keepalive_two(rng), rng.randrange(10 ** 9), rng.choice([0, 3])) for _ in range(20000 if th else 250)], ["C13two"],
                   label="a second connection with its own probes and queries alive in the same process (monitor only, first connection judged)", accept=False)
    T = core.tables()
    b2check.run_b2(ctx, lambda rng, th: [(gen.conn_reconnect(rng, T), rng.randrange(10 ** 9), rng.choice([0, 0, 3])) for _ in range(4000 if th else 100)], ["C13re"],
                   label="connect() again on the same connection object after a close() / a lost link that left a partial line: the second session judged (monitor only)", accept=False)
    ctx.info["rule"] = ("probes, user MODELNAME queries racing them, other commands, unsolicited device lines, reply latencies 0..1.2 s, first probe swallowed or not; each under a seeded schedule with extra line-level preemptions; a case = one schedule; "
                        "non-trivial = distinct (spec, seed)")
    return ctx.finish()


def replay(ctx, path):
    rp = json.load(open(path))["replay"]
    return b2check.replay_b2(rp, ["C13two" if rp["spec"].get("second") else ("C13re" if rp["spec"].get("reconnect_device") else "C13")])
