"""C05 — a write sends exactly one canonical PUT and never touches the cache.

Lean: Props/C05.lean.  Tie: A + B1 over every writable attribute and action method of every class
(real descriptor __set__/__get__ and real methods on real objects vs `ynca_model subunit`).
Monitor: independent oracle (member.value, the text, str(int), C11's exact-Fraction oracle, literal
length limits and step texts from the property statement)."""
from __future__ import annotations

from decimal import Decimal
from fractions import Fraction

import enum
import json
import math
from fractions import Fraction

from .. import core
from ..l3 import L3Session, show_real
from . import c11

STEP_TEXTS = {"Up": {"Up", "Up 1 dB", "Up 2 dB", "Up 5 dB"}, "Down": {"Down", "Down 1 dB", "Down 2 dB", "Down 5 dB"}}
LIMITS = {"ZONENAME": 9, "ZONEBNAME": 9}


class Obj:
    def __repr__(self):
        return "object()"


def enum_class(name):
    import ynca.enums as E
    return getattr(E, name)


def kinds_of(conv):
    return [conv] if conv["k"] != "multi" else conv["items"]


def candidate_values(rng, T, f, thorough):
    """(value, validity) pairs; validity in {'valid','invalid','open'} according to the property statement"""
    out = []
    ks = kinds_of(f["conv"])
    kk = [k["k"] for k in ks]
    for k in ks:
        if k["k"] == "enum":
            E = enum_class(k["enum"])
            for m in E:
                out.append((m, "valid"))
    import ynca.enums as En
    foreign = [En.Mute.ON, En.Pwr.STANDBY, En.Input.HDMI1]
    if "enum" in kk:
        names = {k["enum"] for k in ks if k["k"] == "enum"}
        for m in foreign:
            if type(m).__name__ not in names:
                out.append((m, "open"))
    numeric = any(k in ("int", "intOrNone", "float") for k in kk)
    only_enum = all(k == "enum" for k in kk)
    is_str = kk == ["str"]
    if is_str:
        lim = LIMITS.get(f["name"])
        lens = [0, 1, 5] + ([lim - 1, lim, lim + 1, lim + 20] if lim else [9, 10, 64, 300])
        for n in lens:
            s = "".join(rng.choice("abcXYZ 09é𝄞") for _ in range(n))
            out.append((s, "valid" if (lim is None or n <= lim) else "invalid"))
        if lim:
            # too long only through blanks at either end: still longer than the device limit (the limit counts characters)
            core_ = "".join(rng.choice("abcXYZ09") for _ in range(max(1, lim - 2)))
            for s in (core_ + "   ", "   " + core_, " " + core_ + "  ", core_ + "\t\t\t", " " * (lim + 1)):
                out.append((s, "invalid" if len(s) > lim else "valid"))
            # and exactly at the limit with blanks inside / at the ends: valid
            out.append(((" " + core_ + " ")[:lim].ljust(lim), "valid"))
        for v in (5, 1.5, None, True):
            out.append((v, "open"))
    if numeric:
        stepped = f["name"] in c11.SPEC
        ints = [0, 1, -1, 7, -80, 16, 100, rng.randint(-10000, 10000)]
        floats = [0.0, -0.0, 0.5, -30.5, 16.5, 87.5, 87.6, 1234.5, 1005.5, 535.0, 994.9, -0.25, rng.uniform(-1e4, 1e4), round(rng.uniform(-100, 100), 1)]
        for v in ints:
            out.append((v, "valid"))
        for v in floats:
            out.append((v, "valid" if stepped else "open"))      # "writing a NUMBER to a stepped function": also a float to AM frequency
        for v in (True, False):
            out.append((v, "open"))
        for v in ("12", "-3.5", " 7 ", "1e3", "inf", "nan", "1_0"):
            out.append((v, "open"))          # can be read as a number: left open by the property
        for v in ("abc", "", "Auto Up", "--", None, Obj()):
            out.append((v, "invalid" if "enum" not in kk else ("open" if isinstance(v, str) else "invalid")))
        out.append((float("nan"), "open"))
        out.append((float("inf"), "open"))
    if only_enum:
        for v in ("On", "Off", "", 5, 1.5, None, True, Obj()):
            out.append((v, "invalid"))
    return out


def action_argsets(rng, k):
    if k["k"] == "const":
        return [()]
    if k["k"] == "volstep":
        return [(), (0.5,), (1,), (2,), (5,), (1.0,), (2.0,), (5.0,), (True,), (False,), (3,), (0,), (-1,), (1.5,), (10,), (0.1,),
                (float("nan"),), (rng.choice([1, 2, 5]) + 0.0,), (rng.uniform(-3, 8),),
                # "whatever numeric type the step is given in": exact decimal / rational types too
                (Decimal("1.0"),), (Decimal("2.00"),), (Decimal("5"),), (Decimal("0.5"),), (Decimal("3"),), (Fraction(5),), (Fraction(2, 1),), (Fraction(1, 2),)]
    if k["k"] == "mem":
        return [(), (None,), (1,), (40,), (rng.randint(1, 40),)]
    if k["k"] == "scene":
        return [(1,), (12,), ("3",), (rng.randint(1, 12),)]
    if k["k"] == "enumarg":
        return [(m,) for m in enum_class(k["enum"])] + [("Play",), (None,), (3,)]
    if k["k"] == "fixedlen":
        return [("7A85-1F2",), ("1234567",), ("123456789",), ("",), ("é" * 8,), ("x" * 64,)]
    return []


def expected_text(T, f, v):
    """independent canonical text for a valid value (None = no independent expectation here)"""
    if isinstance(v, enum.Enum):
        return v.value
    ks = [k["k"] for k in kinds_of(f["conv"])]
    if ks == ["str"] and isinstance(v, str):
        return v
    if f["name"] in c11.SPEC and isinstance(v, (int, float)) and not isinstance(v, bool):
        return ("C11", None)
    if isinstance(v, int) and not isinstance(v, bool) and ks[0] in ("int", "intOrNone") and f["name"] not in c11.SPEC:
        return str(v)
    return None


def wire_jobs(rng, thorough):
    """end to end: the same reads / writes on a real subunit object on a real connection (reader + sender threads under the deterministic
    scheduler), the device reporting values in between; the trace is replayed on the L3 model (harness/wire.py)"""
    from .. import gen
    T = core.tables()
    return [(gen.subunit_wire(rng, T, writes=True), rng.randrange(10 ** 9), 0) for _ in range(20000 if thorough else 400)]


def run(ctx: core.Ctx):
    ctx.lean_stage()
    T = core.tables()
    rng = ctx.rng
    thorough = ctx.tier == "thorough"
    import ynca.enums as En

    disagreements = []
    rounds = 30 if thorough else 1
    for rnd in range(rounds):
        for c in T["classes"]:
            S = L3Session()
            idx = S.new(c["py"])
            obj = S.objs[idx]
            if rng.random() < 0.8:
                S.initialize(idx)
            # prime the cache with some reported values so that "reads unchanged" is not vacuous
            for f in c["fns"]:
                if f["get"] and rng.random() < 0.6:
                    from .c03 import value_for
                    S.msg("OK", c["id"], f["name"], value_for(rng, T, f, undecodable_ok=False))
            for f in c["fns"]:
                before = S.read(idx, f["attr"])
                if not f["get"] and not before.startswith("AE"):
                    ctx.violation(f"write-only attribute {c['py']}.{f['attr']} can be read: {before}",
                                  {"class": c["py"], "attr": f["attr"], "op": "read"}, {"kind": "writeonly-read", "function": f["name"]})
                cands = candidate_values(rng, T, f, thorough)
                if not f["put"]:
                    cands = [(v, "readonly") for v, _ in cands[:6]] + [(1, "readonly"), ("x", "readonly"), (None, "readonly")]
                for v, validity in cands:
                    r = S.assign(idx, f["attr"], v)
                    ctx.case((c["py"], f["attr"], repr(v)))
                    ctx.count("assign:" + validity)
                    ctx.count("real:" + r.split(" ")[0])
                    after = S.read(idx, f["attr"])
                    what = None
                    if after != before:
                        what = f"assignment changed what the attribute reads: {before} -> {after}"
                    elif validity == "readonly":
                        if r != "AE":
                            what = f"read-only attribute accepted an assignment: {r}"
                    elif validity == "invalid":
                        if not (r in ("R", "AE")):
                            what = f"value outside the domain did not raise / transmitted: {r}"
                    elif validity == "valid":
                        exp = expected_text(T, f, v)
                        if not r.startswith("PUT "):
                            what = f"valid value did not transmit exactly one PUT: {r}"
                        else:
                            _, fnh, txh = r.split(" ")
                            if core.unhx(fnh) != f["name"]:
                                what = f"PUT carries function {core.unhx(fnh)!r}, expected {f['name']!r}"
                            elif isinstance(exp, str) and core.unhx(txh) != exp:
                                what = f"PUT carries {core.unhx(txh)!r}, canonical text is {exp!r}"
                            elif isinstance(exp, tuple):
                                why = c11.oracle(f["name"], v, core.unhx(txh))
                                if why:
                                    what = f"PUT carries {core.unhx(txh)!r}: {why}"
                    if what:
                        ctx.violation(f"{c['py']}.{f['attr']} = {v!r}: {what}",
                                      {"class": c["py"], "attr": f["attr"], "value": repr(v), "real": r, "before": before, "after": after},
                                      {"kind": what.split(":")[0][:40], "function": f["name"]})
            # action methods
            for a in c["actions"]:
                k = a["kind"]
                argsets = action_argsets(rng, k)
                for args in argsets:
                    r = S.act(idx, a["meth"], *args)
                    ctx.case((c["py"], a["meth"], repr(args)))
                    ctx.count("action:" + k["k"])
                    what = None
                    if k["k"] == "volstep":
                        d = "Up" if k["up"] else "Down"
                        if not r.startswith("PUT "):
                            what = f"step {args!r} did not transmit exactly one PUT: {r}"
                        else:
                            _, fnh, txh = r.split(" ")
                            if core.unhx(txh) not in STEP_TEXTS[d] or core.unhx(fnh) != k["fn"]:
                                what = f"relative step sent as {core.unhx(fnh)}={core.unhx(txh)!r}, allowed texts are {sorted(STEP_TEXTS[d])}"
                    elif k["k"] == "fixedlen":
                        if len(args[0]) != 8 and r != "R":
                            what = f"remote code of length {len(args[0])} did not raise / transmitted: {r}"
                        if len(args[0]) == 8 and r != f"PUT {core.hx('REMOTECODE')} {core.hx(args[0])}":
                            what = f"8-character remote code not transmitted as is: {r}"
                    elif k["k"] == "enumarg":
                        if isinstance(args[0], enum.Enum) and r != f"PUT {core.hx(k['fn'])} {core.hx(args[0].value)}":
                            what = f"member not transmitted as its wire text: {r}"
                        if not isinstance(args[0], enum.Enum) and r != "R":
                            what = f"non-enumeration argument did not raise / transmitted: {r}"
                    elif k["k"] == "const":
                        if r != f"PUT {core.hx(k['fn'])} {core.hx(k['value'])}":
                            what = f"unexpected transmission {r}"
                    if what:
                        ctx.violation(f"{c['py']}.{a['meth']}{args!r}: {what}",
                                      {"class": c["py"], "method": a["meth"], "args": [repr(x) for x in args], "real": r},
                                      {"kind": what.split(":")[0][:40], "method": a["meth"]})
            # write-only functions stay unreadable whatever the device reports for them (e.g. the echo of a PUT)
            for f in c["fns"]:
                if not f["get"]:
                    from .c03 import value_for
                    S.msg("OK", c["id"], f["name"], value_for(rng, T, f, undecodable_ok=False))
                    r = S.read(idx, f["attr"])
                    ctx.case((c["py"], f["attr"], "read-after-report"))
                    if not r.startswith("AE"):
                        ctx.violation(f"write-only attribute {c['py']}.{f['attr']} can be read after the device reported a value for it: {r}",
                                      {"class": c["py"], "attr": f["attr"], "op": "read-after-report"}, {"kind": "writeonly-read", "function": f["name"]})
            S.dump()
            model = S.finish()
            for i, (op, real, m) in enumerate(zip(S.ops, S.real, model)):
                if op.startswith("msg "):
                    same = sorted(real.split()) == sorted(m.split())
                elif m == "U":
                    ctx.count("model:unspecified(informational)")
                    same = True
                elif m in ("AE", "R") and real in ("AE", "R"):
                    same = True      # both are "an error was raised and nothing transmitted" (AttributeError is also what `.value` on a non-enum raises)
                else:
                    same = real == m
                if not same:
                    disagreements.append({"class": c["py"], "op_index": i, "op": op, "meta": str(S.meta[i]), "real": real[:200], "model": m[:200]})
            if rnd == 0 and c["py"] in ("Main", "Tun", "System"):
                for i in range(len(S.ops)):
                    if S.ops[i].startswith("assign") and rng.random() < 0.03:
                        ctx.sample({"op": str(S.meta[i]), "real": S.real[i], "model": model[i]})
    ctx.info["rule"] = ("every function of every class x (every member of its enumeration(s), foreign members, texts at lengths limit-1/limit/limit+1, "
                        "ints, floats, bools, numeric and non-numeric strings, None, object()), assignments to read-only attributes, reads of write-only ones, "
                        "every action method x argument sets (steps as int/float/bool/nan); a case = (class, attribute|method, value); non-trivial = distinct cases")
    ctx.cov["disagreements_model_vs_impl"] = len(disagreements)
    if disagreements and not ctx.violations:
        ctx.correspondence_broken("L3 assign/act model vs real descriptors and action methods", {"count": len(disagreements), "first": disagreements[0]})
    ctx.assumptions += ["the stub connection records put/get exactly as YncaConnection.put/get would enqueue them (wire path is C01's)",
                        "inputs the property leaves open (foreign enumeration members, float/bool to plain integer functions, numeric strings, non-str remote codes) are informational"]
    from .. import b2check
    b2check.run_b2(ctx, wire_jobs, ["C05w"], label="end-to-end writes on a real connection", accept=False)
    # two objects of the same class on two connections (class-level / module-level state shows here)
    from .. import twin as _twin
    _twin.run(ctx, core.tables(), ctx.rng, "write")
    return ctx.finish()


def replay(ctx, path):
    rp = json.load(open(path))["replay"]
    if rp.get("path") == "b2":
        from .. import b2check
        return b2check.replay_b2(rp, ["C05w"])
    S = L3Session()
    i = S.new(rp["class"])
    import ynca.enums as En  # noqa: F401
    ns = {"object": Obj, "nan": float("nan"), "inf": float("inf")}
    for n in dir(En):
        ns[n] = getattr(En, n)
    if "attr" in rp:
        v = eval(rp["value"].replace("<", "").split(":")[0] if rp["value"].startswith("<") else rp["value"], ns)
        print("impl :", S.assign(i, rp["attr"], v))
    else:
        print("impl :", S.act(i, rp["method"], *[eval(a, ns) for a in rp["args"]]))
    print("model:", S.finish()[-1])
    return 0
