"""C09 — each reported value notifies every update callback exactly once, safely.

Lean: Props/C09.lean (exactly once / filter / order / unregistered / closed, and C09_mutation_safe for arbitrary
re-entrant callback scripts with snapshot delivery).
Tie: (a) B1 — real subunit objects with scripted re-entrant update callbacks vs `ynca_model subunit` (recvScripted);
(b) B2 — the real connection + reader thread under the deterministic scheduler with scripted re-entrant message
callbacks and a second thread (un)registering concurrently; monitor with must/may windows."""
from __future__ import annotations

import json

from .. import b2, core, gen
from ..l3 import L3Session
from .c03 import value_for


def l3_scripted(ctx, T, rng, n_sessions):
    disagreements = []
    for sno in range(n_sessions):
        c = rng.choice(T["classes"])
        S = L3Session()
        idx = S.new(c["py"])
        obj = S.objs[idx]
        S.initialize(idx)
        order_free = rng.random() < 0.5
        cbids = [1, 2, 3, 4]
        scripts = {}
        for cb in cbids:
            ops = []
            for _ in range(rng.choice([0, 0, 1, 2])):
                r = rng.random()
                if order_free:
                    ops.append(("reg", rng.choice([5, 6, 7])) if r < 0.7 else ("unreg", cb))
                else:
                    ops.append(rng.choice([("reg", rng.choice([5, 6])), ("unreg", rng.choice(cbids + [5])), ("close",)]) if r < 0.9 else ("close",))
            scripts[cb] = ops
        # real callbacks that execute their script re-entrantly on every invocation
        def make(cb):
            def f(fn, value):
                S.calls.append((idx, cb, fn, value))
                S.seen(idx, fn, value)
                for op in scripts.get(cb, []):
                    if op[0] == "reg":
                        obj.register_update_callback(S._cb(idx, op[1]))
                    elif op[0] == "unreg":
                        try:
                            obj.unregister_update_callback(S._cb(idx, op[1]))
                        except KeyError:
                            pass
                    else:
                        obj.close()
            return f
        for cb in cbids + [5, 6, 7]:
            S.cbs[(idx, cb)] = S.wrap(make(cb))
        for cb in cbids:
            S.reg(idx, cb)
            if scripts[cb]:
                S.ops.append(f"script {idx} {cb} " + " ".join(":".join(str(x) for x in op) for op in scripts[cb]))
                S.real.append("ok")
                S.meta.append(("script", cb, scripts[cb]))
        registered = set(cbids)
        for k in range(rng.randint(1, 6)):
            f = rng.choice([f for f in c["fns"] if f["get"]])
            val = value_for(rng, T, f, undecodable_ok=False)
            snapshot = set(registered)
            was_closed = obj._connection is None
            r = S.msg("OK", c["id"], f["name"], val)
            ctx.case((c["py"], f["name"], val, tuple(sorted((k2, tuple(v)) for k2, v in scripts.items()))))
            ctx.count("delivery:" + ("order-free" if order_free else "order-dependent"))
            # monitor (must / may), independent of the model
            invoked = [int(x.split(":")[1]) for x in r.split()] if r not in ("-",) and not r.startswith("EXC") else []
            try:
                conv = getattr(type(obj), f["attr"]).converter
                conv.to_value(val)
                decodable = True
            except Exception:  # noqa: BLE001
                decodable = False
            what = None
            order = [cbid for (_i, cbid, _f, _v) in S.calls]          # invocation order of this round
            closed_by = None
            gone = set()
            for pos_, cbid in enumerate(order):
                if closed_by is not None:
                    what = f"callback {cbid} was invoked after callback {closed_by} had closed the subunit (order {order})"
                    break
                if cbid in gone:
                    what = f"callback {cbid} was invoked after it had been unregistered by an earlier callback of the same round (order {order})"
                    break
                for op in scripts.get(cbid, []):
                    if op[0] == "close":
                        closed_by = cbid
                    elif op[0] == "unreg":
                        gone.add(op[1])
                    elif op[0] == "reg":
                        gone.discard(op[1])
            if S.stale:
                st_ = S.stale[0]
                what = (f"stale cache inside the callback: told {st_['function']} = {st_['told']} while the attribute still reads {st_['attribute_reads']} "
                        "(callbacks are invoked after the cache already reflects the value)")
                S.stale = []
            if what:
                pass
            elif r.startswith("EXC"):
                what = f"delivery raised {r[4:]} (in the reader thread this ends the connection)"
            elif len(set(invoked)) != len(invoked):
                what = f"a callback was invoked twice for one value: {invoked}"
            elif any(cb not in snapshot for cb in invoked):
                what = f"callbacks {sorted(set(invoked) - snapshot)} were invoked although not registered when the value arrived"
            elif decodable and not was_closed:
                # must: in the snapshot and nobody's script unregisters it or closes the subunit
                danger = {op[1] for cb in snapshot for op in scripts.get(cb, []) if op[0] == "unreg"}
                closes = any(op[0] == "close" for cb in snapshot for op in scripts.get(cb, []))
                must = set() if closes else {cb for cb in snapshot if cb not in danger}
                if not must <= set(invoked):
                    what = f"callbacks {sorted(must - set(invoked))} stayed registered but were not invoked (invoked: {invoked})"
            if what:
                ctx.violation(f"{c['py']} update callbacks ({S.cb_kind} objects), scripts {scripts}: {what}",
                              {"path": "l3", "class": c["py"], "scripts": {str(k2): v for k2, v in scripts.items()}, "function": f["name"], "value": val},
                              {"kind": what.split(" ")[0][:20], "path": "l3"})
                break
            # track registration state the way the scripts changed it
            if not r.startswith("EXC"):
                cur = set(obj._update_callbacks) if obj._connection is not None else set()
                registered = {cb for (i2, cb) in list(S.cbs) if S._cb(i2, cb) in cur}      # resolved the way user code names the callback (a bound method is a fresh, equal object)
        model = S.finish()
        if order_free:
            for i, (op, real, m) in enumerate(zip(S.ops, S.real, model)):
                same = (sorted(real.split()) == sorted(m.split())) if op.startswith("msg ") else real == m
                if not same:
                    disagreements.append({"session": sno, "op_index": i, "op": op, "meta": str(S.meta[i]), "real": real[:200], "model": m[:200]})
                    break
    return disagreements


def run(ctx: core.Ctx):
    ctx.lean_stage(extra_props=("C09x", "Tie"))
    T = core.tables()
    rng = ctx.rng
    thorough = ctx.tier == "thorough"
    dis = l3_scripted(ctx, T, rng, 20000 if thorough else 300)
    n = 30000 if thorough else 300
    jobs = []
    for i in range(n):
        spec = gen.conn_callbacks(rng)
        jobs.append((spec, rng.randrange(10 ** 9), rng.choice([0, 0, 3, 6])))
    for i in range(20000 if thorough else 800):
        jobs.append((gen.conn_reg_race(rng), rng.randrange(10 ** 9), 0))
    results = b2.explore(jobs, ["C09"])
    b2.close_pool()
    nviol = 0
    for (spec, seed, pre), r in zip(jobs, results):
        ctx.case(("b2", json.dumps(spec, sort_keys=True), seed, pre))
        ctx.count(f"b2:status:{r['status']}")
        ctx.count(f"b2:preempt:{pre}")
        ctx.count("b2:msg_cb_events", r["kinds"].get("msg_cb", 0))
        for v in r["violations"]:
            nviol += 1
            ctx.violation(f"schedule seed={seed} preempt={pre}: {v['what']}",
                          {"path": "b2", "spec": spec, "seed": seed, "preempt": pre, "choices": r.get("choice_list"), "monitor": v["monitor"],
                           "trace_tail": [e for e in r.get("trace", []) if e["k"] not in ("read_enter",)][-60:]},
                          {"kind": v["kind"], "path": "b2"})
    if results:
        r0 = results[0]
        ctx.sample({"spec": jobs[0][0], "seed": jobs[0][1], "status": r0["status"], "virtual_s": r0["virtual_s"], "events": r0["events"]})
    ctx.cov["traces_validated_against_impl"] = len(results)
    ctx.cov["b2_schedules"] = len(results)
    # user-defined subclasses: values reported for a function a subclass adds or re-declares notify the update callbacks like any other
    # modelled function (whichever class of the hierarchy was instantiated first in this process)
    import copy as _copy
    from .. import synth
    from ..realobj import StubConnection, subunit_class
    from ynca.connection import YncaProtocolStatus as _St
    from ynca.converters import StrConverter
    nsyn = 0
    for c in T["classes"]:
        base = subunit_class(c["py"])
        base(StubConnection())
        readable = [f for f in c["fns"] if f["get"]]
        if not readable:
            continue
        f = rng.choice(readable)
        d = getattr(base, f["attr"])
        extra = _copy.copy(d)
        extra.converter = StrConverter()
        extra._name_override = "ZZEXTRA"
        extra.initializer = d.name if not d.no_initialize else None
        sub = type("Synth" + c["py"] + "Cb", (base,), {"zzextra": extra})
        try:
            obj_, conn_, sid = synth.make_initialized(sub)
        except Exception as e:  # noqa: BLE001
            ctx.violation(f"{c['py']} subclass that adds the text function ZZEXTRA: initialize() raised {type(e).__name__} although the sync query was answered",
                          {"path": "synthetic", "class": c["py"]}, {"kind": "synthetic-init"})
            continue
        seen_ = []
        obj_.register_update_callback(lambda fn, v, _s=seen_: _s.append((fn, v)))
        conn_.deliver(_St.OK, sid, "ZZEXTRA", "hello")
        conn_.deliver(_St.OK, sid, d.name, "Bogus value")
        nsyn += 1
        ctx.case(("synthetic", c["py"]))
        if seen_[:1] != [("ZZEXTRA", "hello")]:
            ctx.violation(f"{c['py']} subclass that adds the text function ZZEXTRA (parent class instantiated first): the report ZZEXTRA='hello' invoked the update callback with {seen_[:1]}",
                          {"path": "synthetic", "class": c["py"], "seen": [list(map(str, x)) for x in seen_]}, {"kind": "synthetic-subclass"})
    ctx.cov["synthetic_subclass_notifications"] = nsyn
    # client-side locks around callbacks and (un)registrations: reader and client must never wait for each other for ever
    from .. import b2check
    from .. import gen as _gen
    b2check.run_b2(ctx, lambda rng_, th: [(_gen.client_lock(rng_, T), rng_.randrange(10 ** 9), rng_.choice([0, 0, 3])) for _ in range(4000 if th else 120)], [],
                   label="callbacks and (un)registrations under a client-side lock (a run that does not finish is a violation)", accept=False)
    b2check.run_b2(ctx, lambda rng_, th: [(_gen.subunit_updates(rng_, T), rng_.randrange(10 ** 9), rng_.choice([0, 3, 6])) for _ in range(6000 if th else 150)], ["C09u"],
                   label="update callback of a subunit object on a live connection: reports right behind the synchronisation reply and right after initialize() (monitor only)", accept=False)
    # a subunit object registers its message callback while it is being constructed: lines arriving while another thread is anywhere inside
    # a constructor must not be lost for the other callbacks nor take the reader thread down (the scenario of the C10 check, judged here by
    # "every later line still reaches the callbacks, nothing is disconnected")
    from .c10_threads import jobs_api_ctor as _ctor_jobs
    b2check.run_b2(ctx, lambda rng_, th: _ctor_jobs(rng_, th)[:(1500 if th else 60)], ["C10"],
                   label="lines arriving while another thread is inside a constructor of the library (callback registered by a half-built object)", accept=False)
    _small = _gen.small_scenarios()
    b2check.run_systematic(ctx, [_small[n] for n in ("reg-in-callback", "close-in-callback", "traffic")], ["C09"], depth=5 if ctx.tier == "thorough" else 3,
                           label="reg-in-callback, close-in-callback, traffic", max_runs=60000 if ctx.tier == "thorough" else 6000)
    ctx.cov["disagreements_model_vs_impl"] = len(dis)
    ctx.info["rule"] = ("(a) sessions of real subunit objects with 4 scripted re-entrant update callbacks (register / unregister / close from inside a "
                        "callback), 1..6 reported values each; (b) scheduled executions of the real connection: 3 pre-registered message callbacks with "
                        "re-entrant scripts, a second thread (un)registering concurrently, device echo with random latency/chunking, 0/3/6 extra line-level "
                        "preemptions; a case = one delivery (a) or one schedule (b); non-trivial = distinct (scripts, value) / (spec, seed)")
    if dis and not ctx.violations:
        ctx.correspondence_broken("recvScripted model vs real subunit objects with re-entrant update callbacks", dis[0])
    ctx.assumptions += ["user callbacks do not raise", "delivery order among callbacks is unspecified (the model fixes registration order; order-dependent scripts are judged by the must/may monitor only)",
                        "DetSched shims implement threading/queue/time semantics; the virtual port behaves like a pyserial port without cancel_read"]
    # two objects of the same class on two connections (class-level / module-level state shows here)
    from .. import twin as _twin
    _twin.run(ctx, core.tables(), ctx.rng, "notify")
    return ctx.finish()


def replay(ctx, path):
    rp = json.load(open(path))["replay"]
    if rp.get("path") == "b2":
        from .. import monitors, scen, sched
        sched.install()
        run = scen.run_spec(rp["spec"], seed=rp["seed"], prefix=rp.get("choices"), preempt=rp.get("preempt", 0))
        for e in run.trace[-80:]:
            print({k: v for k, v in e.items() if k != "seq"})
        print("monitor:", monitors.MONITORS["C09"](rp["spec"], run))
    else:
        print(json.dumps(rp, indent=1)[:2000])
    return 0
