"""C12 — the device never sees a silent gap longer than the keep-alive interval
Lean: Props/C12.lean (L4 model).  Tie: B2 — sessions many keep-alive intervals long with random command patterns; monitor + trace acceptor."""
from __future__ import annotations

import json

from .. import b2check, core, gen

MONS = ["C12"]


def jobs(rng, thorough):
    n = 20000 if thorough else 300
    out = []
    for _ in range(n):
        out.append((gen.conn_traffic(rng), rng.randrange(10 ** 9), rng.choice([0, 0, 3])))
    return out


def jobs_slow(rng, thorough):
    """second pass, judged by the monitor only: some writes block inside the driver (write duration is not part of the L4 model)"""
    n = 6000 if thorough else 120
    return [(gen.conn_slow_writes(rng), rng.randrange(10 ** 9), rng.choice([0, 0, 3])) for _ in range(n)]


def run(ctx: core.Ctx):
    ctx.lean_stage(extra_props=("C12x", "Tie"))
    b2check.run_b2(ctx, jobs, ["C12"], label="long idle sessions")
    # exhaustive within a bound: every schedule up to 3 (thorough: 5) deviations from the canonical one, on small scenarios
    _small = gen.small_scenarios()
    b2check.run_systematic(ctx, [_small[n] for n in ['traffic', 'two-callers']], ["C12"], depth=5 if ctx.tier == "thorough" else 3,
                           label="traffic, two-callers", max_runs=60000 if ctx.tier == "thorough" else 6000)
    b2check.run_b2(ctx, jobs_slow, MONS, label="slow (blocking) writes, monitor only", accept=False)
    b2check.run_b2(ctx, lambda rng, th: [(gen.with_second(rng, gen.conn_traffic(rng, max_threads=2, max_cmds=10)), rng.randrange(10 ** 9), rng.choice([0, 3])) for _ in range(3000 if th else 80)], ["C12two"],
                   label="a second connection with its own traffic alive in the same process (monitor only, first connection judged)", accept=False)
    b2check.run_b2(ctx, lambda rng, th: [(gen.conn_busy_callback(rng), rng.randrange(10 ** 9), rng.choice([0, 3])) for _ in range(3000 if th else 100)],
                   MONS, label="message callbacks still running when the keep-alive timer expires")
    def jobs_hot(rng, th):
        out = []
        for _ in range(3000 if th else 100):
            spec = gen.conn_traffic(rng, max_threads=2, max_cmds=8)
            spec["hot"] = "connection_made"          # thread switches between any two bytecodes while the connection is being set up
            spec["hot_budget"] = rng.choice([3, 8, 20])
            out.append((spec, rng.randrange(10 ** 9), 0))
        return out
    b2check.run_b2(ctx, lambda rng, th: [(gen.conn_second_session(rng, "idle"), rng.randrange(10 ** 9), rng.choice([0, 3])) for _ in range(3000 if th else 80)], ["C12re", "C08re"],
                   label="connect() again on the same object: the second session idle beyond the keep-alive interval (monitor only)", accept=False)
    b2check.run_b2(ctx, jobs_hot, MONS, label="bytecode-level preemption inside connection_made, monitor only", accept=False)
    ctx.info["rule"] = ("sessions of 5..20 keep-alive intervals of virtual time with random command patterns and idle periods; each under a seeded schedule with extra line-level preemptions; a case = one schedule; "
                        "non-trivial = distinct (spec, seed)")
    return ctx.finish()


def replay(ctx, path):
    return b2check.replay_b2(json.load(open(path))["replay"], ["C12"])
