"""C01 — commands reach the wire exactly once, one CRLF line each, in submission order
Lean: Props/C01.lean (L4 model).  Tie: B2 — 1..4 caller threads, bursts of 0..40 unique commands (put/get/raw), idle gaps, random device latency; monitor + trace acceptor."""
from __future__ import annotations

import json

from .. import b2check, core, gen

MONS = ["C01"]


def jobs(rng, thorough):
    n = 40000 if thorough else 400
    out = []
    for _ in range(n):
        out.append((gen.conn_traffic(rng), rng.randrange(10 ** 9), rng.choice([0, 0, 3, 6])))
    for _ in range(n // 40):
        out.append((gen.conn_flood(rng), rng.randrange(10 ** 9), 0))       # more than a hundred commands queued at once
    for _ in range(n // 4):
        # callers whose own SYS:MODELNAME queries mix with the library's keep-alive probes (slow or sleeping receivers)
        out.append((gen.conn_keepalive(rng), rng.randrange(10 ** 9), rng.choice([0, 0, 3])))
    return out


def jobs_slow(rng, thorough):
    """second pass, judged by the monitor only: some writes block inside the driver (write duration is not part of the L4 model)"""
    n = 6000 if thorough else 120
    out = [(gen.conn_slow_writes(rng), rng.randrange(10 ** 9), rng.choice([0, 0, 3])) for _ in range(n)]
    out += [(gen.conn_late_write_fault(rng), rng.randrange(10 ** 9), 0) for _ in range(n // 2)]
    return out


def jobs_api(rng, thorough):
    """third pass, monitor only: submissions through YncaApi.send_raw (texts with bare LF / CR, other Unicode line boundaries, blanks, repeats)"""
    T = core.tables()
    return [(gen.api_raw(rng, T), rng.randrange(10 ** 9), 0) for _ in range(4000 if thorough else 100)]


def run(ctx: core.Ctx):
    ctx.lean_stage(extra_props=("C01x", "Tie"))
    b2check.run_b2(ctx, jobs, ["C01"], label="traffic scenarios")
    # exhaustive within a bound: every schedule up to 3 (thorough: 5) deviations from the canonical one, on small scenarios
    _small = gen.small_scenarios()
    b2check.run_systematic(ctx, [_small[n] for n in ['traffic', 'two-callers', 'link-drop', 'concurrent-close']], ["C01"], depth=5 if ctx.tier == "thorough" else 3,
                           label="traffic, two-callers, link-drop, concurrent-close", max_runs=60000 if ctx.tier == "thorough" else 6000)
    b2check.run_b2(ctx, jobs_slow, MONS, label="slow (blocking) writes, monitor only", accept=False)
    b2check.run_b2(ctx, lambda rng, th: [(gen.conn_second_session(rng, "close"), rng.randrange(10 ** 9), rng.choice([0, 3])) for _ in range(3000 if th else 80)], ["C01re"],
                   label="connect() again on the same object after close() / a lost link: the second session (monitor only)", accept=False)
    b2check.run_b2(ctx, lambda rng, th: [(gen.with_second(rng, gen.conn_traffic(rng, max_threads=2, max_cmds=16)), rng.randrange(10 ** 9), rng.choice([0, 3])) for _ in range(4000 if th else 100)], ["C01two"],
                   label="a second connection with its own traffic alive in the same process (monitor only, first connection judged)", accept=False)
    b2check.run_b2(ctx, jobs_api, MONS, label="YncaApi.send_raw after initialize(), monitor only", accept=False)
    T = core.tables()
    b2check.run_b2(ctx, lambda rng, th: [(gen.api_typed_two(rng, T), rng.randrange(10 ** 9), 0) for _ in range(600 if th else 40)], ["C01api2"],
                   label="typed attribute writes of one YncaApi object while another YncaApi object (another receiver) is alive in the same process, monitor only", accept=False)
    ctx.info["rule"] = ("sessions of 1..4 callers with bursts of unique commands and idle gaps around the keep-alive interval; each under a seeded schedule with extra line-level preemptions; a case = one schedule; "
                        "non-trivial = distinct (spec, seed)")
    return ctx.finish()


def replay(ctx, path):
    rp = json.load(open(path))["replay"]
    return b2check.replay_b2(rp, ["C01api2" if rp["spec"].get("other_keep") else "C01"])
