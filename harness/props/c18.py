"""C18 — the test server replays what the recorded receiver said.
Lean: Props/C18.lean (L6 model).  Tie: B1 — real YncaDataStore.fill_from_file on the 12 recordings vs the model's ingestion
(store dumps equal, insertion order included); random GET/PUT sequences through the real handler vs `ynca_model server`.
Monitor: independent last-value reader + abstract map for ordinary (function, value) pairs + well-formedness of every reply."""
from __future__ import annotations

import json
import os

from .. import core, srv


def respell(rng, cur):
    """another spelling of the value that is stored now: a PUT of it is a PUT of a NEW value (the store holds texts, not numbers)"""
    try:
        float(cur)
        numeric = cur.strip() == cur and cur != ""
    except ValueError:
        numeric = False
    if numeric:
        body = cur.lstrip("+-")
        sign = cur[:len(cur) - len(body)]
        return rng.choice([sign + "0" + body, cur + ("0" if "." in cur else ".0"), ("+" + cur) if not sign else cur + "0" if "." in cur else cur + ".00", sign + "00" + body])
    return rng.choice([cur.upper(), cur.lower(), cur.swapcase(), cur + "_"])        # (no leading / trailing blanks: the server strips the command line)


def gen_command(rng, T, keys, names, cur=None):
    r = rng.random()
    if r < 0.1 and keys and cur is not None:
        s, f = rng.choice(keys)
        c = cur(s, f)
        if c is not None and c not in ("@UNDEFINED", "@RESTRICTED") and c == c.strip() and c != "" and respell(rng, c) != c:
            return f"@{s}:{f}={respell(rng, c)}"
    if r < 0.55 and keys:
        s, f = rng.choice(keys)
    elif r < 0.75:
        s = rng.choice(T["consts"]["subunits"] + ["FOO", "main"])
        f = rng.choice(names + ["NOSUCH", "BASIC", "METAINFO", "RDSINFO", "INPNAME", "SCENENAME", "SCENE1NAME", "INPNAMEHDMI1"])
    else:
        s = rng.choice(["MAIN", "ZONE2", "SYS", "TUN", "NETRADIO"])
        f = rng.choice(sorted(srv.SPECIAL) + ["VOL", "ZONEBVOL", "INP", "MUTE"])
    if rng.random() < 0.5:
        return f"@{s}:{f}=?"
    v = rng.choice(["On", "Off", "Standby", "-30.0", "-30.5", "5", "Up", "Down", "Up 1 dB", "Down 2 dB", "Up 5 dB", "HDMI1", "NET RADIO", "Play", "Stop", "Pause",
                    "Skip Fwd", "Straight", "Hall in Vienna", "x y z", "", "a=b:c", "Auto", "12345678", "@home", "Downstairs", "Upper", "ÄÖ",
                    f"v{rng.randint(0, 999)}"])
    return f"@{s}:{f}={v}"


def ordinary(f, v):
    return f not in srv.SPECIAL and not ((f in ("VOL", "ZONEBVOL")) and (v.startswith("Up") or v.startswith("Down"))) and v not in ("@UNDEFINED", "@RESTRICTED")


def run(ctx: core.Ctx):
    ctx.lean_stage()
    T = core.tables()
    rng = ctx.rng
    thorough = ctx.tier == "thorough"
    names = sorted({f["name"] for c in T["classes"] for f in c["fns"]})
    disagreements = []
    nseq = 300 if thorough else 6
    ncmd = 400 if thorough else 150
    import re
    for path in srv.recordings():
        rec = os.path.basename(path)
        real = srv.RealServer(path)
        ops = srv.model_ingest_ops(path)
        model = core.run_driver("server", ops)
        ctx.case(("ingest", rec))
        ctx.count("ingest:lines", len(ops) - 2)
        if model[-1] != srv.show_dump(real.dump()):
            a, b = model[-1].split(), srv.show_dump(real.dump()).split()
            first = next((i for i, (x, y) in enumerate(zip(a, b)) if x != y), min(len(a), len(b)))
            disagreements.append({"recording": rec, "what": "store after ingestion differs", "index": first,
                                  "model": a[first:first + 2], "real": b[first:first + 2]})
        # oracle: last recorded value
        last = srv.last_values(path)
        for (s, f), v in sorted(last.items()):
            got = real.store.get_data(s, f)
            if got != v and got not in ("@UNDEFINED", "@RESTRICTED"):
                ctx.violation(f"{rec}: store holds {got!r} for {s}:{f}, the last recorded value is {v!r}", {"recording": rec, "subunit": s, "function": f}, {"kind": "ingest"})
            if got in ("@UNDEFINED", "@RESTRICTED") and v not in ("@UNDEFINED", "@RESTRICTED"):
                ctx.violation(f"{rec}: recorded value {v!r} of {s}:{f} was replaced by an error marker", {"recording": rec, "subunit": s, "function": f}, {"kind": "ingest-error-overwrites"})
        keys = sorted(last.keys())
        err_only = srv.error_only_keys(path)
        for q in range(nseq):
            real = srv.RealServer(path)
            shadow = dict(last)          # abstract map for ordinary pairs
            touched_special = set()
            ops = srv.model_ingest_ops(path)[:-1]
            reals = []
            cmds = []
            pending = []
            if rng.random() < 0.35:
                # every member of a multi-name group gets the same (possibly empty) name, then the group is queried: members only, one line each
                import re as _re2
                grp = rng.choice(["INPNAME", "SCENENAME"])
                zone = "SYS" if grp == "INPNAME" else rng.choice(["MAIN", "ZONE2", "ZONE3", "ZONE4"])
                pat = _re2.compile(r"INPNAME.+" if grp == "INPNAME" else r"SCENE\d+NAME")
                members = [(s_, f_) for (s_, f_) in keys if s_ == zone and pat.fullmatch(f_)]
                newname = rng.choice(["", "", "x", "Same Name"])
                at = rng.randint(0, 20)
                pending = [None] * at + [f"@{s_}:{f_}={newname}" for s_, f_ in members] + [f"@{zone}:{grp}=?"]
            for k in range(ncmd):
                line = gen_command(rng, T, keys, names, cur=lambda s_, f_: shadow.get((s_, f_)))
                if pending:
                    nxt = pending.pop(0)
                    if nxt is not None:
                        line = nxt
                out, exc = real.command(line)
                ctx.case((rec, line))
                cmds.append(line)
                ops.append("cmd " + core.hx(line))
                reals.append(" ".join(core.hx(x) for x in out) if out else "-")
                if exc is not None:
                    reals[-1] = "EXC " + type(exc).__name__
                    ctx.count("real:exception")
                    ctx.violation(f"{rec}: command {line!r} raised {type(exc).__name__}: {exc} (the session is dropped)", {"recording": rec, "commands": cmds[-20:]},
                                  {"kind": "crash", "exc": type(exc).__name__})
                    break
                for o in out:
                    if not srv.WELLFORMED.match(o):
                        ctx.violation(f"{rec}: reply {o!r} to {line!r} is not a well-formed YNCA line", {"recording": rec, "commands": cmds[-20:], "reply": o}, {"kind": "malformed-reply"})
                m = re.fullmatch(r"@([^:]+?):([^=]+?)=(.*)", line, re.S)
                if not m:
                    continue
                s, f, v = m.groups()
                # a special PUT may couple into other keys of its subunit (or SYS/zones): stop tracking those
                if v != "?" and (f in srv.SPECIAL or f in ("VOL", "ZONEBVOL")):
                    touched_special.add(s)
                    if f == "PWR":
                        touched_special.update(["SYS", "MAIN", "ZONE2", "ZONE3", "ZONE4"])
                    continue
                if v == "?" and not out and exc is None and ((s, f) in shadow or (s, f) in err_only) and s not in touched_special:
                    # (a multi-value query for which the recording has neither members nor an entry of its own may stay unanswered: left open)
                    ctx.violation(f"{rec}: GET {s}:{f} was not answered at all although the recording has an entry for it ({shadow.get((s, f), "an error reply")!r}): a GET is answered with the stored value(s) or with an error line",
                                  {"recording": rec, "commands": cmds[-20:]}, {"kind": "get-unanswered"})
                if f in srv.SPECIAL:
                    # multi-value / special GET: only stored members (or the STRAIGHT override), or one error line
                    if v == "?":
                        errs = [o for o in out if o in ("@UNDEFINED", "@RESTRICTED")]
                        if errs and len(out) > len(errs):
                            ctx.violation(f"{rec}: {line!r} was answered with {len(out) - len(errs)} member line(s) AND {errs}: a query answers with stored members only, "
                                          "or with one error line when it has none", {"recording": rec, "commands": cmds[-30:]}, {"kind": "multi-members-and-error"})
                        elif len(errs) > 1:
                            ctx.violation(f"{rec}: {line!r} was answered with {len(errs)} error lines", {"recording": rec, "commands": cmds[-30:]}, {"kind": "multi-errors"})
                    for o in out:
                        mo = re.fullmatch(r"@([^:]+?):([^=]+?)=(.*)", o, re.S)
                        if mo and mo.group(1) not in touched_special and mo.group(1) == s:
                            g, val = mo.group(2), mo.group(3)
                            if shadow.get((s, g)) != val and not (g == "STRAIGHT" and val == "On"):
                                ctx.violation(f"{rec}: {line!r} answered {o!r} which is not the stored value {shadow.get((s, g))!r}", {"recording": rec, "commands": cmds[-20:]}, {"kind": "multi-not-stored"})
                    continue
                if s in touched_special:
                    continue
                ctx.count("ordinary:" + ("get" if v == "?" else "put"))
                if v == "?":
                    cur = shadow.get((s, f))
                    if cur is None or cur in ("@UNDEFINED", "@RESTRICTED"):
                        ok = len(out) == 1 and out[0] in ("@UNDEFINED", "@RESTRICTED")
                    else:
                        ok = out == [f"@{s}:{f}={cur}"]
                    if not ok:
                        ctx.violation(f"{rec}: GET {s}:{f} answered {out!r}, stored value is {cur!r}", {"recording": rec, "commands": cmds[-20:]}, {"kind": "get"})
                elif ordinary(f, v):
                    cur = shadow.get((s, f))
                    if cur is None:
                        # never recorded with a value (possibly recorded with an error reply only): an error line, or - when the store
                        # keeps an error marker for it - the PUT replaces the marker and is reported once; the property leaves this open
                        ok = (len(out) == 1 and out[0] in ("@UNDEFINED", "@RESTRICTED")) or out == [f"@{s}:{f}={v}"]
                        if out == [f"@{s}:{f}={v}"]:
                            shadow[(s, f)] = v
                    elif cur == v:
                        ok = out == []
                    else:
                        ok = out == [f"@{s}:{f}={v}"]
                        shadow[(s, f)] = v
                    if not ok:
                        ctx.violation(f"{rec}: PUT {s}:{f}={v!r} (stored {cur!r}) answered {out!r}", {"recording": rec, "commands": cmds[-20:]}, {"kind": "put"})
                if len(ctx.violations) >= 5:
                    break
            model = core.run_driver("server", ops)[-len(reals):] if reals else []
            for line, r, mo in zip(cmds, reals, model):
                if mo == "U":
                    ctx.count("model:unspecified(informational)")
                    break      # the model is silent about this store from here on
                if r != mo:
                    disagreements.append({"recording": rec, "command": line, "real": [core.unhx(x) for x in r.split()] if not r.startswith("EXC") and r != "-" else r,
                                          "model": [core.unhx(x) for x in mo.split()] if mo != "-" else mo})
                    break
            if len(ctx.violations) >= 5:
                break
        if q == 0:
            ctx.sample({"recording": rec, "commands": cmds[:5], "replies": [[core.unhx(x) for x in r.split()] if r not in ("-",) and not r.startswith("EXC") else r for r in reals[:5]]})
    ctx.info["rule"] = ("each of the 12 recordings ingested by the real store and by the model (dumps compared); per recording random sequences of GET/PUT over recorded keys, "
                        "unrecorded names, special functions and awkward values through the real handle() loop; a case = (recording, command); non-trivial = distinct ones")
    ctx.cov["disagreements_model_vs_impl"] = len(disagreements)
    if disagreements and not ctx.violations:
        ctx.correspondence_broken("L6 server model vs ynca/server.py", {"count": len(disagreements), "first": disagreements[0]})
    ctx.assumptions += ["socketserver plumbing, main() and argument parsing are not modelled", "Python float arithmetic of relative volume steps is modelled for plain one-decimal values only (else informational)"]
    return ctx.finish()


def replay(ctx, path):
    rp = json.load(open(path))["replay"]
    p = os.path.join(core.REPO, "logs", rp["recording"])
    real = srv.RealServer(p)
    for c in rp.get("commands", []):
        print(c, "->", real.command(c))
    return 0
