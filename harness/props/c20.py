"""C20 — the communication log is a faithful, bounded record of the wire
Lean: Props/C20.lean (L4 model).  Tie: B2 — sessions shorter and longer than N, N in {0,1,2,5,100}, snapshots at random points by a second caller; monitor + trace acceptor."""
from __future__ import annotations

import json

from .. import b2check, core, gen


def jobs(rng, thorough):
    n = 30000 if thorough else 400
    out = []
    for _ in range(n):
        out.append((gen.conn_log(rng), rng.randrange(10 ** 9), 0))
    return out


def jobs_preempt(rng, thorough):
    """second pass with line-level preemption: a preemption may fall between taking a log entry's time stamp (the shim-level `clock`
    observation the acceptor uses to order log appends) and the append itself, so here the acceptor ignores the log (size 0, clock hidden)
    and the snapshots are judged by the monitor alone"""
    n = 10000 if thorough else 150
    return [(dict(gen.conn_log(rng)), rng.randrange(10 ** 9), rng.choice([3, 6])) for _ in range(n)]


def jobs_stall(rng, thorough):
    """third pass, monitor only: a preempted thread may also be held back (virtual time passes while it sits between two statements), so
    replies can arrive while the sender is between its write and whatever it does next.  The L4 model makes the library's own steps
    urgent, hence no acceptor here."""
    out = []
    for _ in range(8000 if thorough else 150):
        spec = dict(gen.conn_log(rng))
        spec["stall"] = {"prob": 0.6, "us": [500, 5000, 40000, 150000]}
        spec["device"] = dict(spec["device"], latency=rng.choice([0.0, 0.0, 0.001, 0.02]))
        if rng.random() < 0.4:
            # thread switches between any two bytecodes of the log accessor while the other threads keep appending
            spec["hot"] = "get_communication_log_items"
            spec["hot_budget"] = rng.choice([10, 40])
        out.append((spec, rng.randrange(10 ** 9), rng.choice([3, 6, 12])))
    return out


def jobs_misc(rng, thorough):
    """fourth pass, monitor only: the log requested from inside a message callback (the line being delivered has crossed the wire), and after a
    link failure / close() (the log still holds the most recent lines)"""
    out = []
    for _ in range(6000 if thorough else 150):
        if rng.random() < 0.5:
            spec = dict(gen.conn_log(rng))
            spec["device"] = dict(spec["device"], echo_put=True)
            spec["callbacks"] = {"1": [[["snap"]] if rng.random() < 0.5 else [] for _ in range(rng.randint(1, 12))]}
        else:
            spec = gen.conn_lifecycle(rng)
            spec["log_size"] = rng.choice([1, 3, 5, 100])
        out.append((spec, rng.randrange(10 ** 9), rng.choice([0, 0, 3])))
    return out


def run(ctx: core.Ctx):
    ctx.lean_stage(extra_props=("C20x", "Tie"))
    b2check.run_b2(ctx, jobs, ["C20"], label="log scenarios", log_visible=True)
    # exhaustive within a bound: every schedule up to 3 (thorough: 5) deviations from the canonical one, on small scenarios
    _small = gen.small_scenarios()
    b2check.run_systematic(ctx, [_small[n] for n in ['log', 'traffic', 'link-drop']], ["C20"], depth=5 if ctx.tier == "thorough" else 3,
                           label="log, traffic, link-drop", max_runs=60000 if ctx.tier == "thorough" else 6000)
    b2check.run_b2(ctx, jobs_preempt, ["C20"], label="log scenarios with preemption (monitor only for the log)", accept_log_size=0)
    b2check.run_b2(ctx, jobs_stall, ["C20"], label="log scenarios with stalled threads (monitor only)", accept=False)
    b2check.run_b2(ctx, lambda rng, th: [(gen.with_second(rng, gen.conn_log(rng)), rng.randrange(10 ** 9), rng.choice([0, 3])) for _ in range(3000 if th else 80)], ["C20two"],
                   label="a second connection with its own traffic alive in the same process (monitor only, first connection judged)", accept=False)
    b2check.run_b2(ctx, lambda rng, th: [(gen.conn_relog(rng), rng.randrange(10 ** 9), 0) for _ in range(3000 if th else 80)], ["C20re"],
                   label="a second session on the same connection object with another log size (monitor only)", accept=False)
    T = core.tables()
    b2check.run_b2(ctx, lambda rng, th: [(gen.api_log(rng, T), rng.randrange(10 ** 9), 0) for _ in range(600 if th else 60)], ["C20api"],
                   label="the log handed out by a YncaApi object, also one used for connection_check() before (monitor only)", accept=False)
    b2check.run_b2(ctx, jobs_misc, ["C20"], label="log requested from inside a callback / after a link failure or close() (monitor only)", accept=False)
    ctx.info["rule"] = ("sessions shorter and longer than N for N in {0,1,2,5,100}, log snapshots taken at random points by a concurrent caller and compared with the port's own record; each under a seeded schedule with extra line-level preemptions; a case = one schedule; "
                        "non-trivial = distinct (spec, seed)")
    return ctx.finish()


def replay(ctx, path):
    return b2check.replay_b2(json.load(open(path))["replay"], ["C20"])
