"""C07 — initialize() exposes exactly the subunits the device has, fully populated
Lean: Props/C07.lean.  Tie: B2 — YncaApi.initialize() against each of the 12 recorded receivers and synthetic devices (random subset of the 22 optional subunits, random subsets of functions, multi-value answers, unsolicited updates, first probe swallowed); monitor + L4 trace acceptor on the connection-level events of the same runs."""
from __future__ import annotations

import json

from .. import b2check, core, gen

RECS = ["R-N500", "RX-A2A", "RX-A6A", "RX-A810", "RX-V1067", "RX-V2067", "RX-V473", "RX-V475", "RX-V500D", "RX-V583", "RX-V685", "TSR-700"]


def jobs(rng, thorough):
    T = core.tables()
    out = []
    for r in RECS:
        for _ in range(20 if thorough else 1):
            out.append((gen.api_init(rng, T, recorded=r), rng.randrange(10 ** 9), rng.choice([0, 3])))
    for _ in range(8000 if thorough else 110):
        out.append((gen.api_init(rng, T), rng.randrange(10 ** 9), rng.choice([0, 0, 3])))
    return out


def run(ctx: core.Ctx):
    ctx.lean_stage(extra_props=("C06b", "C07a", "C07b", "Tie"))
    js = []
    results = b2check.run_b2(ctx, lambda rng, th: js.extend(jobs(rng, th)) or js, ["C07", "L5run", "APIrun"], label="api initialisation")
    b2check.l5_fold(ctx, results, "YncaApi.initialize()")
    b2check.api_fold(ctx, results, js)
    T = core.tables()

    def paused(rng, th):
        out = []
        for _ in range(4000 if th else 90):
            spec = gen.api_init(rng, T)
            if len(spec.get("present", [])) > 4:
                spec["present"] = spec["present"][:4]
                spec["device"]["avail"] = {k: v for k, v in spec["device"]["avail"].items() if k in spec["present"]}
            t1 = round(rng.uniform(1.0, 9.0), 2)
            spec["device"]["pause"] = [t1, round(t1 + rng.choice([2.2, 3.5, 5.0, 9.0]), 2)]       # busy for a while: no replies to what arrives meanwhile
            spec["healthy"] = False                                                                # (a failing initialize() is C14's business)
            out.append((spec, rng.randrange(10 ** 9), rng.choice([0, 0, 3])))
        return out
    b2check.run_b2(ctx, paused, ["C07"], label="receivers that stop answering for a few seconds in the middle of the start-up dialogue")
    b2check.run_b2(ctx, lambda rng, th: [(gen.api_init_two_ok(rng, T), rng.randrange(10 ** 9), 0) for _ in range(800 if th else 50)], ["C07"],
                   label="a second YncaApi object initialised against another receiver afterwards: each object exposes its own receiver (monitor only)", accept=False)
    b2check.run_b2(ctx, lambda rng, th: [(gen.api_reinit(rng, T), rng.randrange(10 ** 9), 0) for _ in range(3000 if th else 60)], ["C07"],
                   label="second initialize() on the same object after a failed first attempt, monitor only", accept=False)
    ctx.info["rule"] = ("the 12 recordings (harness's own recorded-device simulator) and synthetic devices: any subset of the optional subunits, random subsets of functions with valid values, multi-value answers, unsolicited updates during start-up, latencies below the time-outs, first probe swallowed; each under a seeded schedule, some with extra line-level preemptions; a case = one schedule; non-trivial = distinct (spec, seed)")
    return ctx.finish()


def replay(ctx, path):
    return b2check.replay_b2(json.load(open(path))["replay"], ["C07"])
