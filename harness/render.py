"""Render an observable trace (harness vocabulary) as input lines for `ynca_model accept`."""
from __future__ import annotations

from . import core


def tid_of(th: str) -> int:
    if th.startswith("R"):
        return 0
    if th.startswith("U"):
        return 10 + int(th[1:].split("-")[0] or 0)
    return 99


def opt(x):
    return "~" if x is None else core.hx(x)


def render(trace, log_size=0, hidden=(), spacing=100_000, ka=30_000_000, join=2_000_000, read=1_000_000, end_t=None, snapshots=True):
    out = [f"params {spacing} {ka} {join} {read} {log_size} {','.join(hidden) if hidden else '-'}"]
    idx = []          # trace seq per emitted event line (for reporting)
    calls = {}
    rets = {e["call"]: e for e in trace if e["k"] == "ret"}
    opened = any(e["k"] == "thread_exit" and e["th"].startswith("R") for e in trace) or any(e["th"].startswith("R") for e in trace)
    submitting = {}
    for e in trace:
        k = e["k"]
        t = e["t"]
        line = None
        if k == "call" and e["op"][0] in ("put", "get", "raw"):
            submitting[e["th"]] = True
        elif k == "ret" and e["op"][0] in ("put", "get", "raw"):
            submitting[e["th"]] = False
        if k == "qput" and submitting.get(e["th"]):
            line = f"out enq {tid_of(e['th'])}"
        elif k == "call":
            op = e["op"]
            calls[e["seq"]] = e
            tid = tid_of(e["th"])
            if op[0] == "connect":
                line = "in startR" if opened else None      # the port could not be opened: no reader thread is ever started
            elif op[0] in ("put", "get", "raw"):
                from .monitors import text_of
                line = f"in call {tid} {core.hx(text_of(op))}"
            elif op[0] == "close":
                line = f"in close {tid}"
            elif op[0] == "reg":
                line = f"in reg {tid} {op[1]}"
            elif op[0] == "unreg":
                line = f"in unreg {tid} {op[1]}"
        elif k == "ret":
            op = e["op"]
            tid = tid_of(e["th"])
            if op[0] == "connect":
                if e["exc"] is None:
                    line = "in publish"
            elif op[0] in ("put", "get", "raw"):
                line = f"out ret {tid}"
            elif op[0] == "close":
                line = f"out ret {tid}" if e["exc"] is None else f"out craise {tid}"
            elif op[0] == "snap" and e.get("res") is not None and snapshots and "clock" not in hidden:
                ents = []
                for x in e["res"]:
                    parts = x.split(" ", 2)
                    if len(parts) == 3 and parts[1] in ("Send:", "Received:"):
                        ents.append(("S:" if parts[1] == "Send:" else "R:") + core.hx(parts[2]))
                    else:
                        ents.append("X:" + core.hx(x))
                line = "snap " + " ".join(ents) if ents else "snap"
        elif k == "feed":
            line = f"in dev {e['data'] or '-'}"
        elif k == "fault_injected":
            line = "in fault"
        elif k == "write":
            d = bytes.fromhex(e["data"])
            txt = d[:-2].decode("utf-8", "replace") if d.endswith(b"\r\n") else None
            line = f"out write {core.hx(txt)}" if txt is not None else f"out write X{e['data']}"
        elif k == "write_rejected":
            d = bytes.fromhex(e["data"])
            line = f"out wrej {core.hx(d[:-2].decode('utf-8', 'replace'))}"
        elif k == "write_fault":
            d = bytes.fromhex(e["data"])
            out.append(f"{t} in wfault")
            idx.append(e["seq"])
            line = f"out wrej {core.hx(d[:-2].decode('utf-8', 'replace'))}"
        elif k == "read":
            line = f"out read {e['data'] or '-'}"
        elif k == "read_fault":
            line = "out rfault"
        elif k == "msg_cb":
            line = f"out msgcb {e['cb']} {e['status']} {opt(e['su'])} {opt(e['fn'])} {opt(e['val'])}"
        elif k == "msg_cb_ret":
            line = f"out cbret {e['cb']}"
        elif k == "disc_cb":
            line = "out disc"
        elif k == "disc_cb_ret":
            line = "out discret"
        elif k == "port_close":
            line = "out portclose"
        elif k == "clock":
            line = f"out clock {0 if e['th'].startswith('R') else 1}"
        elif k == "thread_exit" and e.get("exc") is None:
            if e["th"] == "S":
                line = "out exitS"
            elif e["th"] == "R":
                line = "out exitR"
        if line is not None:
            out.append(f"{t} {line}")
            idx.append(e["seq"])
    out.append(f"{end_t if end_t is not None else (trace[-1]['t'] if trace else 0)} stop")
    idx.append(None)
    out.append("end")
    return out, idx
