"""API-level scenarios (YncaApi.initialize / connection_check / a single subunit's initialize) under DetSched.

The public methods of YncaConnection are wrapped (from outside, in the harness) so that the calls the API layer makes on
its connection appear in the trace in the same vocabulary as caller operations of connection-level scenarios; message
callbacks are wrapped at registration so that their invocations are observable.  Nothing in /repo is touched."""
from __future__ import annotations

import enum
import math
from fractions import Fraction

from . import sched
from .scen import make_device

_patched = False
_cb_ids = {}
_wrappers = {}


def show(v):
    if isinstance(v, enum.Enum):
        return f"m:{type(v).__name__}:{v.name}"
    if v is None:
        return "NONE"
    if isinstance(v, bool):
        return f"b:{v}"
    if isinstance(v, int):
        return f"i:{v}"
    if isinstance(v, float):
        if not math.isfinite(v):
            return "fn"
        f = Fraction(v)
        return f"F:{f.numerator}/{f.denominator}"
    if isinstance(v, str):
        return "s:" + v
    return "other:" + type(v).__name__


def patch_connection():
    """wrap YncaConnection's public methods so that they emit call/ret events (idempotent per process)"""
    global _patched
    import ynca.connection as YC
    C = YC.YncaConnection
    if getattr(C, "_verif_patched", False):
        return
    C._verif_patched = True

    def tag(conn):
        # events of a second connection / API object of the same process (its URL ends in "port2") are tagged
        return {"dev": 2} if str(getattr(conn, "_port", "")).endswith("port2") else {}

    def wrap(name, opf):
        orig = getattr(C, name)

        def w(self, *a, **k):
            s = sched.S
            if s is None or s.finished or getattr(self, "_verif_mute", False):
                return orig(self, *a, **k)
            role = s.cur.role if s.cur else "?"
            ev = s.emit("call", op=opf(self, *a, **k), ctx=f"api@{role}" + ("-final" if getattr(self, "_verif_final", False) else ""), **tag(self))
            exc = None
            try:
                return orig(self, *a, **k)
            except sched.Hang:
                raise
            except BaseException as e:  # noqa: BLE001
                exc = e
                raise
            finally:
                if sched.S is s and not s.finished:
                    s.emit("ret", call=ev["seq"], op=ev["op"], ctx=ev["ctx"], exc=type(exc).__name__ if exc else None, msg=str(exc)[:200] if exc else None, res=None, **tag(self))
        setattr(C, name, w)

    wrap("put", lambda self, s, f, v: ["put", f"{s}", f, v])
    wrap("get", lambda self, s, f: ["get", f"{s}", f])
    wrap("raw", lambda self, t: ["raw", t])
    wrap("close", lambda self: ["close"])
    wrap("connect", lambda self, *a, **k: ["connect"])

    orig_reg = C.register_message_callback
    orig_unreg = C.unregister_message_callback

    def cbid(cb):
        key = (getattr(cb, "__self__", None).__class__.__name__ if hasattr(cb, "__self__") else "fn", id(getattr(cb, "__self__", cb)), getattr(cb, "__name__", "cb"))
        if key not in _cb_ids:
            _cb_ids[key] = 100 + len(_cb_ids)
        return _cb_ids[key], key

    def reg(self, cb):
        s = sched.S
        n, key = cbid(cb)
        if key not in _wrappers:
            def wrapper(status, su, fn, val, _cb=cb, _n=n, _tag=tag(self)):
                s2 = sched.S
                if s2 is not None and not s2.finished:
                    s2.emit("msg_cb", cb=_n, status=status.name, su=su, fn=fn, val=val, **_tag)
                try:
                    return _cb(status, su, fn, val)
                finally:
                    if sched.S is s2 and s2 is not None and not s2.finished:
                        s2.emit("msg_cb_ret", cb=_n, **_tag)
            _wrappers[key] = wrapper
        if s is not None and not s.finished:
            owner = getattr(cb, "__self__", None)
            ev = s.emit("call", op=["reg", n], ctx=f"api@{s.cur.role if s.cur else '?'}", cls=key[0], sid=(str(getattr(getattr(owner, "id", None), "value", getattr(owner, "id", None)) or "") or None) if owner is not None else None, **tag(self))
        orig_reg(self, _wrappers[key])
        if s is not None and not s.finished:
            s.emit("ret", call=ev["seq"], op=["reg", n], ctx=ev["ctx"], exc=None, msg=None, res=None, **tag(self))

    def unreg(self, cb):
        s = sched.S
        n, key = cbid(cb)
        if s is not None and not s.finished:
            ev = s.emit("call", op=["unreg", n], ctx=f"api@{s.cur.role if s.cur else '?'}", cls=key[0], **tag(self))
        orig_unreg(self, _wrappers.get(key, cb))
        if s is not None and not s.finished:
            s.emit("ret", call=ev["seq"], op=["unreg", n], ctx=ev["ctx"], exc=None, msg=None, res=None, **tag(self))

    C.register_message_callback = reg
    C.unregister_message_callback = unreg


class ApiSession:
    def __init__(self, spec):
        self.spec = spec
        self.dev = None
        self.port = None

    def open_hook(self, url):
        if self.spec.get("open_fails"):
            import serial
            raise serial.SerialException("could not open port")
        self.opens = getattr(self, "opens", 0) + 1
        if str(url).endswith("port2") and self.spec.get("other_device"):
            # a second receiver, used by another YncaApi object of the same process (its events are tagged)
            dev2 = make_device(self.spec["other_device"], None)
            dev2.tag = 2
            port2 = sched.VSerial(dev2)
            port2.tag = 2
            return port2
        first = self.spec.get("first_device")
        self.dev = make_device(first if (first and self.opens == 1) else self.spec.get("device"), None)
        self.port = sched.VSerial(self.dev)
        wf = self.spec.get("write_fault_after")
        if wf is not None:
            self.port.write_fault_after = wf
        wl = self.spec.get("write_fault_late")
        if wl:
            self.port.write_fault_late = (wl["n"], wl.get("exc", "SerialException"))
        wo = self.spec.get("write_fault_once")
        if wo:
            self.port.write_fault_once = (wo["n"], wo.get("exc", "SerialException"))
        return self.port

    def dump_api(self, api_obj):
        import ynca
        from ynca.constants import Subunit
        out = {}
        for su in Subunit:
            acc = su.value.lower()
            obj = getattr(api_obj, acc, None)
            if obj is None:
                continue
            attrs = {}
            from ynca.function import Cmd
            for name, h in obj.function_handlers.items():
                if Cmd.GET in h.function.cmd:
                    v = h.value
                    if v is not None:
                        attrs[name] = show(v)
            out[su.value] = {"id": f"{obj.id}", "class": type(obj).__name__, "attrs": attrs}
        return out

    def run(self, api):
        patch_connection()
        _cb_ids.clear()
        _wrappers.clear()
        import ynca
        spec = self.spec
        kind = spec["kind"]
        if kind == "api_init":
            a = ynca.YncaApi("virtual://port", (lambda: (api.emit("disc_cb"), api.emit("disc_cb_ret"))) if spec.get("disconnect_cb", True) else None, spec.get("log_size", 0))
            if spec.get("first_device"):
                # a first attempt on the same object fails (the receiver stops answering); what follows is the attempt that is judged
                try:
                    a.initialize()
                    api.emit("attempt1", exc=None)
                except sched.Hang:
                    raise
                except BaseException as e:  # noqa: BLE001
                    api.emit("attempt1", exc=type(e).__name__)
                api.sleep(1.0)
                api.emit("attempt2")
            for _ in range(spec.get("check_first", 0)):
                # the same object is first used for connection_check(): a connection of its own that is closed again
                try:
                    a.connection_check()
                except sched.Hang:
                    raise
                except BaseException:  # noqa: BLE001
                    pass
                api.sleep(0.7)
            closer = spec.get("closer")
            if closer:
                # another thread calls YncaApi.close() while initialize() is (probably) still running
                def close_later():
                    api.sleep(closer["at"])
                    for _ in range(closer.get("times", 1)):
                        ev2 = api.emit("call", op=["close"], ctx="U1")
                        exc2 = None
                        conn2 = a._connection
                        if conn2 is not None:
                            conn2._verif_mute = True
                        try:
                            a.close()
                        except sched.Hang:
                            raise
                        except BaseException as e:  # noqa: BLE001
                            exc2 = e
                        finally:
                            if conn2 is not None:
                                conn2._verif_mute = False
                        api.emit("ret", call=ev2["seq"], op=["close"], ctx="U1", exc=type(exc2).__name__ if exc2 else None, msg=str(exc2)[:200] if exc2 else None, res=None)
                api.spawn("U1", close_later)
            ev = api.emit("api_call", op="initialize")
            exc = None
            try:
                a.initialize()
            except sched.Hang:
                raise
            except BaseException as e:  # noqa: BLE001
                exc = e
            api.emit("api_ret", call=ev["seq"], op="initialize", exc=type(exc).__name__ if exc else None, msg=str(exc)[:200] if exc else None,
                     state=self.dump_api(a), conn_none=a._connection is None, order=[str(getattr(k, "value", k)) for k in a._subunits.keys()])
            if spec.get("other_device"):
                # afterwards ANOTHER YncaApi object of the same process is initialised against another (healthy) receiver: that is nobody's
                # business but its own — the first object's state is looked at again
                b = ynca.YncaApi("virtual://port2", None, 0)
                exc_b = None
                try:
                    b.initialize()
                except sched.Hang:
                    raise
                except BaseException as e:  # noqa: BLE001
                    exc_b = e
                api.emit("other_api", exc=type(exc_b).__name__ if exc_b else None, other_state=sorted(self.dump_api(b)), state=self.dump_api(a))
                if not spec.get("other_keep"):
                    try:
                        b.close()
                    except sched.Hang:
                        raise
                    except BaseException:  # noqa: BLE001
                        pass
            for op in spec.get("after", []):
                if op[0] == "sleep":
                    api.sleep(op[1])
                elif op[0] == "close":
                    ev = api.emit("api_call", op="close")
                    exc = None
                    if a._connection is not None and op[-1] == "final":
                        a._connection._verif_final = True
                    try:
                        a.close()
                    except BaseException as e:  # noqa: BLE001
                        exc = e
                    api.emit("api_ret", call=ev["seq"], op="close", exc=type(exc).__name__ if exc else None, state=self.dump_api(a), conn_none=a._connection is None)
                elif op[0] == "dump":
                    api.emit("api_state", state=self.dump_api(a))
                elif op[0] == "snap":
                    # the communication log as the YncaApi object hands it out
                    ev = api.emit("call", op=["snap"], ctx="U0")
                    exc, res = None, None
                    try:
                        res = list(a.get_communication_log_items())
                    except sched.Hang:
                        raise
                    except BaseException as e:  # noqa: BLE001
                        exc = e
                    api.emit("ret", call=ev["seq"], op=["snap"], ctx="U0", exc=type(exc).__name__ if exc else None, msg=str(exc)[:200] if exc else None, res=res)
                elif op[0] == "assign_enum":
                    # a typed write through an accessor of the FIRST object: ["assign_enum", accessor, attribute, enum class, member]; recorded as the
                    # caller's submission of the line it stands for (the connection-level calls underneath are not recorded separately)
                    import ynca as _y
                    member = getattr(getattr(_y, op[3]), op[4])
                    obj = getattr(a, op[1], None)
                    if obj is None:
                        api.emit("accessor_gone", accessor=op[1])
                        continue
                    d = getattr(type(obj), op[2])
                    sid = str(getattr(obj.id, "value", obj.id))
                    ev = api.emit("call", op=["put", sid, d.name, member.value], ctx="U0")
                    exc = None
                    conns = [c for c in (a._connection, (b._connection if spec.get("other_device") else None)) if c is not None]
                    for c in conns:
                        c._verif_mute = True
                    try:
                        setattr(obj, op[2], member)
                    except sched.Hang:
                        raise
                    except BaseException as e:  # noqa: BLE001
                        exc = e
                    finally:
                        for c in conns:
                            c._verif_mute = False
                    api.emit("ret", call=ev["seq"], op=["put", sid, d.name, member.value], ctx="U0", exc=type(exc).__name__ if exc else None, msg=str(exc)[:200] if exc else None, res=None)
                elif op[0] == "send_raw":
                    # the typed API's raw entry point: recorded as the caller's submission (the connection-level call underneath is not
                    # recorded separately, so that what was SUBMITTED is compared with the wire)
                    ev = api.emit("call", op=["raw", op[1]], ctx="U0")
                    exc = None
                    if a._connection is not None:
                        a._connection._verif_mute = True
                    try:
                        a.send_raw(op[1])
                    except sched.Hang:
                        raise
                    except BaseException as e:  # noqa: BLE001
                        exc = e
                    finally:
                        if a._connection is not None:
                            a._connection._verif_mute = False
                    api.emit("ret", call=ev["seq"], op=["raw", op[1]], ctx="U0", exc=type(exc).__name__ if exc else None, msg=str(exc)[:200] if exc else None, res=None)
            if spec.get("other_device") and spec.get("other_keep"):
                try:
                    b.close()
                except sched.Hang:
                    raise
                except BaseException:  # noqa: BLE001
                    pass
            api.sleep(spec.get("final_wait", 6))
        elif kind == "conn_check":
            a = ynca.YncaApi("virtual://port", (lambda: (api.emit("disc_cb"), api.emit("disc_cb_ret"))) if spec.get("disconnect_cb", True) else None, spec.get("log_size", 0))
            for _rep in range(spec.get("repeat", 1) - 1):
                # earlier runs on the same object are not judged (their events are cut off by the marker)
                try:
                    a.connection_check()
                except sched.Hang:
                    raise
                except BaseException:  # noqa: BLE001
                    pass
                api.sleep(3.0)
                api.emit("attempt2")
            other = None
            if spec.get("other_device"):
                # another YncaApi object checks another receiver at the same time: two connections alive in one process
                b = ynca.YncaApi("virtual://port2", None, 0)

                def other_check():
                    api.sleep(spec.get("other_delay", 0.0))
                    ev2 = api.emit("api_call2", op="connection_check")
                    res2, exc2 = None, None
                    try:
                        r2 = b.connection_check()
                        res2 = {"modelname": r2.modelname, "zones": list(r2.zones)}
                    except sched.Hang:
                        raise
                    except BaseException as e2:  # noqa: BLE001
                        exc2 = e2
                    api.emit("api_ret2", call=ev2["seq"], op="connection_check", exc=type(exc2).__name__ if exc2 else None, res=res2)
                other = api.spawn("U7", other_check)
            ev = api.emit("api_call", op="connection_check")
            exc = None
            res = None
            try:
                r = a.connection_check()
                res = {"modelname": r.modelname, "zones": list(r.zones)}
            except sched.Hang:
                raise
            except BaseException as e:  # noqa: BLE001
                exc = e
            api.emit("api_ret", call=ev["seq"], op="connection_check", exc=type(exc).__name__ if exc else None, msg=str(exc)[:200] if exc else None, res=res)
            if other is not None:
                other.join()
            api.sleep(spec.get("final_wait", 6))
        elif kind == "subunit":
            import ynca.connection as YC
            from .realobj import subunit_class
            from ynca.function import Cmd
            conn = YC.YncaConnection("virtual://port")
            conn.connect(None, 0)
            inits = spec.get("inits") or [{"class": spec["class"]}]
            objs = []
            for k, it in enumerate(inits):
                if it.get("same_as") is not None:
                    objs.append(objs[it["same_as"]])        # initialise an object a second time
                    continue
                o = subunit_class(it["class"])(conn)
                o.register_update_callback(lambda fn, v, _k=k, _o=o: api.emit("upd_cb", fn=fn, val=show(v), obj=_k,
                                                                             cache=show(_o.function_handlers[fn].value) if fn in _o.function_handlers else None))
                objs.append(o)
            if spec.get("pre_delay"):
                api.sleep(spec["pre_delay"])
            for k, (it, obj) in enumerate(zip(inits, objs)):
                ev = api.emit("api_call", op="sub_initialize", cls=it["class"], idx=k)
                exc = None
                try:
                    obj.initialize()
                except sched.Hang:
                    raise
                except BaseException as e:  # noqa: BLE001
                    exc = e
                attrs = {n: show(h.value) for n, h in obj.function_handlers.items() if Cmd.GET in h.function.cmd and h.value is not None}
                api.emit("api_ret", call=ev["seq"], op="sub_initialize", idx=k, exc=type(exc).__name__ if exc else None, msg=str(exc)[:200] if exc else None, attrs=attrs)
                if it.get("gap"):
                    api.sleep(it["gap"])
            late = spec.get("late")
            if late:
                # further subunit objects are constructed on the live connection at a moment when lines are being delivered (the reader thread
                # is inside the fan-out to the registered callbacks); later reports for them must be readable
                api.sleep(max(0.0, late["at"] - sched.S.now / 1e6))
                late_objs = []
                for it in late["inits"]:
                    late_objs.append(subunit_class(it["class"])(conn))
                api.emit("late_constructed", n=len(late_objs))
                api.sleep(late.get("settle", 2.0))
                for k, (it, o) in enumerate(zip(late["inits"], late_objs)):
                    attrs = {n: show(h.value) for n, h in o.function_handlers.items() if Cmd.GET in h.function.cmd and h.value is not None}
                    api.emit("late_state", idx=k, cls=it["class"], attrs=attrs)
                for o in late_objs:
                    o.close()
            api.sleep(spec.get("settle", 1.0))
            for obj in objs:
                obj.close()
            conn.close()
            api.sleep(5)
        elif kind == "conv_race":
            # the converters are class-level objects shared by every instance of a subunit class (two receivers in one process decode through
            # the same object from two reader threads): concurrent decoding must give what sequential decoding gives
            from .realobj import subunit_class
            from .l3 import show_real
            conv = getattr(subunit_class(spec["class"]), spec["attr"]).converter

            def worker(i):
                for t in spec["texts"][i]:
                    try:
                        r = "OK " + show_real(conv.to_value(t))
                    except sched.Hang:
                        raise
                    except BaseException as e:  # noqa: BLE001
                        r = "R " + type(e).__name__
                    api.emit("conv", i=i, text=t, res=r)
            ths = [api.spawn(f"U{i + 1}", worker, i) for i in range(len(spec["texts"]))]
            for t in ths:
                t.join()
        elif kind == "client_lock":
            # the common client pattern "my callback stores under my lock; my other thread (un)registers / closes under my lock": the library
            # must not hold anything of its own across a notification that the (un)registration needs — otherwise reader and client deadlock
            import ynca.connection as YC
            from .realobj import subunit_class
            conn = YC.YncaConnection("virtual://port")
            conn.connect(None, 0)
            obj = subunit_class(spec["class"])(conn)
            obj.initialize()
            L = sched.VLock()
            seen = []

            def ucb(i):
                def cb(fn, v):
                    with L:
                        seen.append(("u", i, fn))
                        api.emit("upd_cb", cb=i, fn=fn)
                return cb

            def mcb(i):
                def cb(st, su, fn, v):
                    with L:
                        api.emit("lk_msg_cb", cb=i, fn=fn)
                return cb
            ucbs = {i: ucb(i) for i in range(1, 6)}
            mcbs = {i: mcb(i) for i in range(1, 6)}
            for i in (1, 2):
                obj.register_update_callback(ucbs[i])
                conn.register_message_callback(mcbs[i])

            def other():
                for op in spec["ops2"]:
                    if op[0] == "sleep":
                        api.sleep(op[1])
                        continue
                    with L:
                        api.emit("lk_op", op=op)
                        try:
                            if op[0] == "unreg_update":
                                obj.unregister_update_callback(ucbs[op[1]])
                            elif op[0] == "reg_update":
                                obj.register_update_callback(ucbs[op[1]])
                            elif op[0] == "unreg_msg":
                                conn.unregister_message_callback(mcbs[op[1]])
                            elif op[0] == "reg_msg":
                                conn.register_message_callback(mcbs[op[1]])
                            elif op[0] == "close_subunit":
                                obj.close()
                        except KeyError:
                            pass
                        if op[0] == "hold":
                            api.sleep(op[1])
            th = api.spawn("U1", other)
            th.join()
            api.sleep(spec.get("settle", 2.0))
            api.emit("lk_done", seen=len(seen))
            obj.close()
            conn._verif_final = True
            conn.close()
            api.sleep(5)
        elif kind == "set_race":
            # descriptors and converters are class-level objects shared by every instance of a subunit class (and, through base classes and
            # shared mix-ins, by several classes): what an assignment transmits must depend on the assigned value only — not on what another
            # thread assigns at the same time, on what was assigned before, or on what the receiver reported in between
            from .realobj import make
            from .props.c11 import pyval_token
            from ynca.connection import YncaProtocolStatus as _St
            objs = [make(c) for c in spec["classes"]]

            def worker(i):
                obj, conn = objs[i]
                for op in spec["ops"][i]:
                    if op[0] == "report":
                        try:
                            conn.deliver(_St.OK, str(obj.id.value if hasattr(obj.id, "value") else obj.id), op[1], op[2])
                        except sched.Hang:
                            raise
                        except BaseException as e:  # noqa: BLE001
                            api.emit("setr", i=i, cls=spec["classes"][i], fn=op[1], tok="report", rep=op[2], res="R " + type(e).__name__)
                        continue
                    attr, fname, v = op[1], op[2], op[3]
                    n0 = len(conn.sent)
                    try:
                        setattr(obj, attr, v)
                        sent = conn.sent[n0:]
                        if len(sent) == 1 and sent[0][0] == "put" and sent[0][2] == fname and isinstance(sent[0][3], str):
                            r = "S " + sent[0][3]
                        else:
                            r = "X " + repr(sent)[:120]
                    except sched.Hang:
                        raise
                    except BaseException as e:  # noqa: BLE001
                        r = "R " + type(e).__name__
                    api.emit("setr", i=i, cls=spec["classes"][i], fn=fname, tok=pyval_token(v), rep=repr(v), res=r)
            ths = [api.spawn(f"U{i + 1}", worker, i) for i in range(len(objs))]
            for t in ths:
                t.join()
        elif kind == "subunit_wire":
            # end to end: typed reads / assignments / action methods on a real subunit object on a real connection; the device reports values
            import ynca.connection as YC
            from .realobj import subunit_class
            from .l3 import show_real
            from .wire import from_token
            conn = YC.YncaConnection("virtual://port")
            conn.connect(None, 0)
            obj = subunit_class(spec["class"])(conn)
            if spec.get("initialize"):
                ev = api.emit("api_call", op="sub_initialize", cls=spec["class"], idx=0)
                exc = None
                try:
                    obj.initialize()
                except sched.Hang:
                    raise
                except BaseException as e:  # noqa: BLE001
                    exc = e
                api.emit("api_ret", call=ev["seq"], op="sub_initialize", idx=0, exc=type(exc).__name__ if exc else None, msg=str(exc)[:200] if exc else None)
            for op in spec["ops"]:
                if op[0] == "sleep":
                    api.sleep(op[1])
                    continue
                if op[0] == "until":
                    if api.now < op[1] * 1_000_000:
                        api.sleep(op[1] - api.now / 1_000_000)
                    continue
                ev = api.emit("w_call", op=op)
                exc = None
                res = None
                try:
                    if op[0] == "assign":
                        setattr(obj, op[1], from_token(op[2]))
                    elif op[0] == "act":
                        getattr(obj, op[1])(*[from_token(t) for t in op[2]])
                    elif op[0] == "read":
                        res = show_real(getattr(obj, op[1]))
                except sched.Hang:
                    raise
                except BaseException as e:  # noqa: BLE001
                    exc = e
                api.emit("w_ret", call=ev["seq"], op=op, exc=type(exc).__name__ if exc else None, msg=str(exc)[:200] if exc else None, res=res)
            api.sleep(spec.get("settle", 3.0))
            obj.close()
            conn._verif_final = True         # this close() ends the observation (see monitors.lifecycle)
            conn.close()
            api.sleep(5)
        return "done"


def make(spec):
    return ApiSession(spec)
