"""C06 for user-defined subunit classes: the library's function mixins are meant to be mixed into subclasses of SubunitBase (and of the
bundled subunit classes).  Synthetic subclasses are built at run time from the bundled classes' own descriptors —
  (a) an inherited function re-declared with `no_initialize=True` (or, for a function that is excluded, re-declared as initialisable),
  (b) an extra function whose `init=` names another ordinary function of the same subunit,
  (c) an inherited grouped function re-declared without its group —
initialised on a stub connection (the seam the repository's own tests use, sync query answered synchronously), and the GETs compared with an
independent statement of the property: Python attribute lookup decides which declaration of a name counts (the most derived one); each
distinct initial query (the function's own name, or the query it is grouped under) is requested exactly once, in first-use order over the
attribute names in sorted order; functions excluded from initialisation are never queried; one SYS:VERSION last."""
from __future__ import annotations

import copy


def declared(cls):
    """(attribute name, descriptor) of every function the class models, by Python's own attribute lookup, keyed by protocol name"""
    from ynca.function import FunctionMixinBase
    by_name = {}
    for attr in sorted(dir(cls)):
        d = getattr(cls, attr, None)
        if isinstance(d, FunctionMixinBase):
            by_name[d.name] = (attr, d)
    return list(by_name.values())


def expected_queries(cls):
    out = []
    for attr, d in declared(cls):
        if d.no_initialize:
            continue
        q = d.initializer if d.initializer is not None else d.name
        if q not in out:
            out.append(q)
    return out


def variants(rng, cls):
    """synthetic subclasses of one bundled class: [(description, class)]"""
    from ynca.function import Cmd
    out = []
    fns = declared(cls)
    own = [(a, d) for a, d in fns if not d.no_initialize and d.initializer is None]
    grouped = [(a, d) for a, d in fns if not d.no_initialize and d.initializer is not None]
    excluded = [(a, d) for a, d in fns if d.no_initialize]

    def redeclare(attr, d, **changes):
        c = copy.copy(d)
        for k, v in changes.items():
            setattr(c, k, v)
        c._name_override = d.name          # keep the protocol name whatever the attribute is called
        return c

    if own:
        a, d = rng.choice(own)
        out.append((f"{cls.__name__}: inherited {d.name} re-declared with no_initialize=True", type("Synth" + cls.__name__ + "A", (cls,), {a: redeclare(a, d, no_initialize=True)})))
        a2, d2 = rng.choice(own)
        extra = redeclare(a2, d2, initializer=d2.name)
        extra._name_override = "ZZEXTRA"
        out.append((f"{cls.__name__}: extra function ZZEXTRA with init={d2.name!r} (an ordinary function of the same subunit)",
                    type("Synth" + cls.__name__ + "B", (cls,), {"zzextra": extra})))
        first = redeclare(a2, d2, initializer=d2.name)
        first._name_override = "AAFIRST"
        out.append((f"{cls.__name__}: extra function AAFIRST (sorts first) with init={d2.name!r}", type("Synth" + cls.__name__ + "C", (cls,), {"aafirst": first})))
    if grouped:
        a, d = rng.choice(grouped)
        out.append((f"{cls.__name__}: grouped {d.name} (init={d.initializer!r}) re-declared without its group",
                    type("Synth" + cls.__name__ + "D", (cls,), {a: redeclare(a, d, initializer=None)})))
        out.append((f"{cls.__name__}: grouped {d.name} re-declared with no_initialize=True",
                    type("Synth" + cls.__name__ + "E", (cls,), {a: redeclare(a, d, no_initialize=True)})))
    if excluded:
        a, d = rng.choice(excluded)
        out.append((f"{cls.__name__}: excluded {d.name} re-declared as initialisable", type("Synth" + cls.__name__ + "F", (cls,), {a: redeclare(a, d, no_initialize=False)})))
    return out


def init_gets(cls):
    """the GETs a real initialize() of a fresh object of `cls` hands to its connection (sync query answered synchronously)"""
    from ynca.connection import YncaProtocolStatus
    from .realobj import StubConnection

    conn = StubConnection()
    obj = cls(conn)
    orig = conn.get

    def get(subunit, funcname):
        orig(subunit, funcname)
        if f"{getattr(subunit, 'value', subunit)}" == "SYS" and funcname == "VERSION":
            conn.deliver(YncaProtocolStatus.OK, "SYS", "VERSION", "1.0")
    conn.get = get
    exc = None
    try:
        obj.initialize()
    except Exception as e:  # noqa: BLE001
        exc = e
    return [(f"{getattr(x[1], 'value', x[1])}", x[2]) for x in conn.sent if x[0] == "get"], exc, f"{getattr(obj.id, 'value', obj.id)}"


def make_initialized(cls):
    """a fresh object of `cls` on a stub connection, initialised (sync query answered synchronously) -> (obj, conn, subunit id)"""
    from ynca.connection import YncaProtocolStatus
    from .realobj import StubConnection

    conn = StubConnection()
    obj = cls(conn)
    orig = conn.get

    def get(subunit, funcname):
        orig(subunit, funcname)
        if f"{getattr(subunit, 'value', subunit)}" == "SYS" and funcname == "VERSION":
            conn.deliver(YncaProtocolStatus.OK, "SYS", "VERSION", "1.0")
    conn.get = get
    obj.initialize()
    conn.get = orig
    return obj, conn, f"{getattr(obj.id, 'value', obj.id)}"
