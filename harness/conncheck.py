"""Tie of the L5c model (Model/ConnCheck.lean) to the code: a scheduled real execution of YncaApi.connection_check() is rendered as the
label sequence of the model —
    probe   the sender took a keep-alive item out of the send queue (queue observation; the flag is set right after it),
    line    the reader began handle_line for the next complete line (its time stamp request; the flag test, the flag reset and the
            delivery to the still-registered callbacks follow without a scheduling point),
    wait    the caller has submitted its five queries and starts to wait,
    wake / timeout   the caller unregisters its callback: the wait has ended by the event / by the time-out (which one is read off
            the call's result; the model then says whether that ending was possible at that moment),
    tick    passage of virtual time —
and the compiled driver (`ynca_model conncheck`) executes `CC.step` on it.  Every label must be enabled (a wake needs the event or the
expired deadline, the clock cannot pass the deadline of a waiting caller) and the model's outcome must be what the real call returned
(model name and zone list, or YncaConnectionError).  A run that differs is a broken correspondence (not by itself a violation).

Eligible: one connection_check() on the object, connect() returned normally, no extra preemption inside the library (the label points
above are atomic only between scheduling points)."""
from __future__ import annotations

from . import core
from .monitors import lines_by_read

CC_TIMEOUT_US = None


def _timeout_us():
    global CC_TIMEOUT_US
    if CC_TIMEOUT_US is None:
        import os, re
        txt = open(os.path.join(core.LEAN, "YncaVerif", "Gen", "Consts.lean")).read()     # regenerated from /repo by the translator on every run
        CC_TIMEOUT_US = int(re.search(r"def ccTimeoutUs : Nat := (\d+)", txt).group(1))
    return CC_TIMEOUT_US


def render(spec, run, preempt):
    if spec.get("kind") != "conn_check":
        return None, "kind"
    if spec.get("repeat"):
        return None, "repeated check"
    if preempt:
        return None, "extra preemption"
    if spec.get("stall") or spec.get("hot"):
        return None, "stalls"
    tr = run.trace
    cret = [e for e in tr if e["k"] == "ret" and e["op"][0] == "connect"]
    if not cret or cret[0]["exc"] is not None:
        return None, "connect() did not return normally"
    aret = [e for e in tr if e["k"] == "api_ret" and e["op"] == "connection_check"]
    if not aret:
        return None, "no return"
    aret = aret[0]
    if aret["exc"] not in (None, "YncaConnectionError"):
        return None, "other exception"
    gets = [e for e in tr if e["k"] == "ret" and e["op"][0] == "get" and str(e.get("ctx", "")).startswith("api@")]
    unreg = [e for e in tr if e["k"] == "call" and e["op"][0] == "unreg" and str(e.get("ctx", "")).startswith("api@")]
    if len(gets) != 5 or not unreg:
        return None, "failed before the wait"
    evs = []
    for e in tr:
        if e["k"] == "qget" and e["th"] == "S" and e["item"] == "_KEEP_ALIVE":
            evs.append((e["seq"], e["t"], "probe"))
    clocks = [e for e in tr if e["k"] == "clock" and e["th"] == "R"]
    lines = lines_by_read(tr)
    if len(clocks) > len(lines):
        return None, "more handled lines than complete lines"
    for c, (_, _, text) in zip(clocks, lines):
        evs.append((c["seq"], c["t"], "line " + core.hx(text)))
    evs.append((gets[-1]["seq"] + 0.5, gets[-1]["t"], "wait"))
    # Event.wait() returned True (event set) or False (timed out, even if the event is set at that very instant)
    evs.append((unreg[0]["seq"], unreg[0]["t"], "wake" if aret["exc"] is None else "timeout"))
    evs.sort(key=lambda x: x[0])
    out = [f"reset {_timeout_us()}"]
    now = 0
    for seq, t, lab in evs:
        if t > now:
            out.append(f"tick {t - now}")
            now = t
        out.append(lab)
    out.append("outcome")
    if aret["exc"] is None:
        want = "ok " + core.hx(aret["res"]["modelname"]) + "".join(" " + core.hx(z) for z in aret["res"]["zones"])
    else:
        want = "error"
    return out, want


def check(spec, run, preempt=0):
    lines, want = render(spec, run, preempt)
    if lines is None:
        return {"cc": "SKIP", "why": want}
    res = core.run_driver("conncheck", lines, timeout=60)
    for i, (l, r) in enumerate(zip(lines[:-1], res[:-1])):
        if r != "ok":
            return {"cc": "REJECT", "index": i, "label": l[:200], "verdict": r, "context": lines[max(0, i - 10):i + 1]}
    got = res[-1] if res else "NO-OUTPUT"
    if got != want:
        return {"cc": "REJECT", "index": len(lines) - 1, "label": "outcome", "verdict": f"model: {got}   implementation: {want}", "context": lines[-14:]}
    return {"cc": "ACCEPT", "labels": len(lines), "outcome": want.split()[0]}
