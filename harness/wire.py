"""End-to-end ("wire") sessions: a real subunit object on a real connection with its real reader and sender threads under the
deterministic scheduler; the device reports values at scripted times, the caller reads / assigns / calls action methods in between.
The observed trace is turned into the op list of the L3 model (`ynca_model subunit`): every line the device sent is parsed by an
independent reader (str.partition) and becomes a `msg` op at the point where the reader thread had certainly processed it; reads,
assignments and actions become the corresponding ops.  Disagreements on reads are C03's, on writes C05's."""
from __future__ import annotations

import enum
import math
from fractions import Fraction

from . import core


class Obj:
    def __repr__(self):
        return "object()"


def from_token(tok):
    """inverse of l3.pyval_token"""
    import ynca.enums as E
    if tok == "n":
        return None
    if tok == "o":
        return Obj()
    if tok == "fn":
        return float("nan")
    if tok == "finf":
        return float("inf")
    k, _, rest = tok.partition(":")
    if k == "b":
        return bool(int(rest))
    if k == "m":
        en, _, mn = rest.partition(":")
        return getattr(E, en)[mn]
    if k == "i":
        return int(rest)
    if k == "f":
        a, _, b = rest.partition(":")
        return float(Fraction(int(a), int(b)))
    if k == "s":
        return core.unhx(rest)
    raise ValueError(tok)


def parse_line(text):
    """independent reading of a received line: (status, subunit, function, value)"""
    if text == "@UNDEFINED":
        return ("UNDEFINED", None, None, None)
    if text == "@RESTRICTED":
        return ("RESTRICTED", None, None, None)
    if text.startswith("@"):
        s, sep, rest = text[1:].partition(":")
        if sep and s:
            f, sep2, v = rest.partition("=")
            if sep2 and f:
                return ("OK", s, f, v)
    return ("OK", None, None, None)


def opt(x):
    return "~" if x is None else core.hx(x)


def verdicts(spec, run):
    """[(property, kind, text)]"""
    from .l3 import canon_model
    from .monitors import PROBE, lines_by_read
    tr = run.trace
    out = []
    cid = spec["expect_id"]
    # ---- timeline
    lines = lines_by_read(tr)                       # (read_seq, window_end_seq, text) in arrival order
    causes = {}
    for e in tr:
        if e["k"] == "dev_line":
            causes.setdefault(e["line"], []).append(e.get("cause"))
    wops = []
    rets = {e["call"]: e for e in tr if e["k"] == "w_ret"}
    for e in tr:
        if e["k"] == "w_call" and e["seq"] in rets:
            wops.append((e, rets[e["seq"]]))
    puts = [e for e in tr if e["k"] == "call" and e["op"][0] in ("put", "get", "raw")]
    model_ops = [f"new {spec['class']}"]
    checks = [None]
    li = 0
    ambiguous = False
    for c, r in wops:
        # feed every line the reader had certainly processed before this operation began
        while li < len(lines) and lines[li][1] < c["seq"]:
            text = lines[li][2]
            li += 1
            if causes.get(text) and all(x == PROBE for x in causes[text]):
                continue                             # replies to keep-alive probes are withheld (C13)
            st, su, fn, v = parse_line(text)
            model_ops.append(f"msg {st} {opt(su)} {opt(fn)} {opt(v)}")
            checks.append(None)
        if li < len(lines) and lines[li][0] < r["seq"]:
            ambiguous = True                         # a line is in flight while the operation runs: stop comparing here
            break
        op = c["op"]
        mine = [p for p in puts if c["seq"] < p["seq"] < r["seq"]]
        if op[0] == "read":
            model_ops.append(f"read 0 {op[1]}")
            real = ("AE" if r["exc"] == "AttributeError" else f"EXC {r['exc']}") if r["exc"] else "V " + r["res"]
            checks.append(("read", op, real, mine))
        else:
            model_ops.append(("assign 0 %s %s" % (op[1], op[2])) if op[0] == "assign" else " ".join(["act 0", op[1]] + list(op[2])))
            if r["exc"]:
                real = ("AE" if r["exc"] == "AttributeError" else "R") + ("+SENT" if mine else "")
            elif len(mine) == 1 and mine[0]["op"][0] == "put" and isinstance(mine[0]["op"][3], str):
                real = f"PUT {core.hx(mine[0]['op'][2])} {core.hx(mine[0]['op'][3])}"
                if f"{mine[0]['op'][1]}" != cid:
                    out.append(("C05", "wrong-subunit", f"{op} sent a PUT addressed to {mine[0]['op'][1]!r}, the object's subunit is {cid!r}"))
            elif not mine:
                real = "NOTHING"
            else:
                real = "SENT " + " ".join(str(p["op"]) for p in mine)
            checks.append(("write", op, real, mine))
    model = [canon_model(x) for x in core.run_driver("subunit", model_ops)]
    for chk, m, mo in zip(checks, model, model_ops):
        if chk is None:
            continue
        kind, op, real, mine = chk
        if kind == "read":
            if mine:
                out.append(("C03", "read-transmits", f"reading {op[1]} made the object submit {[p['op'] for p in mine]}"))
            if m in ("NOATTR",) or m.startswith("bad"):
                continue
            if real != m and not (real == "AE" and m == "AE"):
                out.append(("C03", "read-mismatch", f"attribute {op[1]} reads {real}; the last value the device reported for it decodes to {m} (model op list: …{model_ops[max(0, model_ops.index(mo) - 3):model_ops.index(mo) + 1]})"))
        else:
            if m == "U" or m == "NOATTR" or m.startswith("bad"):
                continue
            raised = lambda x: x in ("AE", "R")  # noqa: E731
            if real != m and not (raised(real) and raised(m)):
                out.append(("C05", "write-mismatch", f"{op}: the object did {real}; the model of the function table says {m}"))
    return out, {"ambiguous": ambiguous, "ops_compared": sum(1 for c in checks if c), "msgs_fed": sum(1 for o in model_ops if o.startswith("msg "))}


def mon_c03w(spec, run):
    v, info = verdicts(spec, run)
    run.results["wire_info"] = info
    return [(k, t) for p, k, t in v if p == "C03"]


def mon_c05w(spec, run):
    from .monitors import mon_c01
    v, info = verdicts(spec, run)
    run.results["wire_info"] = info
    # "... and leaves what the attribute reads unchanged (only a device report changes it)": a read that differs from the model's in a session
    # with writes is this property's business too
    bad = [(k, t) for p, k, t in v if p in ("C05", "C03")]
    # every PUT the object handed to the connection is written exactly once, in order, unchanged (C01's monitor on the same trace)
    bad += [("wire-" + k, t) for k, t in mon_c01(spec, run) if k in ("twice", "lost", "not-written", "framing", "foreign", "order", "thread-died")]
    return bad


def mon_c04_race(spec, run):
    """concurrent decoding through a shared converter = the model's (sequential) decoding of each text"""
    evs = [e for e in run.trace if e["k"] == "conv"]
    model = core.run_driver("decode", [f"{spec['class']} {spec['fn']} {core.hx(e['text'])}" for e in evs])
    bad = []
    for e, m in zip(evs, model):
        if m == "U":
            continue
        real = e["res"]
        if m == "R":
            ok = real.startswith("R ")
        else:
            mv = m[3:]
            if mv.startswith("d:"):
                _, mant, fr = mv.split(":")
                f = Fraction(float(Fraction(int(mant), 10 ** int(fr))))
                mv = f"F:{f.numerator}/{f.denominator}"
            ok = real == "OK " + ("NONE" if mv == "n" else mv)
        if not ok:
            bad.append(("concurrent-decode", f"thread {e['i']} decoded {e['text']!r} for {spec['class']}.{spec['fn']} as {real}; sequentially it decodes as {m}"))
            break
    return bad


def mon_c11_race(spec, run):
    """what an assignment of a stepped number transmits = what the (stateless) model transmits for that value, whatever other threads assign
    at the same time, whatever was assigned before and whatever the receiver reported in between; judged by the independent oracle too"""
    from .props.c11 import SPEC, oracle
    evs = [e for e in run.trace if e["k"] == "setr" and e["tok"] != "report"]
    model = core.run_driver("encode", [f"{e['cls']} {e['fn']} {e['tok']}" for e in evs]) if evs else []
    bad = []
    for e in run.trace:
        if e["k"] == "setr" and e["tok"] == "report":
            bad.append(("report-raised", f"a value the receiver reported ({e['fn']}={e['rep']!r}) raised {e['res'][2:]} in the message handler"))
    for e, m in zip(evs, model):
        real = e["res"]
        if real.startswith("S ") and e["fn"] in SPEC:
            # the property itself, whatever the model says
            why = oracle(e["fn"], eval(e["rep"]), real[2:])
            if why:
                bad.append(("wrong-text", f"thread {e['i']}: {e['cls']}.{e['fn']} = {e['rep']} transmitted {real[2:]!r}: {why} (earlier operations of this run: "
                                          f"{[(x['tok'] if x['tok'] != 'report' else 'report ' + x['rep']) for x in run.trace if x['k'] == 'setr' and x['seq'] < e['seq']][-6:]})"))
                continue
        if m == "U":
            continue
        if m == "R":
            if not real.startswith("R "):
                bad.append(("history-dependent", f"thread {e['i']}: {e['cls']}.{e['fn']} = {e['rep']} transmitted {real!r}; on its own this assignment raises"))
            continue
        mt = core.unhx(m[2:])
        if real != "S " + mt:
            why = ""
            if real.startswith("S "):
                why = oracle(e["fn"], eval(e["rep"]), real[2:]) or "the text differs from what the same assignment transmits on its own"
            bad.append(("history-dependent", f"thread {e['i']}: {e['cls']}.{e['fn']} = {e['rep']} transmitted {real[2:]!r} instead of {mt!r} ({why})"))
    return bad[:3]
