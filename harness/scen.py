"""Scenario interpreter: a JSON-able spec -> one scheduled execution of the real library (tie B2).

spec = {
  "kind": "conn" | "api_init" | "conn_check" | "subunit",
  "device": {"type": "scripted"|"recorded", ...},
  "log_size": int,
  "threads": [[op, ...], ...]          # thread 0 runs in U0 after connect(); others are spawned as U1, U2, ...
  "callbacks": {"<cbid>": [[op, ...] per invocation ...]}   # scripted message callbacks (re-entrant ops)
  "disconnect_ops": [op, ...]          # what the user's disconnect callback does
}
op = ["sleep", s] | ["put", su, fn, val] | ["get", su, fn] | ["raw", text] | ["reg", cbid] | ["unreg", cbid] |
     ["close"] | ["snap"] | ["drop"] (device drops the link now) | ["join"] (wait for spawned threads) | ["connected"]
Everything observable goes to the scheduler's trace."""
from __future__ import annotations

import random

from . import devices, sched


def make_device(d, rng):
    d = dict(d or {})
    typ = d.pop("type", "scripted")
    lat = d.pop("latency", 0.02)
    if isinstance(lat, (int, float)):
        latf = lambda n, line, _l=lat: _l  # noqa: E731
    elif isinstance(lat, dict) and lat.get("kind") == "uniform":
        r = random.Random(lat.get("seed", 0))
        latf = lambda n, line: r.uniform(lat["lo"], lat["hi"])  # noqa: E731
    elif isinstance(lat, list):
        latf = lambda n, line: lat[(n - 1) % len(lat)]  # noqa: E731
    else:
        latf = lambda n, line: 0.02  # noqa: E731
    slow = d.pop("slow_cmd", None)
    if slow:
        # one command is answered much later than the others (a receiver busy with something else)
        _base = latf
        latf = lambda n, line, _b=_base, _s=slow: _b(n, line) + (_s["extra"] if line == _s["cmd"] else 0.0)  # noqa: E731
    chunk = d.pop("chunk", None)
    split_crlf = d.pop("split_crlf", False)
    if split_crlf and not chunk:
        chunk = 1
    chunker = None
    if chunk:
        r2 = random.Random(chunk)

        def chunker(data):
            if len(data) < 2:
                return [data]
            k = r2.randint(1, min(4, len(data) - 1))
            cuts = sorted(r2.sample(range(1, len(data)), k))
            if split_crlf:
                # a serial line delivers bytes as they come: here every line's CR and LF arrive in separate reads (and nothing else is cut)
                cuts = [len(data) - 1] if data.endswith(b"\r\n") else []
            out, pos = [], 0
            for c in cuts + [len(data)]:
                out.append(data[pos:c])
                pos = c
            return out
        gaps = d.pop("chunk_gaps", None)
        if gaps:
            chunker.gap = lambda: int(r2.choice(gaps) * 1_000_000)
    d.pop("chunk_gaps", None)
    unsol = [(t, l) for t, l in d.pop("unsolicited", [])]
    kw = dict(latency=latf, chunker=chunker, swallow_first=d.pop("swallow_first", 0), silent_after_replies=d.pop("silent_after", None),
              eof_after_bytes=d.pop("eof_after_bytes", None), unsolicited=unsol, drop_at=d.pop("drop_at", None))
    cut = d.pop("cut_reply", None)
    pause = d.pop("pause", None)
    burst = d.pop("burst", False)
    if typ == "recorded":
        dev = devices.Recorded(d.pop("name"), **kw)
        dev.cut_reply = cut
        dev.pause = pause
        return dev
    dev = _scripted(d, kw)
    dev.cut_reply = cut
    dev.pause = pause
    dev.burst = burst          # the lines of a multi-line answer leave the receiver in one segment
    return dev


def _scripted(d, kw):
    rp = d.pop("restrict_puts", None)
    mu = d.pop("mute", None)
    dev = _scripted0(d, kw)
    if mu:
        dev.mute_rng = random.Random(mu.get("seed", 0))
        dev.mute_p = mu.get("p", 0.3)
    if rp:
        dev.restrict_rng = random.Random(rp.get("seed", 0))
        dev.restrict_p = rp.get("p", 0.3)
    return dev


def _scripted0(d, kw):
    return devices.Scripted(table=d.pop("table", None), model=d.pop("model", "RX-V"), version=d.pop("version", "1.00/2.00"),
                            avail=d.pop("avail", {}), echo_put=d.pop("echo_put", True), **kw)


class ConnSession:
    """YncaConnection-level session"""

    def __init__(self, spec):
        self.spec = spec
        self.conn = None
        self.cbs = {}
        self.cb_count = {}
        self.threads = []
        self.dev = None

    def open_hook(self, url):
        if self.spec.get("open_fails"):
            import serial
            raise serial.SerialException("could not open port")
        self.nopen = getattr(self, "nopen", 0) + 1
        if self.nopen > 1 and self.spec.get("reconnect_device"):
            # connect() called again on the SAME YncaConnection object (as ynca/terminal.py does after a disconnect): a fresh link
            self.dev = make_device(self.spec["reconnect_device"], None)
            return sched.VSerial(self.dev)
        if self.nopen > 1 and self.spec.get("second"):
            self.dev2 = make_device(self.spec["second"].get("device"), None)
            self.dev2.tag = 2
            port2 = sched.VSerial(self.dev2)
            port2.tag = 2
            return port2
        self.dev = make_device(self.spec.get("device"), None)
        port = sched.VSerial(self.dev)
        wf = self.spec.get("write_fault_after")
        if wf is not None:
            port.write_fault_after = wf
        wl = self.spec.get("write_fault_late")
        if wl:
            port.write_fault_late = (wl["n"], wl.get("exc", "SerialException"))
        wo = self.spec.get("write_fault_once")
        if wo:
            port.write_fault_once = (wo["n"], wo.get("exc", "SerialException"))
        sw = self.spec.get("slow_writes")
        if sw:
            port.write_delay = lambda n, _sw=sw: _sw.get(str(n), 0)
        return port

    # -- callbacks
    def _msg_cb(self, cbid):
        if cbid not in self.cbs:
            def cb(status, su, fn, val, _id=cbid):
                n = self.cb_count.get(_id, 0)
                self.cb_count[_id] = n + 1
                self.api.emit("msg_cb", cb=_id, status=status.name, su=su, fn=fn, val=val)
                scripts = self.spec.get("callbacks", {}).get(str(_id), [])
                if n < len(scripts):
                    for op in scripts[n]:
                        self.do(op, ctx=f"cb{_id}")
                self.api.emit("msg_cb_ret", cb=_id)
            self.cbs[cbid] = cb
        return self.cbs[cbid]

    def _disc_cb(self):
        self.api.emit("disc_cb")
        for op in self.spec.get("disconnect_ops", []):
            self.do(op, ctx="disc")
        self.api.emit("disc_cb_ret")

    # -- ops
    def do(self, op, ctx="U"):
        api, c = self.api, self.conn
        k = op[0]
        if k == "sleep":
            api.sleep(op[1])
            return
        if k == "async":
            # the operations run on a fresh thread, concurrently (same virtual instant) with whatever the current thread does next
            self.nasync = getattr(self, "nasync", 0) + 1
            name = f"U{8 + self.nasync % 2}"
            self.threads.append(api.spawn(name, lambda ops=op[1], nm=name: [self.do(o, ctx=nm) for o in ops]))
            return
        ev = api.emit("call", op=op, ctx=ctx)
        cid = ev["seq"]
        exc = None
        res = None
        try:
            if k == "put":
                c.put(op[1], op[2], op[3])
            elif k == "get":
                c.get(op[1], op[2])
            elif k == "raw":
                c.raw(op[1])
            elif k == "reg":
                c.register_message_callback(self._msg_cb(op[1]))
            elif k == "unreg":
                c.unregister_message_callback(self._msg_cb(op[1]))
            elif k == "close":
                c.close()
            elif k == "reconnect":
                # optional second element: the log size asked for this time (default: the scenario's)
                c.connect(self._disc_cb if self.spec.get("disconnect_cb", True) else None, op[1] if len(op) > 1 else self.spec.get("log_size", 0))
            elif k == "flood":
                # many submissions in a row (each a silent no-op on a dead connection, each queued on a live one)
                for i_ in range(op[1]):
                    c.put("FLOOD", f"F{i_}", str(i_))
            elif k == "close2":
                self.conn2.close()
            elif k == "put2":
                self.conn2.put(op[1], op[2], op[3])
            elif k == "get2":
                self.conn2.get(op[1], op[2])
            elif k == "snap":
                got_ = c.get_communication_log_items()
                res = list(got_)
                # a client may do what it likes with the list it was given (sort it, clear it, append to it): later requests must not care
                try:
                    got_.clear()
                    got_.append("scribbled by the client")
                except Exception:  # noqa: BLE001  (an immutable sequence is fine too)
                    pass
            elif k == "connected":
                res = bool(c.connected)
            elif k == "drop":
                if self.dev is not None:
                    self.dev.drop_link()
            elif k == "port_dies":
                if self.dev is not None:
                    self.dev.port_dies()
            elif k == "join":
                for t in self.threads:
                    t.join()
            else:
                raise ValueError(op)
        except sched.Hang:
            raise
        except BaseException as e:  # noqa: BLE001
            exc = e
        api.emit("ret", call=cid, op=op, ctx=ctx, exc=type(exc).__name__ if exc else None, msg=str(exc)[:200] if exc else None, res=res)

    def run(self, api):
        import ynca.connection as YC
        self.api = api
        spec = self.spec
        self.conn = YC.YncaConnection("virtual://port")
        for cbid in spec.get("pre_register", []):
            self.do(["reg", cbid], ctx="U0")
        ev = api.emit("call", op=["connect"], ctx="U")
        exc = None
        try:
            self.conn.connect(self._disc_cb if spec.get("disconnect_cb", True) else None, spec.get("log_size", 0))
        except sched.Hang:
            raise
        except BaseException as e:  # noqa: BLE001
            exc = e
        api.emit("ret", call=ev["seq"], op=["connect"], ctx="U", exc=type(exc).__name__ if exc else None, msg=str(exc)[:200] if exc else None, res=None)
        if spec.get("second"):
            # a second, independent connection in the same process (its reader / sender threads are R2 / S2)
            self.conn2 = YC.YncaConnection("virtual://port2")
            self.conn2.register_message_callback(lambda st, su, fn, val: (api.emit("msg_cb2", su=su, fn=fn, val=val), api.emit("msg_cb2_ret")))
            self.conn2.connect(lambda: (api.emit("disc_cb2"), api.emit("disc_cb2_ret")), 0)
        threads = spec.get("threads", [[]])

        def body(i):
            for op in threads[i]:
                self.do(op, ctx=f"U{i}")

        for i in range(1, len(threads)):
            self.threads.append(api.spawn(f"U{i}", body, i))
        body(0)
        if spec.get("final_wait", 0):
            api.sleep(spec["final_wait"])
        if not spec.get("no_final_close"):
            for t in self.threads:
                t.join()
            self.do(["close"], ctx="U0-final")
            if spec.get("second"):
                self.do(["close2"], ctx="U0-final")
            api.sleep(5)
        return "done"


def run_spec(spec, seed=0, prefix=None, mode="random", preempt=0, preempt_prob=0.02):
    kind = spec.get("kind", "conn")
    if kind == "conn":
        sess = ConnSession(spec)
    else:
        from . import scen_api
        sess = scen_api.make(spec)
    run = sched.run_scenario(sess.run, seed=seed, prefix=prefix, mode=mode, preempt=preempt, preempt_prob=preempt_prob, open_hook=sess.open_hook,
                             hot=spec.get("hot"), hot_budget=spec.get("hot_budget", 0), stall=spec.get("stall"))
    run.session = sess
    return run
