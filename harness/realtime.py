"""Real-time runs (no scheduler, no shims): the real library with its real threads, time.sleep and time.monotonic against a fake pyserial
port object.  Run in a fresh interpreter (`python -m harness.realtime <json spec>`), prints one JSON document.

Used by C08 (the property names real monotonic time stamps of successive write() calls as an observation point): lower bounds on gaps hold
in real time as well — `time.sleep(d)` sleeps at least `d` — so a short run is a sound, non-flaky check of the spacing."""
from __future__ import annotations

import json
import os
import queue
import sys
import threading
import time

REPO = os.environ.get("YNCA_REPO", "/repo")


class FakePort:
    """minimal pyserial look-alike: read() blocks up to `timeout`, write() records the monotonic time at which it was entered"""

    def __init__(self):
        self.is_open = True
        self.timeout = 1
        self.inq = queue.Queue()
        self.writes = []          # (t_enter, bytes)
        self.buf = bytearray()
        self.lock = threading.Lock()

    @property
    def in_waiting(self):
        return self.inq.qsize()

    def read(self, size=1):
        try:
            b = self.inq.get(True, self.timeout if self.timeout is not None else 1)
        except queue.Empty:
            return b""
        return b

    def write(self, data):
        t = time.monotonic()
        if not self.is_open:
            import serial
            raise serial.PortNotOpenError()
        with self.lock:
            self.writes.append((t, bytes(data)))
        self.buf.extend(data)
        while b"\r\n" in self.buf:
            raw, _, rest = bytes(self.buf).partition(b"\r\n")
            self.buf = bytearray(rest)
            line = raw.decode("utf-8", "replace")
            reply = "@SYS:MODELNAME=RT" if line == "@SYS:MODELNAME=?" else ("@UNDEFINED" if line.endswith("=?") else line)
            for byte in (reply + "\r\n").encode():
                self.inq.put(bytes([byte]))
        return len(data)

    def close(self):
        self.is_open = False

    def cancel_read(self):
        pass


def run(spec):
    sys.path.insert(0, REPO)
    import serial
    port = FakePort()
    serial.serial_for_url = lambda url, *a, **k: port
    import ynca.connection as YC
    assert os.path.realpath(YC.__file__).startswith(os.path.realpath(REPO)), YC.__file__
    conn = YC.YncaConnection("fake://")
    conn.register_message_callback(lambda *a: None)
    conn.connect(None, 0)
    threads = []

    def body(i, n, pause):
        for k in range(n):
            if k % 3 == 0:
                conn.put(f"C{i}", f"F{k}", str(k))
            elif k % 3 == 1:
                conn.get(f"C{i}", f"F{k}")
            else:
                conn.raw(f"@C{i}:R{k}={k}")
            if pause:
                time.sleep(pause)

    for i in range(spec.get("threads", 3)):
        th = threading.Thread(target=body, args=(i, spec.get("cmds", 4), spec.get("pauses", [0, 0.03, 0.11])[i % 3]))
        threads.append(th)
        th.start()
    for th in threads:
        th.join()
    total = spec.get("threads", 3) * spec.get("cmds", 4) + 2
    deadline = time.monotonic() + total * 0.25 + 2
    while len(port.writes) < total and time.monotonic() < deadline:
        time.sleep(0.02)
    conn.close()
    ts = [t for t, _ in port.writes]
    gaps = [b - a for a, b in zip(ts, ts[1:])]
    return {"writes": len(ts), "expected": total, "min_gap_ms": round(min(gaps) * 1000, 3) if gaps else None,
            "gaps_ms": [round(g * 1000, 2) for g in gaps], "texts": [d.decode("utf-8", "replace").strip() for _, d in port.writes]}


if __name__ == "__main__":
    print(json.dumps(run(json.loads(sys.argv[1]) if len(sys.argv) > 1 else {})))
