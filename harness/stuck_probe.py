"""C10, child process: one received line is handled in microseconds.  Every readable function of every subunit class is handed texts with long
runs of digits / separators / blanks (what a confused receiver, or a value pasted into a name, can contain); before each delivery the child
announces it on stdout, afterwards it confirms.  The parent (harness/props/c10.py) waits with a time limit: a delivery that was announced and
never confirmed has stalled the reader thread for good — nothing raises, no later line is processed."""
from __future__ import annotations

import sys


def texts():
    out = []
    for n in (30, 40, 64):
        out += ["-30.5" + "0" * n + "dB", "1" * n + "x", "1." * n + "x", "0" * n + ".5.", " " * n + "1" + " " * n + "x", "-" * n + "1", "1" + "e" * n, "1" + "_1" * n + "x",
                "a" * n + "=" * n, ("On " * n) + "x", "9" * n + "." + "9" * n + "x"]
    return out


def main():
    from . import core
    from .realobj import StubConnection, subunit_class
    from ynca.connection import YncaProtocolStatus as St
    T = core.tables()
    for c in T["classes"]:
        cls = subunit_class(c["py"])
        conn = StubConnection()
        obj = cls(conn)
        for f in c["fns"]:
            if not f["get"]:
                continue
            for t in texts():
                print(f"BEGIN {c['py']} {c['id']} {f['name']} {core.hx(t)}", flush=True)
                try:
                    conn.deliver(St.OK, c["id"], f["name"], t)
                    getattr(obj, f["attr"])
                    print("END ok", flush=True)
                except Exception as e:  # noqa: BLE001
                    print(f"END raised {type(e).__name__}", flush=True)
    print("DONE", flush=True)


if __name__ == "__main__":
    sys.exit(main())
