"""Device simulators for the virtual serial port (all are sequential responders: replies are emitted in
command order; unsolicited lines may be interleaved)."""
from __future__ import annotations

import os
import re

from . import sched

LINE_RE = re.compile(r"@([^:]+?):([^=]+?)=(.*)", re.S)


class Device:
    """Base: answers every complete CR LF line written to the port via `answer(line) -> list[str]`."""

    def __init__(self, latency=lambda n, line: 0.02, chunker=None, swallow_first=0, silent_after_replies=None,
                 eof_after_bytes=None, eof_exc=None, unsolicited=(), drop_at=None):
        self.latency = latency
        self.chunker = chunker
        self.swallow = swallow_first
        self.silent_after = silent_after_replies
        self.eof_after = eof_after_bytes
        self.eof_exc = eof_exc
        self.unsolicited = list(unsolicited)
        self.drop_at = drop_at
        self.port = None
        self.buf = bytearray()
        self.n_cmds = 0
        self.n_replies = 0
        self.sent_bytes = 0
        self.last_emit = 0
        self.emitted = []        # (t, line) in emission order (ghost for monitors)
        self.received = []       # (t, line)
        self.dead = False
        self.feed_free_at = 0
        self.cut_reply = None
        self.cut_seen = 0

    def attach(self, port):
        self.port = port
        if self.drop_at is not None:
            if self.drop_at <= 0:
                self.drop_link()
            else:
                sched.S.at(sched.us(self.drop_at), self.drop_link)
        for delay, line in self.unsolicited:
            sched.S.at(sched.us(delay), lambda l=line: self._emit_line(l, unsolicited=True))

    def answer(self, line: str):
        return ["@UNDEFINED"]

    def on_write(self, data: bytes):
        self.buf.extend(data)
        while b"\r\n" in self.buf:
            raw, _, rest = bytes(self.buf).partition(b"\r\n")
            self.buf = bytearray(rest)
            line = raw.decode("utf-8", "replace")
            self.n_cmds += 1
            self.received.append((sched.S.now, line))
            if self.swallow > 0:
                self.swallow -= 1
                continue
            pw = getattr(self, "pause", None)
            if pw and pw[0] * 1_000_000 <= sched.S.now < pw[1] * 1_000_000:
                continue                  # the receiver is busy for a while: commands that arrive in this window get no reply at all
            replies = self.answer(line)
            if self.cut_reply and line == self.cut_reply["cmd"]:
                self.cut_seen += 1
                if self.cut_seen == self.cut_reply["nth"] and replies:
                    # the link fails in the middle of this reply: only its first bytes arrive
                    keep = replies[0].encode("utf-8")[:self.cut_reply["keep"]]
                    lat = sched.us(self.latency(self.n_cmds, line))
                    t = max(sched.S.now + lat, self.last_emit)
                    self.last_emit = t
                    sched.S.at(t - sched.S.now, lambda k=keep: self._cut(k))
                    continue
            lat = sched.us(self.latency(self.n_cmds, line))
            t = max(sched.S.now + lat, self.last_emit)
            for r in replies:
                self.last_emit = t
                sched.S.at(t - sched.S.now, lambda r=r, line=line: self._emit_line(r, cause=line))
                t += 0 if getattr(self, "burst", False) else 1000       # 1 ms between the lines of a multi-line answer (burst: one segment)

    def _emit_line(self, line, cause=None, unsolicited=False):
        if self.dead or self.port is None:
            return
        if self.silent_after is not None and not unsolicited and self.n_replies >= self.silent_after:
            return
        if not unsolicited:
            self.n_replies += 1
        if line.startswith("partial:"):
            # the beginning of a line whose rest never arrives on this link
            data = line[8:].encode("utf-8")
            sched.S.emit("dev_partial", data=data.hex())
            self._feed(data)
            return
        if line.startswith("hex:"):
            data = bytes.fromhex(line[4:]) + b"\r\n"          # raw bytes (not necessarily UTF-8) followed by the terminator
        else:
            data = line.encode("utf-8") + b"\r\n"
        self.emitted.append((sched.S.now, line, cause))
        sched.S.emit("dev_line", line=line, cause=cause, **({"dev": self.tag} if getattr(self, "tag", None) else {}))
        self._feed(data)

    def _feed(self, data: bytes):
        if self.eof_after is not None:
            room = self.eof_after - self.sent_bytes
            if room <= 0:
                data = b""
            elif len(data) > room:
                data = data[:room]
        if data:
            self.sent_bytes += len(data)
            if self.chunker or self.feed_free_at > sched.S.now:
                # the link is a byte stream: chunks of successive lines never overtake each other
                parts = self.chunker(data) if self.chunker else [data]
                t = max(sched.S.now, self.feed_free_at)
                for p in parts:
                    sched.S.at(t - sched.S.now, lambda p=p: self.port.feed(p))
                    t += self.chunker.gap() if getattr(self.chunker, "gap", None) else 200
                self.feed_free_at = t
            else:
                self.port.feed(data)
        if self.eof_after is not None and self.sent_bytes >= self.eof_after and not self.dead:
            self.dead = True
            import serial
            exc = self.eof_exc or serial.SerialException("device disconnected (EOF)")
            sched.S.emit("fault_injected", exc=type(exc).__name__)
            self.port.inject_fault(exc)

    def _cut(self, keep):
        if self.dead or self.port is None:
            return
        sched.S.emit("dev_partial", data=keep.hex())
        if keep:
            self.port.feed(keep)
        self.drop_link()

    def port_dies(self):
        """the transport ends without an exception: the port object reports closed and reads return nothing"""
        if not self.dead:
            self.dead = True
            sched.S.emit("fault_injected", exc="port-reports-closed")
            self.port.is_open = False

    def drop_link(self, exc=None):
        """EOF / IO error now"""
        import serial
        if not self.dead:
            self.dead = True
            sched.S.emit("fault_injected", exc=type(exc or serial.SerialException()).__name__, **({"dev": self.tag} if getattr(self, "tag", None) else {}))
            self.port.inject_fault(exc or serial.SerialException("link dropped"))


class Scripted(Device):
    """answers from a dict  line -> list of reply lines (default: echo PUTs, @UNDEFINED for unknown GETs);
    `model`/`version` give the standard answers"""

    def __init__(self, table=None, model="RX-V", version="1.00/2.00", avail=(), echo_put=True, **kw):
        super().__init__(**kw)
        self.table = dict(table or {})
        self.model = model
        self.version = version
        self.avail = dict(avail) if not isinstance(avail, dict) else avail
        self.echo_put = echo_put
        self.store = {}
        self.restrict_rng = None
        self.restrict_p = 0.0
        self.mute_rng = None              # receivers do not answer everything (a PUT of the current value, many action commands): some
        self.mute_p = 0.0                 # commands, probes included, get no reply at all

    def answer(self, line):
        if self.mute_rng is not None and self.mute_rng.random() < self.mute_p:
            return []
        if line in self.table:
            v = self.table[line]
            return list(v) if isinstance(v, (list, tuple)) else [v]
        m = LINE_RE.fullmatch(line)
        if not m:
            return ["@UNDEFINED"]
        s, f, v = m.groups()
        if v == "?":
            if (s, f) in self.store:
                return [f"@{s}:{f}={self.store[(s, f)]}"]
            if s == "SYS" and f == "MODELNAME" and self.model is not None:
                return [f"@SYS:MODELNAME={self.model}"]
            if s == "SYS" and f == "VERSION" and self.version is not None:
                return [f"@SYS:VERSION={self.version}"]
            if f == "AVAIL":
                if s in self.avail:
                    return [f"@{s}:AVAIL={self.avail[s]}"]
                return ["@RESTRICTED"]
            return ["@UNDEFINED"]
        if self.restrict_rng is not None and self.restrict_rng.random() < self.restrict_p:
            return ["@RESTRICTED"]            # e.g. a zone that is in standby rejects the PUT
        if self.echo_put:
            self.store[(s, f)] = v
            return [f"@{s}:{f}={v}"]
        return []


def read_recording(name):
    from .extract import read_recording as rr
    return rr(os.path.join(sched.REPO, "logs", name + ".txt"))


class Recorded(Device):
    """a recorded receiver: the answer to a command is the block of lines the recording shows after that command
    (last occurrence wins); commands the recording does not contain get @UNDEFINED"""

    def __init__(self, recname, **kw):
        super().__init__(**kw)
        self.recname = recname
        self.answers = {}
        cur = None
        for kind, text in read_recording(recname):
            if kind == "send":
                cur = text
                self.answers[cur] = []
            elif kind == "recv" and cur is not None:
                self.answers[cur].append(text)
        self.answers = {k: v for k, v in self.answers.items() if v}

    def answer(self, line):
        if line in self.answers:
            return list(self.answers[line])
        return ["@UNDEFINED"]
