"""DetSched — run the REAL ynca + pyserial threads one at a time under a deterministic scheduler
with virtual time (tie B2).

* `install()` replaces `threading`, `queue` and `time` by shims for the modules ynca.connection,
  ynca.subunit, ynca.api and serial.threaded ONLY (they are imported/reloaded while the shims sit in
  sys.modules, so `from queue import Queue`-style imports are covered as well).
* Every blocking primitive is a scheduling point; optional extra preemptions at line boundaries inside
  ynca/*.py and serial/threaded via sys.settrace.
* The clock is virtual (integer microseconds); it advances only when every managed thread is blocked,
  to the earliest deadline or environment timer ("urgency").
* The serial port is a virtual object handed out by a patched `serial.serial_for_url`.

One `Sched` per run; several runs per process are fine (threads left blocked by a previous run stay
parked on their private semaphores forever)."""
from __future__ import annotations

import _thread
import heapq
import importlib
import os
import queue as real_queue
import random
import sys
import threading as real_threading
import time as real_time
import types

REPO = os.environ.get("YNCA_REPO", "/repo")
US = 1_000_000


class CannotSchedule(Exception):
    """the code under test uses a primitive the shims do not cover"""


class Hang(Exception):
    pass


def us(seconds) -> int:
    return int(round(float(seconds) * US))


# ----------------------------------------------------------------------------------------- scheduler
class TRec:
    __slots__ = ("name", "role", "sem", "enabled", "deadline", "finished", "started", "result", "why", "thread", "exc", "prio")

    def __init__(self, name, role):
        self.name = name
        self.role = role
        self.sem = _thread.allocate_lock()
        self.sem.acquire()
        self.enabled = lambda: True
        self.deadline = None
        self.finished = False
        self.started = False
        self.result = True
        self.why = "start"
        self.thread = None
        self.exc = None
        self.prio = 0


class Chooser:
    """source of scheduling decisions: explicit prefix (replay / DFS), then seeded random"""

    def __init__(self, seed=0, prefix=None, mode="random", pct_depth=0):
        self.rng = random.Random(seed)
        self.prefix = list(prefix or [])
        self.log = []          # (n_options, chosen_index)
        self.mode = mode

    def choose(self, n, kind="thread"):
        i = len(self.log)
        if i < len(self.prefix):
            c = self.prefix[i] % n
        elif self.mode == "first":
            c = 0
        else:
            c = self.rng.randrange(n)
        self.log.append((n, c))
        return c


S: "Sched | None" = None


class Sched:
    def __init__(self, chooser: Chooser, preempt_budget=0, preempt_prob=0.0, max_events=400_000):
        self.chooser = chooser
        self.now = 0
        self.recs: list[TRec] = []
        self.by_ident = {}
        self.cur: TRec | None = None
        self.timers = []
        self.tseq = 0
        self.trace = []
        self.seq = 0
        self.done = _thread.allocate_lock()
        self.done.acquire()
        self.finished = False
        self.status = None
        self.preempt_budget = preempt_budget
        self.preempt_prob = preempt_prob
        self.max_events = max_events
        self.steps = 0
        self.max_steps = 3_000_000
        self.reader_count = 0
        self.queue_hook = None
        self.max_virtual = 4 * 3600 * US
        self.hot_re = None
        self.hot_budget = 0
        self.stall_prob = 0.0            # a preempted thread may also be held back for a while (virtual time passes while it sits between two lines)
        self.stall_us = (1000,)

    def preempt_here(self):
        if self.stall_prob and self.chooser.rng.random() < self.stall_prob:
            d = self.chooser.rng.choice(self.stall_us)
            self.emit("stall", us=d)
            self.block(lambda: False, self.now + d, "stall")
        else:
            self.yield_("preempt")

    # ---- trace
    def emit(self, kind, **kw):
        self.seq += 1
        ev = {"seq": self.seq, "t": self.now, "th": self.cur.role if self.cur else "ENV", "k": kind}
        ev.update(kw)
        if len(self.trace) < self.max_events:
            self.trace.append(ev)
        return ev

    # ---- registry
    def me(self) -> TRec:
        r = self.by_ident.get(_thread.get_ident())
        if r is None:
            raise CannotSchedule("a thread that the scheduler does not manage called into a shim")
        return r

    def register(self, name, role):
        r = TRec(name, role)
        self.recs.append(r)
        return r

    # ---- core
    def block(self, enabled, deadline=None, why=""):
        """current thread gives up the baton; resumes when chosen while enabled() holds or its deadline passed.
        returns enabled() as evaluated when it was chosen"""
        t = self.me()
        if self.finished:
            raise Hang("scheduler already finished")
        t.enabled = enabled
        t.deadline = deadline
        t.why = why
        self._dispatch()
        t.sem.acquire()
        t.deadline = None
        return t.result

    def yield_(self, why="yield"):
        return self.block(lambda: True, None, why)

    def _ready(self):
        return [t for t in self.recs if t.started and not t.finished and
                (t.enabled() or (t.deadline is not None and self.now >= t.deadline))]

    def _dispatch(self):
        while True:
            self.steps += 1
            if self.steps > self.max_steps:
                self._finish("step-limit")
                return
            ready = self._ready()
            if ready:
                nxt = ready[self.chooser.choose(len(ready))] if len(ready) > 1 else ready[0]
                nxt.result = bool(nxt.enabled())
                self.cur = nxt
                nxt.sem.release()
                return
            cands = [t.deadline for t in self.recs if t.started and not t.finished and t.deadline is not None]
            if self.timers:
                cands.append(self.timers[0][0])
            if not cands:
                live = [t for t in self.recs if t.started and not t.finished]
                self._finish("all-finished" if not live else "blocked-forever")
                return
            self.now = max(self.now, min(cands))
            if self.now > self.max_virtual:
                self._finish("virtual-time-limit")
                return
            self.cur = None
            while self.timers and self.timers[0][0] <= self.now:
                _, _, fn = heapq.heappop(self.timers)
                fn()

    def _finish(self, status):
        if not self.finished:
            self.finished = True
            self.status = status
            self.cur = None
            self.done.release()

    def at(self, delay_us, fn):
        self.tseq += 1
        heapq.heappush(self.timers, (self.now + max(0, int(delay_us)), self.tseq, fn))

    def blocked_threads(self):
        return [(t.role, t.why) for t in self.recs if t.started and not t.finished]


# ----------------------------------------------------------------------------------------- shims
def _deadline(timeout):
    return None if timeout is None else S.now + us(timeout)


class VEvent:
    def __init__(self):
        self._flag = False

    def is_set(self):
        return self._flag

    isSet = is_set

    def set(self):
        S.yield_("Event.set")
        self._flag = True
        S.yield_("Event.set.after")      # the woken thread may run before the setter's next statement

    def clear(self):
        S.yield_("Event.clear")
        self._flag = False

    def wait(self, timeout=None):
        S.block(lambda: self._flag, _deadline(timeout), "Event.wait")
        return self._flag


class VLock:
    def __init__(self):
        self._owner = None

    def acquire(self, blocking=True, timeout=-1):
        if not blocking:
            S.yield_("Lock.try")
            if self._owner is None:
                self._owner = S.me()
                return True
            return False
        ok = S.block(lambda: self._owner is None, None if timeout in (-1, None) else S.now + us(timeout), "Lock.acquire")
        if ok:
            self._owner = S.me()
        return ok

    def release(self):
        if self._owner is None:
            raise RuntimeError("release unlocked lock")
        S.yield_("Lock.release")
        self._owner = None
        S.yield_("Lock.release.after")

    def locked(self):
        return self._owner is not None

    def __enter__(self):
        self.acquire()
        return self

    def __exit__(self, *a):
        self.release()


class VRLock(VLock):
    def __init__(self):
        super().__init__()
        self._count = 0

    def acquire(self, blocking=True, timeout=-1):
        me = S.me()
        if self._owner is me:
            self._count += 1
            return True
        ok = super().acquire(blocking, timeout)
        if ok:
            self._count = 1
        return ok

    def release(self):
        if self._owner is not S.me():
            raise RuntimeError("cannot release un-acquired lock")
        self._count -= 1
        if self._count == 0:
            super().release()


class VCondition:
    def __init__(self, lock=None):
        self._lock = lock or VRLock()
        self._waiters = []
        self.acquire = self._lock.acquire
        self.release = self._lock.release

    def __enter__(self):
        return self._lock.__enter__()

    def __exit__(self, *a):
        return self._lock.__exit__(*a)

    def wait(self, timeout=None):
        tok = [False]
        self._waiters.append(tok)
        self._lock.release()
        S.block(lambda: tok[0], _deadline(timeout), "Condition.wait")
        if tok in self._waiters:
            self._waiters.remove(tok)
        self._lock.acquire()
        return tok[0]

    def notify(self, n=1):
        for tok in self._waiters[:n]:
            tok[0] = True
        del self._waiters[:n]

    def notify_all(self):
        self.notify(len(self._waiters))


class VSemaphore:
    def __init__(self, value=1):
        self._v = value

    def acquire(self, blocking=True, timeout=None):
        ok = S.block(lambda: self._v > 0, _deadline(timeout) if blocking else S.now, "Semaphore.acquire")
        if ok:
            self._v -= 1
        return ok

    def release(self, n=1):
        S.yield_("Semaphore.release")
        self._v += n

    __enter__ = acquire

    def __exit__(self, *a):
        self.release()


class VQueue:
    def __init__(self, maxsize=0):
        self._items = []
        self.maxsize = maxsize

    def _pop(self):
        return self._items.pop(0)

    @property
    def queue(self):
        """the waiting items, as `queue.Queue.queue` exposes them (a snapshot; the shim owns the real list)"""
        import collections
        return collections.deque(self._items)

    @property
    def mutex(self):
        if not hasattr(self, "_mutex"):
            self._mutex = VRLock()
        return self._mutex

    def qsize(self):
        return len(self._items)

    def empty(self):
        return not self._items

    def full(self):
        return 0 < self.maxsize <= len(self._items)

    def put(self, item, block=True, timeout=None):
        if self.maxsize > 0:
            ok = S.block(lambda: len(self._items) < self.maxsize, _deadline(timeout) if block else S.now, "Queue.put")
            if not ok:
                raise real_queue.Full
        else:
            S.yield_("Queue.put")
        self._items.append(item)
        if S.queue_hook:
            S.queue_hook("put", self, item)
        S.emit("qput", item=item if isinstance(item, str) else repr(item)[:80])     # shim-level observation (orders concurrent submissions)
        S.yield_("Queue.put.after")

    def put_nowait(self, item):
        self.put(item, False)

    def get(self, block=True, timeout=None):
        if not block:
            S.yield_("Queue.get_nowait")
            if not self._items:
                raise real_queue.Empty
        else:
            ok = S.block(lambda: bool(self._items), _deadline(timeout), "Queue.get")
            if not ok:
                raise real_queue.Empty
        item = self._pop()
        if S.queue_hook:
            S.queue_hook("get", self, item)
        # shim-level observation used by monitors only: what a blocking consumer took out of a queue
        if block:
            S.emit("qget", item=item if isinstance(item, str) else repr(item)[:80])
        return item

    def get_nowait(self):
        return self.get(False)

    def task_done(self):
        pass


class VLifoQueue(VQueue):
    def _pop(self):
        return self._items.pop()


class VPriorityQueue(VQueue):
    def _pop(self):
        i = min(range(len(self._items)), key=lambda k: self._items[k])
        return self._items.pop(i)


TRACE_FILES: tuple = ()


def _make_tracer():
    def _plain(s, frame, event):
        if event == "line" and s.preempt_budget > 0 and s.chooser.rng.random() < s.preempt_prob:
            s.preempt_budget -= 1
            s.emit("preempt", fn=frame.f_code.co_name, line=frame.f_lineno)
            s.preempt_here()

    def local(frame, event, arg):
        s = S
        if event == "line" and s is not None and not s.finished:
            _plain(s, frame, event)
        return local

    def local_hot(frame, event, arg):
        # inside (or called from) the functions a check is interested in: a thread switch is possible between any two bytecodes
        s = S
        if event in ("line", "opcode") and s is not None and not s.finished:
            if s.hot_budget > 0 and s.chooser.rng.random() < (0.5 if event == "line" else 0.12):
                s.hot_budget -= 1
                s.emit("preempt", fn=frame.f_code.co_name, line=frame.f_lineno, hot=True)
                s.preempt_here()
            elif event == "line":
                _plain(s, frame, event)
        return local_hot

    def glob(frame, event, arg):
        if frame.f_code.co_filename in TRACE_FILES:
            s = S
            if s is not None and s.hot_re is not None and s.hot_budget > 0:
                f = frame
                for _ in range(6):
                    if f is None:
                        break
                    if f.f_code.co_filename in TRACE_FILES and s.hot_re.search(f.f_code.co_name):
                        frame.f_trace_opcodes = True
                        return local_hot
                    f = f.f_back
            return local
        return None

    return glob


class VThread(real_threading.Thread):
    """threading.Thread whose start/join/is_alive go through the scheduler"""

    _v_role = None

    def start(self):
        s = S
        if s is None:
            return super().start()
        cur = s.by_ident.get(_thread.get_ident())
        role = self._v_role
        if role is None:
            import serial.threaded as st
            if isinstance(self, st.ReaderThread):
                s.reader_count += 1
                role = "R" if s.reader_count == 1 else f"R{s.reader_count}"
            elif cur is not None and cur.role.startswith("R"):
                role = "S" + cur.role[1:]
            else:
                role = self.name
        rec = s.register(self.name, role)
        rec.thread = self
        self._v_rec = rec
        run = self.run

        def wrapped():
            rec.sem.acquire()
            s.by_ident[_thread.get_ident()] = rec
            if (s.preempt_budget > 0 or s.hot_budget > 0) and TRACE_FILES:
                sys.settrace(_make_tracer())
            try:
                run()
            except Hang:
                pass
            except BaseException as e:  # noqa: BLE001
                rec.exc = e
                s.emit("thread_exc", exc=type(e).__name__, msg=str(e)[:200])
            finally:
                sys.settrace(None)
                s.emit("thread_exit", exc=type(rec.exc).__name__ if rec.exc else None)
                rec.finished = True
                s._dispatch()

        self.run = wrapped
        if cur is not None:
            s.yield_("Thread.start")
        rec.started = True
        self.daemon = True       # a thread parked by an abandoned run must not keep the process alive
        real_threading.Thread.start(self)

    def join(self, timeout=None):
        s = S
        rec = getattr(self, "_v_rec", None)
        if s is None or rec is None:
            if rec is None and s is not None:
                raise RuntimeError("cannot join thread before it is started")
            return super().join(timeout)
        if s.by_ident.get(_thread.get_ident()) is rec:
            raise RuntimeError("cannot join current thread")
        s.block(lambda: rec.finished, _deadline(timeout), "Thread.join")

    def is_alive(self):
        rec = getattr(self, "_v_rec", None)
        if rec is None:
            return False
        return rec.started and not rec.finished


class VTimer(VThread):
    def __init__(self, interval, function, args=None, kwargs=None):
        super().__init__()
        self.interval = interval
        self.function = function
        self.args = args or []
        self.kwargs = kwargs or {}
        self.finished = VEvent()

    def cancel(self):
        self.finished.set()

    def run(self):
        self.finished.wait(self.interval)
        if not self.finished.is_set():
            self.function(*self.args, **self.kwargs)
        self.finished.set()


def _current_thread():
    s = S
    if s is not None:
        r = s.by_ident.get(_thread.get_ident())
        if r is not None and r.thread is not None:
            return r.thread
    return real_threading.current_thread()


class _ShimModule(types.ModuleType):
    _passthrough = ()
    _real = None

    def __getattr__(self, name):
        if name in self._passthrough:
            return getattr(self._real, name)
        raise CannotSchedule(f"{self.__name__}.{name} is not covered by the scheduler shims")


def _mk_threading():
    m = _ShimModule("threading")
    m._real = real_threading
    m._passthrough = ("get_ident", "main_thread", "local", "active_count", "enumerate", "ThreadError", "TIMEOUT_MAX", "excepthook", "ExceptHookArgs",
                      "settrace", "setprofile", "get_native_id", "stack_size")
    m.Thread = VThread
    m.Timer = VTimer
    m.Event = VEvent
    m.Lock = VLock
    m.RLock = VRLock
    m.Condition = VCondition
    m.Semaphore = VSemaphore
    m.BoundedSemaphore = VSemaphore
    m.current_thread = _current_thread
    m.currentThread = _current_thread
    return m


def _mk_queue():
    m = _ShimModule("queue")
    m._real = real_queue
    m.Queue = VQueue
    m.LifoQueue = VLifoQueue
    m.PriorityQueue = VPriorityQueue
    m.SimpleQueue = VQueue
    m.Empty = real_queue.Empty
    m.Full = real_queue.Full
    return m


def _vsleep(d):
    if d < 0:
        raise ValueError("sleep length must be non-negative")        # as time.sleep does
    S.block(lambda: False, S.now + us(d), "sleep")


def _mk_time():
    m = _ShimModule("time")
    m._real = real_time
    m._passthrough = ("strftime", "gmtime", "localtime", "struct_time", "timezone", "tzname", "mktime", "asctime", "ctime")
    m.sleep = _vsleep
    m.monotonic = lambda: S.now / US
    def _perf_counter():
        # the library takes a time stamp exactly when it builds a communication-log entry: an observable at shim level
        if S.cur is not None and S.cur.role[:1] in ("R", "S"):
            S.emit("clock")
        return S.now / US
    m.perf_counter = _perf_counter
    m.time = lambda: 1_700_000_000 + S.now / US
    m.monotonic_ns = lambda: S.now * 1000
    m.perf_counter_ns = lambda: S.now * 1000
    m.time_ns = lambda: (1_700_000_000 * US + S.now) * 1000
    return m


SHIM_THREADING = _mk_threading()
SHIM_QUEUE = _mk_queue()
SHIM_TIME = _mk_time()
TARGET_MODULES = ["serial.threaded", "ynca.connection", "ynca.subunit", "ynca.api"]
_installed = False


def install():
    """import/reload the target modules with the shims in sys.modules, then restore sys.modules"""
    global _installed, TRACE_FILES
    if _installed:
        return
    if REPO not in sys.path:
        sys.path.insert(0, REPO)
    import logging  # noqa: F401  (make sure everything else has the real modules already)
    import re  # noqa: F401
    import serial  # noqa: F401
    import ynca.converters  # noqa: F401
    import ynca.enums  # noqa: F401
    import ynca.errors  # noqa: F401
    import ynca.function  # noqa: F401
    import ynca.helpers  # noqa: F401
    saved = {k: sys.modules.get(k) for k in ("threading", "queue", "time")}
    sys.modules["threading"] = SHIM_THREADING
    sys.modules["queue"] = SHIM_QUEUE
    sys.modules["time"] = SHIM_TIME
    try:
        for name in TARGET_MODULES:
            if name in sys.modules:
                importlib.reload(sys.modules[name])
            else:
                importlib.import_module(name)
        # subunit classes were created against the old SubunitBase if ynca was imported before: reload them too
        for name in sorted(sys.modules):
            if name.startswith("ynca.subunits"):
                importlib.reload(sys.modules[name])
        importlib.reload(sys.modules["ynca.api"])
        if "ynca" in sys.modules:
            importlib.reload(sys.modules["ynca"])
    finally:
        for k, v in saved.items():
            if v is not None:
                sys.modules[k] = v
    files = []
    for name in list(sys.modules):
        if name == "serial.threaded" or name.startswith("ynca"):
            f = getattr(sys.modules[name], "__file__", None)
            if f and "server.py" not in f:
                files.append(f)
    TRACE_FILES = tuple(files)
    import serial.threaded
    p = os.path.realpath(os.path.dirname(sys.modules["ynca"].__file__))
    if not p.startswith(os.path.realpath(REPO)):
        raise RuntimeError(f"ynca imported from {p}")
    _installed = True


# ----------------------------------------------------------------------------------------- virtual serial port
class VSerial:
    """virtual pyserial port: no `cancel_read` (so ReaderThread sets a 1 s read time-out, as with socket:// URLs)"""

    def __init__(self, device=None, name="V"):
        self.name = name
        self.is_open = True
        self.inbox = bytearray()
        self.timeout = None
        self.fault = None          # exception instance to raise from read once the inbox is drained (EOF / IO error)
        self.write_fault_after = None
        self.write_fault_late = None
        self.write_fault_once = None
        self.writes = []           # (t, bytes)
        self.reads = []            # (t, bytes)
        self.device = device
        self.nwrites = 0
        self.closed_at = None
        self.write_delay = None    # callable(n) -> seconds the n-th write blocks inside the driver (a slow / congested link)
        if device is not None:
            device.attach(self)

    # -- device side
    def _emit(self, kind, **kw):
        # events of a second port of the same process are tagged
        if getattr(self, "tag", None):
            kw["dev"] = self.tag
        return S.emit(kind, **kw)

    def feed(self, data: bytes):
        if not self.is_open:
            return                      # nothing can arrive on a closed port
        self._emit("feed", data=bytes(data).hex())
        self.inbox.extend(data)

    def inject_fault(self, exc):
        self.fault = exc

    # -- pyserial API used by serial.threaded
    @property
    def in_waiting(self):
        if not self.is_open:
            import serial
            raise serial.PortNotOpenError()
        return len(self.inbox)

    def read(self, size=1):
        import serial
        if not self.is_open:
            raise serial.PortNotOpenError()
        self._emit("read_enter")
        S.block(lambda: bool(self.inbox) or self.fault is not None or not self.is_open,
                None if self.timeout is None else S.now + us(self.timeout), "serial.read")
        if self.inbox:
            d = bytes(self.inbox[:size])
            del self.inbox[:size]
            self.reads.append((S.now, d))
            self._emit("read", data=d.hex())
            return d
        if self.fault is not None:
            self._emit("read_fault", exc=type(self.fault).__name__)
            raise self.fault
        self._emit("read", data="")
        return b""

    def write(self, data):
        import serial
        S.yield_("serial.write")
        if not self.is_open:
            self._emit("write_rejected", data=bytes(data).hex())
            raise serial.PortNotOpenError()
        self.nwrites += 1
        if self.write_fault_once is not None and self.nwrites == self.write_fault_once[0]:
            # a transient failure of exactly this write, before any byte went out (e.g. a write time-out)
            self._emit("write_fault", data=bytes(data).hex(), once=True)
            raise getattr(serial, self.write_fault_once[1])("write failed (once)")
        if self.write_fault_after is not None and self.nwrites > self.write_fault_after:
            self._emit("write_fault", data=bytes(data).hex())
            raise serial.SerialException("write failed")
        d = bytes(data)
        self.writes.append((S.now, d))
        self._emit("write", data=d.hex(), **({"port": self.idx} if getattr(self, "idx", 1) > 1 else {}))
        if self.device is not None:
            self.device.on_write(d)
        if self.write_fault_late is not None and self.nwrites == self.write_fault_late[0]:
            # the driver accepted the bytes and fails afterwards (e.g. a write time-out while flushing)
            self._emit("write_fault", data=d.hex(), late=True)
            raise getattr(serial, self.write_fault_late[1])("write failed after the data was accepted")
        if self.write_delay is not None:
            dl = self.write_delay(self.nwrites)
            if dl and dl > 0:
                S.block(lambda: False, S.now + us(dl), "serial.write(blocking)")
        return len(d)

    def close(self):
        if self.is_open:
            self.is_open = False
            self.closed_at = S.now
            self._emit("port_close", **({"port": self.idx} if getattr(self, "idx", 1) > 1 else {}))

    def flush(self):
        pass

    def reset_input_buffer(self):
        del self.inbox[:]


# ----------------------------------------------------------------------------------------- running a scenario
class Run:
    """result of one scheduled execution"""

    def __init__(self):
        self.trace = []
        self.status = None
        self.choices = []
        self.ports = []
        self.results = {}
        self.now = 0
        self.blocked = []
        self.preempts = 0


def run_scenario(scenario, seed=0, prefix=None, mode="random", preempt=0, preempt_prob=0.02, open_hook=None, wall_timeout=120, hot=None, hot_budget=0, stall=None):
    """scenario(ctxobj) is called in managed thread 'U0'; ctxobj offers .spawn(name, fn), .sleep(s), .emit(...), .now.
    `open_hook(url) -> VSerial or raises` decides what serial_for_url returns."""
    global S
    install()
    import serial
    import ynca.connection

    run = Run()
    ch = Chooser(seed, prefix, mode)
    s = Sched(ch, preempt_budget=preempt, preempt_prob=preempt_prob)
    s.queue_hook = None
    if hot:
        import re as _re
        s.hot_re = _re.compile(hot)
        s.hot_budget = hot_budget
    if stall:
        s.stall_prob = stall.get("prob", 0.5)
        s.stall_us = tuple(stall.get("us", (1000, 30000, 120000)))
    S = s

    def serial_for_url(url, *a, **kw):
        s.emit("open", url=str(url))
        if open_hook is None:
            raise serial.SerialException(f"could not open port {url}")
        port = open_hook(url)
        port.idx = len(run.ports) + 1
        run.ports.append(port)
        return port

    orig = serial.serial_for_url
    serial.serial_for_url = serial_for_url
    ynca.connection.serial.serial_for_url = serial_for_url

    class Api:
        now = property(lambda self_: s.now)
        sched = s

        def spawn(self_, name, fn, *args):
            t = VThread(target=fn, args=args, name=name)
            t._v_role = name
            t.start()
            return t

        def sleep(self_, seconds):
            _vsleep(seconds)

        def emit(self_, kind, **kw):
            return s.emit(kind, **kw)

        def at(self_, delay_s, fn):
            s.at(us(delay_s), fn)

    api = Api()

    def main():
        try:
            run.results["main"] = scenario(api)
        except Hang:
            raise
        except BaseException as e:  # noqa: BLE001
            run.results["main_exc"] = e
            s.emit("scenario_exc", exc=type(e).__name__, msg=str(e)[:300])

    t = VThread(target=main, name="U0")
    t._v_role = "U0"
    # bootstrap: the unmanaged caller starts U0 and hands over the baton
    rec = s.register("U0", "U0")
    rec.thread = t
    t._v_rec = rec

    def wrapped():
        rec.sem.acquire()
        s.by_ident[_thread.get_ident()] = rec
        if (s.preempt_budget > 0 or s.hot_budget > 0) and TRACE_FILES:
            sys.settrace(_make_tracer())
        try:
            main()
        except Hang:
            pass
        finally:
            sys.settrace(None)
            s.emit("thread_exit", exc=None)
            rec.finished = True
            s._dispatch()

    t.run = wrapped
    rec.started = True
    t.daemon = True
    real_threading.Thread.start(t)
    s._dispatch()
    ok = s.done.acquire(timeout=wall_timeout)
    serial.serial_for_url = orig
    ynca.connection.serial.serial_for_url = orig
    if not ok:
        s.finished = True
        s.status = "wall-timeout"
    run.trace = s.trace
    run.status = s.status
    run.choices = [c for _, c in ch.log]
    run.choice_log = list(ch.log)          # (number of ready threads, index chosen) per scheduling decision
    run.option_counts = [n for n, _ in ch.log]
    run.now = s.now
    run.blocked = s.blocked_threads()
    run.steps = s.steps
    # wake nothing: threads still parked stay parked (daemon threads of an abandoned run)
    return run
