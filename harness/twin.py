"""Two objects of the same class in one process, each on a connection of its own (two receivers): everything a subunit object reads, writes
and announces is a matter of its own state and its own connection.  State kept at class or module level (handler tables, caches, callback
sets, converters with memory) shows here and nowhere in single-object scenarios.  Used by the C03, C05 and C09 checks, each looking at its
own property."""
from __future__ import annotations

from . import core
from .realobj import StubConnection, subunit_class


def _initialized(cls, St):
    conn = StubConnection()
    obj = cls(conn)
    orig = conn.get

    def get(subunit, funcname):
        orig(subunit, funcname)
        if f"{getattr(subunit, 'value', subunit)}" == "SYS" and funcname == "VERSION":
            conn.deliver(St.OK, "SYS", "VERSION", "1.0")
    conn.get = get
    obj.initialize()
    conn.get = orig
    conn.sent.clear()
    return obj, conn


def run(ctx, T, rng, what):
    """what: "read" (C03) | "write" (C05) | "notify" (C09)"""
    from ynca.connection import YncaProtocolStatus as St
    from .props.c03 import value_for
    n = 0
    for c in T["classes"]:
        cls = subunit_class(c["py"])
        a, ca = _initialized(cls, St)
        b, cb = _initialized(cls, St)
        seen_a, seen_b = [], []
        a.register_update_callback(lambda fn, v: seen_a.append((fn, v)))
        b.register_update_callback(lambda fn, v: seen_b.append((fn, v)))
        readable = [f for f in c["fns"] if f["get"] and not (c["id"] == "SYS" and f["name"] == "VERSION")]
        for f in rng.sample(readable, min(len(readable), 6)):
            t = value_for(rng, T, f, undecodable_ok=False)
            seen_a.clear()
            seen_b.clear()
            before_b = getattr(b, f["attr"])
            ca.deliver(St.OK, c["id"], f["name"], t)            # the FIRST receiver reports a value to the first object's connection
            n += 1
            ctx.case(("twin", what, c["py"], f["name"], t))
            if what == "read":
                after_b = getattr(b, f["attr"])
                if not (after_b is before_b or after_b == before_b):
                    ctx.violation(f"two {c['py']} objects on two connections: after the first receiver reported {f['name']}={t!r}, the attribute {f['attr']} of the SECOND object "
                                  f"(whose receiver reported nothing) reads {after_b!r} (before: {before_b!r})",
                                  {"path": "twin", "class": c["py"], "function": f["name"], "text": t}, {"kind": "twin-read"})
                    return n
            if what == "notify":
                if seen_b:
                    ctx.violation(f"two {c['py']} objects on two connections: the report {f['name']}={t!r} of the first receiver invoked the update callback registered on the SECOND object: {seen_b[:2]}",
                                  {"path": "twin", "class": c["py"], "function": f["name"], "text": t}, {"kind": "twin-notify"})
                    return n
                if len(seen_a) != 1 or seen_a[0][0] != f["name"]:
                    ctx.violation(f"two {c['py']} objects on two connections: the report {f['name']}={t!r} invoked the first object's update callback {len(seen_a)} time(s): {seen_a[:2]}",
                                  {"path": "twin", "class": c["py"], "function": f["name"], "text": t}, {"kind": "twin-notify-own"})
                    return n
        if what == "write":
            import enum
            for f in [x for x in c["fns"] if x["put"]][:8]:
                conv = getattr(cls, f["attr"]).converter
                enums = []
                try:
                    from .props.c04 import conv_enums
                    enums = conv_enums(conv, [])
                except Exception:  # noqa: BLE001
                    enums = []
                if not enums:
                    continue
                m = next((x for x in enums[0] if x.name != "UNKNOWN"), None)
                if m is None:
                    continue
                ca.sent.clear()
                cb.sent.clear()
                # the same member is written through the first object, then through the second: each write is one PUT on the writer's own connection
                for who, (o, mine, other) in (("first", (a, ca, cb)), ("second", (b, cb, ca))):
                    try:
                        setattr(o, f["attr"], m)
                    except Exception as e:  # noqa: BLE001
                        ctx.violation(f"two {c['py']} objects on two connections: {f['attr']} = {m!r} on the {who} object raised {type(e).__name__}",
                                      {"path": "twin", "class": c["py"], "function": f["name"]}, {"kind": "twin-write-raises"})
                        return n
                    n += 1
                    ctx.case(("twin", "write", c["py"], f["name"], who))
                    puts = [x for x in mine.sent if x[0] == "put"]
                    if len(puts) != 1 or [x for x in other.sent if x[0] == "put"]:
                        ctx.violation(f"two {c['py']} objects on two connections: {f['attr']} = {m!r} on the {who} object put {puts} on its own connection and "
                                      f"{[x for x in other.sent if x[0] == 'put']} on the other object's connection (expected exactly one PUT on its own)",
                                      {"path": "twin", "class": c["py"], "function": f["name"]}, {"kind": "twin-write"})
                        return n
                    mine.sent.clear()
                    other.sent.clear()
    ctx.cov["twin_objects_" + what] = n
    return n
