"""Differential session for the bundled test server (ynca/server.py): the real YncaDataStore / YncaCommandHandler
(driven through its real `handle()` loop, one line at a time, with in-memory rfile/wfile) vs `ynca_model server`."""
from __future__ import annotations

import contextlib
import glob
import io
import os
import re

from . import core

REPO = core.REPO
SPECIAL = {"PWR", "PWRB", "STRAIGHT", "SOUNDPRG", "PUREDIRMODE", "DIRMODE", "PLAYBACK", "MEM", "REMOTECODE", "INPNAME", "SCENENAME",
           "BASIC", "METAINFO", "RDSINFO"}
WELLFORMED = re.compile(r"^(@UNDEFINED|@RESTRICTED|@[^:]+:[^=]+=.*)$", re.S)


def recordings():
    return sorted(glob.glob(os.path.join(REPO, "logs", "*.txt")))


class SessionEnded(Exception):
    pass


class RealServer:
    def __init__(self, path=None, pairs=None):
        import ynca.server as SRV
        self.SRV = SRV
        self.store = SRV.YncaDataStore()
        with contextlib.redirect_stdout(io.StringIO()):
            if path:
                self.store.fill_from_file(path)
            for s, f, v in pairs or []:
                self.store.add_data(s, f, v)
        h = SRV.YncaCommandHandler.__new__(SRV.YncaCommandHandler)
        h.store = self.store
        h.disconnect_after_receiving_num_commands = None
        h.disconnect_after_sending_num_commands = None
        h._commands_sent = 0
        h.client_address = ("test", 0)
        self.h = h

    SENTINEL = "@VERIFSENTINEL:PING=?"

    def command(self, line: str):
        """returns (list of reply lines, exception or None).  The line is followed, in the same session, by a sentinel GET for a
        subunit no store has (answered with one error line): a session that ended or stopped answering shows as SessionEnded"""
        # `line` is text (sent as UTF-8, the protocol's encoding) or the bytes the library's own write path produced for a command
        raw = line if isinstance(line, (bytes, bytearray)) else line.encode("utf-8") + b"\r\n"
        self.h.rfile = io.BytesIO(bytes(raw) + self.SENTINEL.encode() + b"\r\n")
        self.h.wfile = io.BytesIO()
        exc = None
        with contextlib.redirect_stdout(io.StringIO()):
            try:
                self.h.handle()
            except Exception as e:  # noqa: BLE001
                exc = e
        out = self.h.wfile.getvalue().decode("utf-8", "replace")
        lines = out.split("\r\n")
        if lines and lines[-1] == "":
            lines.pop()
        if exc is None:
            if not lines or lines[-1] not in ("@UNDEFINED", "@RESTRICTED"):
                exc = SessionEnded(f"the server did not answer the command that followed {line!r} in the same session")
            else:
                lines.pop()
        return lines, exc

    def dump(self):
        return [(s, f, v) for s, sub in self.store._store.items() for f, v in sub.items()]


def model_ingest_ops(path):
    ops = ["reset"]
    with open(path) as fh:
        for line in fh:
            ops.append("ingest " + core.hx(line))
    ops.append("dump")
    return ops


def show_dump(triples):
    return " ".join(f"{core.hx(s)}.{core.hx(f)}={core.hx(v)}" for s, f, v in triples) or "-"


def last_values(path):
    """independent reader: last value per (subunit, function) over every YNCA-looking line with a value"""
    from .extract import LINE_RE, read_recording
    last = {}
    for kind, text in read_recording(path):
        m = LINE_RE.match(text)
        if m and m.group(3) != "?":
            last[(m.group(1), m.group(2))] = m.group(3)
    return last


def error_only_keys(path):
    """independent reader: (subunit, function) pairs that the recording shows as queried and answered with an error line, and never with a
    value (the line after a sent GET is @UNDEFINED / @RESTRICTED)"""
    from .extract import LINE_RE, read_recording
    errs, vals = set(), set()
    pending = None
    for kind, text in read_recording(path):
        m = LINE_RE.match(text)
        if kind == "send":
            pending = (m.group(1), m.group(2)) if m and m.group(3) == "?" else None
        elif kind == "recv":
            if m and m.group(3) != "?":
                vals.add((m.group(1), m.group(2)))
            elif text in ("@UNDEFINED", "@RESTRICTED") and pending is not None:
                errs.add(pending)
            pending = None
    return errs - vals
