"""Tie of the L7 model (Model/Api.lean — `YncaApi.initialize()` / `close()` as a program) to the code: a scheduled real execution of
YncaApi.initialize() is rendered as the label sequence of the model —
    start          the API object registers its message callback on the connection it has just opened (detection begins),
    connectFails   initialize() raised before that,
    wait n         the caller has submitted its n queries and starts to wait,
    msg            the connection hands a message to the API's callback (its own invocation record),
    wake           the API unregisters its callback: the wait ended by the event,
    timeout        the caller calls close() without having unregistered: the wait ended by the time-out,
    construct n    a subunit object has submitted the n commands of its initialize() and starts to wait (L7t: its own deadline begins),
    subunitOk      a subunit object that was constructed (it registers its callback; its `id` is compared with the id the MODEL is about
                   to construct) has been initialised: the next object is constructed, or initialize() returns,
    subunitFails   … initialize() raised instead,
    close          the user's close(),
    tick           passage of virtual time —
and the compiled driver (`ynca_model api`) executes `L7.stepT` (L7 with the clock of the per-object waits, Model/ApiTimed.lean) on it.  Every label must be enabled (a wake needs the event, the time-out
is possible exactly at the model's deadline `2 s + 5·spacing·n`, the clock cannot pass the deadline of a waiting caller, objects are
constructed in the model's order) and the model's key list must be the key list of the real `_subunits`, in order, when initialize()
returns or raises and after close().  A run that differs is a broken correspondence (not by itself a violation).

Eligible: one initialize() on a fresh object, nobody else closing it meanwhile, no extra preemption or stalls inside the library."""
from __future__ import annotations

from . import core

EXC_OK = (None, "YncaInitializationFailedException", "YncaConnectionError", "YncaConnectionFailed")


def _tok(v):
    return "~" if v is None else core.hx(v)


def render(spec, run, preempt):
    if spec.get("kind") != "api_init":
        return None, "kind"
    if spec.get("closer") or spec.get("first_device"):
        return None, "second attempt / concurrent close"
    if preempt:
        return None, "extra preemption"
    if spec.get("stall") or spec.get("hot"):
        return None, "stalls"
    tr = [e for e in run.trace if e.get("dev") != 2]
    arets = [e for e in tr if e["k"] == "api_ret" and e["op"] == "initialize"]
    if len(arets) != 1:
        return None, "no return"
    aret = arets[0]
    if aret["exc"] not in EXC_OK:
        return None, "other exception: " + str(aret["exc"])
    acall = [e for e in tr if e["k"] == "api_call" and e["op"] == "initialize"][0]
    body = [e for e in tr if acall["seq"] < e["seq"] < aret["seq"]]
    main = acall["th"]
    evs = []          # (seq, t, label or ("construct", sid))
    start = [e for e in body if e["k"] == "call" and e["op"][0] == "reg" and e.get("cls") == "YncaApi"]
    want = []
    if not start:
        if aret["exc"] is None:
            return None, "no detection stage"
        evs.append((aret["seq"] - 0.5, aret["t"], "connectFails"))
    else:
        start = start[0]
        api_cb = start["op"][1]
        evs.append((start["seq"], start["t"], "start"))
        unreg = [e for e in body if e["k"] == "call" and e["op"][0] == "unreg" and e["op"][1] == api_cb]
        closes = [e for e in body if e["k"] == "call" and e["op"][0] == "close" and e["th"] == main and e["seq"] > start["seq"]]
        end_detect = unreg[0]["seq"] if unreg else (closes[0]["seq"] if closes else aret["seq"])
        cmds = [e for e in body if e["k"] == "ret" and e["op"][0] in ("get", "put", "raw") and start["seq"] < e["seq"] < end_detect]
        mine = [e for e in cmds if e["th"] == main]
        if not mine or mine[-1]["op"][:3] != ["get", "SYS", "VERSION"]:
            return None, "failed before the wait"
        if any(e["k"] in ("read_fault", "disc_cb", "port_close", "write_fault") and e["seq"] < mine[-1]["seq"] for e in body):
            return None, "link failed before the wait"
        if any(e.get("exc") for e in cmds):
            return None, "a query raised"
        evs.append((mine[-1]["seq"] + 0.5, mine[-1]["t"], f"wait {len(cmds)}"))
        for e in body:
            if e["k"] == "msg_cb" and e["cb"] == api_cb:
                evs.append((e["seq"], e["t"], f"msg {e['status']} {_tok(e['su'])} {_tok(e['fn'])} {_tok(e['val'])}"))
        if unreg:
            evs.append((unreg[0]["seq"], unreg[0]["t"], "wake"))
            regs = [e for e in body if e["k"] == "call" and e["op"][0] == "reg" and e["seq"] > unreg[0]["seq"] and e.get("cls") != "YncaApi"]
            for i, e in enumerate(regs):
                if e.get("sid") is None:
                    return None, "an object without id registered a callback"
                evs.append((e["seq"], e["t"], ("construct", e["sid"])))
                # the object's own wait begins when its initialize() has submitted its commands (L7t: `construct n`)
                nxt = regs[i + 1]["seq"] if i + 1 < len(regs) else aret["seq"]
                sub = [x for x in body if x["k"] == "ret" and x["op"][0] in ("get", "put", "raw") and e["seq"] < x["seq"] < nxt and x["th"] == main]
                if sub and not any(x.get("exc") for x in sub):
                    last = next((x for x in reversed(sub) if x["op"][:3] == ["get", "SYS", "VERSION"]), None)
                    if last is None:
                        return None, "an object's initialize() did not reach its wait"
                    sub = [x for x in sub if x["seq"] <= last["seq"]]
                    evs.append((last["seq"] + 0.5, last["t"], f"construct {len(sub)}"))
                else:
                    return None, "an object's initialize() did not reach its wait"
                if i + 1 < len(regs):
                    evs.append((regs[i + 1]["seq"] - 0.5, regs[i + 1]["t"], "subunitOk"))
            if regs:
                if aret["exc"] is None:
                    evs.append((aret["seq"] - 0.5, aret["t"], "subunitOk"))
                else:
                    c = [x for x in closes if x["seq"] > regs[-1]["seq"]]
                    at = c[0] if c else aret
                    evs.append((at["seq"] - 0.5, at["t"], "subunitFails"))
            elif aret["exc"] is not None:
                return None, "raised between detection and the first object"
        else:
            if aret["exc"] is None:
                return None, "returned without unregistering"
            at = closes[0] if closes else aret
            evs.append((at["seq"] - 0.5, at["t"], "timeout"))
    evs.append((aret["seq"], aret["t"], ("expect", "ready" if aret["exc"] is None else "failed", aret.get("order"))))
    # afterwards: the user's close() calls
    for e in tr:
        if e["k"] == "api_ret" and e["op"] == "close" and e["seq"] > aret["seq"] and e.get("exc") is None:
            evs.append((e["seq"] - 0.5, e["t"], "close"))
            evs.append((e["seq"], e["t"], ("expect", "closed", sorted(e.get("state") or {}))))
    evs.sort(key=lambda x: x[0])
    out = ["reset"]
    now = 0
    for seq, t, lab in evs:
        if t > now:
            out.append(f"tick {t - now}")
            now = t
        if isinstance(lab, tuple) and lab[0] == "construct":
            out.append("next")
            want.append((len(out) - 1, "next " + core.hx(lab[1])))
        elif isinstance(lab, tuple):
            out.append("phase")
            want.append((len(out) - 1, lab[1]))
            if lab[2] is not None:
                out.append("keys")
                want.append((len(out) - 1, "keys" + "".join(" " + core.hx(k) for k in lab[2])))
        else:
            out.append(lab)
    return out, want


def check(spec, run, preempt=0):
    lines, want = render(spec, run, preempt)
    if lines is None:
        return {"api": "SKIP", "why": want}
    res = core.run_driver("api", lines, timeout=60)
    wanted = dict(want)
    for i, l in enumerate(lines):
        r = res[i] if i < len(res) else "NO-OUTPUT"
        if i in wanted:
            if r != wanted[i]:
                return {"api": "REJECT", "index": i, "label": l, "verdict": f"model: {r}   implementation: {wanted[i]}", "context": lines[max(0, i - 12):i + 1]}
        elif r != "ok":
            return {"api": "REJECT", "index": i, "label": l[:200], "verdict": r, "context": lines[max(0, i - 12):i + 1]}
    outcome = [w for _, w in want if w in ("ready", "failed")]
    return {"api": "ACCEPT", "labels": len(lines), "outcome": outcome[0] if outcome else "?", "objects": sum(1 for l in lines if l == "subunitOk")}
