"""Seeded generators of scenario specs (one PRNG; everything JSON-able so that a replay file reproduces a run)."""
from __future__ import annotations

LATENCIES = [0.0, 0.005, 0.03, 0.06, 0.099, 0.1, 0.101, 0.15, 0.4]


def device(rng, **kw):
    d = {"type": "scripted", "latency": rng.choice(LATENCIES)}
    if rng.random() < 0.3:
        d["latency"] = {"kind": "uniform", "lo": 0.0, "hi": rng.choice([0.05, 0.2, 0.5]), "seed": rng.randrange(10 ** 6)}
    if rng.random() < 0.3:
        d["chunk"] = rng.randrange(1, 10 ** 6)
    d.update(kw)
    return d


def burst_ops(rng, i, n, sleeps, kinds=("put", "get", "raw")):
    ops = []
    for k in range(n):
        s = rng.choice(sleeps)
        if s:
            ops.append(["sleep", s])
        kind = rng.choice(kinds)
        if kind == "put":
            ops.append(["put", f"C{i}", f"F{k}", str(rng.randint(0, 99))])
        elif kind == "get":
            ops.append(["get", f"C{i}", f"F{k}"])
        else:
            ops.append(["raw", f"@C{i}:R{k}={rng.randint(0, 99)}"])
    return ops


def conn_traffic(rng, max_threads=4, max_cmds=40, long_idle=True, log_sizes=(0,)):
    """C01/C08/C12/C20 flavour: bursts from 1..4 callers, idle gaps around the keep-alive interval"""
    nthreads = rng.randint(1, max_threads)
    sleeps = [0, 0, 0, 0.01, 0.05, 0.1, 0.3] + ([5, 29.8, 30, 30.05, 31, 45, 61] if long_idle else [])
    threads = []
    for i in range(nthreads):
        ops = burst_ops(rng, i, rng.randint(0, max_cmds), sleeps)
        if rng.random() < 0.5:
            for _ in range(rng.randint(1, 3)):
                ops.insert(rng.randrange(len(ops) + 1), ["snap"])
        threads.append(ops)
    threads[0].append(["join"])
    total = sum(1 for t in threads for o in t if o[0] in ("put", "get", "raw"))
    spec = {"kind": "conn", "device": device(rng), "log_size": rng.choice(log_sizes), "threads": threads,
            "pre_register": [1], "final_wait": round((total + 4) * 0.1 + rng.choice([0, 1, 31, 65]), 3)}
    threads[0].append(["sleep", spec["final_wait"]])
    threads[0].append(["snap"])
    spec["final_wait"] = 0
    return spec


def conn_callbacks(rng):
    """C09 flavour: scripted re-entrant and concurrent (un)registration of message callbacks during deliveries"""
    pre = [1, 2, 3]
    scripts = {}
    pool = [4, 5, 6]
    for cb in (2, 3, 4, 5):
        per_inv = []
        for _ in range(rng.randint(0, 6)):
            ops = []
            r = rng.random()
            if r < 0.35:
                ops.append(["reg", rng.choice(pool)])
            elif r < 0.6:
                ops.append(["unreg", rng.choice([cb] + pool + [3])])
            elif r < 0.7:
                ops.append(["unreg", cb])
                ops.append(["reg", cb])
            per_inv.append(ops)
        scripts[str(cb)] = per_inv
    t0 = burst_ops(rng, 0, rng.randint(3, 12), [0, 0.02, 0.1, 0.15, 0.3], kinds=("put",))
    t1 = []
    for _ in range(rng.randint(0, 8)):
        t1.append(["sleep", rng.choice([0.01, 0.05, 0.13, 0.25, 0.31])])
        t1.append(rng.choice([["reg", rng.choice(pool)], ["unreg", rng.choice(pool + [3])], ["reg", 3]]))
    threads = [t0 + [["join"], ["sleep", 2.0]], t1]
    return {"kind": "conn", "device": device(rng), "log_size": 0, "threads": threads, "pre_register": pre, "callbacks": scripts}
