"""Seeded generators of scenario specs (one PRNG; everything JSON-able so that a replay file reproduces a run)."""
from __future__ import annotations

LATENCIES = [0.0, 0.005, 0.03, 0.06, 0.099, 0.1, 0.101, 0.15, 0.4]


def device(rng, **kw):
    d = {"type": "scripted", "latency": rng.choice(LATENCIES)}
    if rng.random() < 0.3:
        d["latency"] = {"kind": "uniform", "lo": 0.0, "hi": rng.choice([0.05, 0.2, 0.5]), "seed": rng.randrange(10 ** 6)}
    if rng.random() < 0.3:
        d["chunk"] = rng.randrange(1, 10 ** 6)
    elif rng.random() < 0.15:
        d["split_crlf"] = True             # every line's CR and LF arrive in separate reads
    if rng.random() < 0.15:
        d["restrict_puts"] = {"p": rng.choice([0.3, 1.0]), "seed": rng.randrange(10 ** 6)}       # some PUTs are answered with @RESTRICTED
    if rng.random() < 0.2:
        d["mute"] = {"p": rng.choice([0.2, 0.6, 1.0]), "seed": rng.randrange(10 ** 6)}               # some commands (probes too) get no reply at all
    d.update(kw)
    return d


REAL_PUTS = [("MAIN", "PWR", "On"), ("MAIN", "PWR", "Standby"), ("SYS", "PWR", "On"), ("ZONE2", "PWR", "On"), ("MAIN", "VOL", "Up"), ("MAIN", "VOL", "-30.5"),
             ("MAIN", "MUTE", "On"), ("MAIN", "INP", "HDMI1"), ("MAIN", "PLAYBACK", "Play"), ("MAIN", "SCENE", "Scene 1"), ("SYS", "REMOTECODE", "7A85-1F2"),
             ("TUN", "FMFREQ", "101.60"), ("MAIN", "SLEEP", "30 min"), ("SYS", "PARTY", "On"), ("MAIN", "ZONENAME", "Living")]
REAL_GETS = [("MAIN", "BASIC"), ("SYS", "VERSION"), ("MAIN", "AVAIL"), ("SYS", "INPNAME"), ("MAIN", "SCENENAME"), ("NETRADIO", "METAINFO"), ("MAIN", "PWR")]


def burst_ops(rng, i, n, sleeps, kinds=("put", "get", "raw")):
    ops = []
    for k in range(n):
        s = rng.choice(sleeps)
        if s:
            ops.append(["sleep", s])
        kind = rng.choice(kinds)
        if rng.random() < 0.25 and kind in ("put", "get"):
            # the commands a real client sends (what the library does must not depend on which command it is)
            ops.append(["put", *rng.choice(REAL_PUTS)] if kind == "put" else ["get", *rng.choice(REAL_GETS)])
            continue
        if ops and ops[-1][0] in ("put", "get", "raw") and rng.random() < 0.08:
            ops.append(list(ops[-1]))                 # the very same command again (identical text)
            continue
        if kind == "put":
            v = str(rng.randint(0, 99))
            if rng.random() < 0.12:
                # (characters that mean something to a formatter, a logger, a shell or a path — as a value they are just characters)
                v = rng.choice(["a\nb", "x\ry", " padded ", "\n", "Ünï 𝄞", "a:b=c", "", "100%", "%s %d", "{} {0}", "back\\slash", "it's \"q\"", "%(x)s", "$HOME `x`", "tab\there"])
            ops.append(["put", f"C{i}", f"F{k}", v])
        elif kind == "get":
            ops.append(["get", f"C{i}", f"F{k}"])
        else:
            # blank raw items are lines too; a bare LF or CR inside raw data does not end a line (only CR LF does)
            ops.append(["raw", f"@C{i}:R{k}={rng.randint(0, 99)}" if rng.random() > 0.1 else rng.choice(["", " ", "  \t", f"@C{i}:R{k}=On\n@C{i}:R{k}b=1", f"@C{i}:R{k}=a\rb", f"@C{i}:R{k}=x\n"])])
    return ops


def conn_traffic(rng, max_threads=4, max_cmds=40, long_idle=True, log_sizes=(0, 0, 5)):
    """C01/C08/C12/C20 flavour: bursts from 1..4 callers, idle gaps around the keep-alive interval"""
    nthreads = rng.randint(1, max_threads)
    sleeps = [0, 0, 0, 0.01, 0.05, 0.1, 0.3] + ([5, 29.8, 30, 30.05, 31, 45, 61] if long_idle else [])
    threads = []
    for i in range(nthreads):
        ops = burst_ops(rng, i, rng.randint(0, max_cmds), sleeps)
        if rng.random() < 0.5:
            for _ in range(rng.randint(1, 3)):
                ops.insert(rng.randrange(len(ops) + 1), ["snap"])
        threads.append(ops)
    threads[0].append(["join"])
    total = sum(1 for t in threads for o in t if o[0] in ("put", "get", "raw"))
    spec = {"kind": "conn", "device": device(rng), "log_size": rng.choice(log_sizes), "threads": threads,
            "pre_register": [1], "final_wait": round((total + 9) * 0.1 + rng.choice([0, 1, 31, 65]), 3)}
    threads[0].append(["sleep", spec["final_wait"]])
    threads[0].append(["snap"])
    spec["final_wait"] = 0
    return spec


def conn_callbacks(rng):
    """C09 flavour: scripted re-entrant and concurrent (un)registration of message callbacks during deliveries"""
    pre = [1, 2, 3]
    scripts = {}
    pool = [4, 5, 6]
    for cb in (2, 3, 4, 5):
        per_inv = []
        for _ in range(rng.randint(0, 6)):
            ops = []
            r = rng.random()
            if r < 0.35:
                ops.append(["reg", rng.choice(pool)])
            elif r < 0.6:
                ops.append(["unreg", rng.choice([cb] + pool + [3])])
            elif r < 0.7:
                ops.append(["unreg", cb])
                ops.append(["reg", cb])
            elif r < 0.85:
                # another thread (un)registers at the very moment this delivery round is in progress
                ops.append(["async", [rng.choice([["reg", rng.choice(pool)], ["unreg", rng.choice(pool + [3])]]) for _ in range(rng.randint(1, 2))]])
                ops.append(rng.choice([["reg", rng.choice(pool)], ["unreg", rng.choice(pool)]]))
            per_inv.append(ops)
        scripts[str(cb)] = per_inv
    t0 = burst_ops(rng, 0, rng.randint(3, 12), [0, 0.02, 0.1, 0.15, 0.3], kinds=("put",))
    t1 = []
    for _ in range(rng.randint(0, 8)):
        t1.append(["sleep", rng.choice([0.01, 0.05, 0.13, 0.25, 0.31])])
        t1.append(rng.choice([["reg", rng.choice(pool)], ["unreg", rng.choice(pool + [3])], ["reg", 3]]))
    threads = [t0 + [["join"], ["sleep", 2.0]], t1]
    spec = {"kind": "conn", "device": device(rng), "log_size": 0, "threads": threads, "pre_register": pre, "callbacks": scripts}
    if rng.random() < 0.5:
        # targeted line-level preemption inside the registration / delivery functions (races on the callback collection itself)
        spec["hot"] = "register_message_callback|_call_registered_message_callbacks"
        spec["hot_budget"] = rng.choice([4, 10, 20])
        for op in t1:
            if op[0] == "sleep":
                op[1] = rng.choice([0.02, 0.1, 0.15, 0.3])          # keep the second thread busy while deliveries run
    return spec


def conn_lifecycle(rng):
    """C15/C16 flavour: link drops at random points, close() at any time from caller threads, from inside message callbacks
    and from the disconnect callback, repeated and concurrent; API calls on the dead connection"""
    sleeps = [0, 0, 0.01, 0.05, 0.1, 0.25, 1.0, 2.5]
    t0 = burst_ops(rng, 0, rng.randint(0, 15), sleeps)
    t1 = burst_ops(rng, 1, rng.randint(0, 10), sleeps)
    threads = [t0, t1]
    how = rng.choice(["drop", "eof", "close", "close-cb", "close-disc", "close2", "none", "drop+close", "write-fault"])
    dev = device(rng)
    spec = {"kind": "conn", "device": dev, "log_size": rng.choice([0, 3]), "threads": threads, "pre_register": [1, 2], "callbacks": {}}
    if how in ("drop", "drop+close"):
        th = rng.choice(threads)
        th.insert(rng.randrange(len(th) + 1), ["drop"])
    if how == "eof":
        dev["eof_after_bytes"] = rng.randint(0, 120)
    if how == "write-fault":
        spec["write_fault_after"] = rng.randint(0, 8)
    if how in ("close", "close2", "drop+close"):
        th = rng.choice(threads)
        th.insert(rng.randrange(len(th) + 1), ["close"])
        if how == "close2":
            th2 = rng.choice(threads)
            th2.insert(rng.randrange(len(th2) + 1), ["close"])
            th2.insert(rng.randrange(len(th2) + 1), ["close"])
    if how == "close-cb":
        k = rng.randint(0, 4)
        spec["callbacks"]["2"] = [[] for _ in range(k)] + [[["close"]] + ([["put", "X", "Y", "1"]] if rng.random() < 0.5 else [])]
    if how == "close-disc":
        th = rng.choice(threads)
        th.insert(rng.randrange(len(th) + 1), ["drop"])
        spec["disconnect_ops"] = [["close"]] + ([["put", "X", "Z", "2"]] if rng.random() < 0.5 else [])
    if how in ("drop", "eof", "close-disc", "drop+close", "write-fault") and rng.random() < 0.5:
        spec["disconnect_ops"] = [["connected"]] + spec.get("disconnect_ops", [])      # what the connection reports inside the disconnect callback
    # API calls afterwards (must be silent no-ops on a dead connection)
    tail = [["sleep", rng.choice([0.5, 3.0])], ["connected"], ["put", "T", "A", "1"], ["get", "T", "B"], ["raw", "@T:C=3"], ["snap"], ["sleep", 1.0]]
    threads[0].extend([["join"]] + tail)
    return spec


def conn_keepalive(rng):
    """C13 flavour: probes, user MODELNAME queries racing them, other commands, unsolicited lines, latencies on both sides of the spacing"""
    lat = rng.choice([0.0, 0.03, 0.06, 0.099, 0.1, 0.101, 0.15, 0.25, 0.4, 1.2, 2.5, 3.5])
    unsol = []
    t = 0.0
    for _ in range(rng.randint(0, 6)):
        t += rng.choice([0.05, 0.3, 7.0, 29.9, 30.15, 30.25])
        unsol.append([round(t, 3), rng.choice(["@MAIN:VOL=-%d.0" % rng.randint(1, 60), "@SYS:MODELNAME=RX-V", "@UNDEFINED", "@MAIN:MUTE=On", "garbage", "", "no at sign: x=y"])])
    dev = {"type": "scripted", "latency": lat, "unsolicited": unsol}
    if rng.random() < 0.3:
        dev["latency"] = {"kind": "uniform", "lo": 0.0, "hi": rng.choice([0.12, 0.3]), "seed": rng.randrange(10 ** 6)}
    if rng.random() < 0.2:
        dev["swallow_first"] = 1
    ops = []
    for k in range(rng.randint(1, 10)):
        ops.append(["sleep", rng.choice([0, 0.05, 0.1, 0.2, 29.7, 29.95, 30.0, 30.05, 30.2, 31, 60.2])])
        r = rng.random()
        if r < 0.45:
            ops.append(["get", "SYS", "MODELNAME"])
        elif r < 0.8:
            ops.append(["put", "MAIN", f"F{k}", str(rng.randint(0, 99))])
        else:
            ops.append(["get", "MAIN", f"G{k}"])
    ops.append(["sleep", rng.choice([1.0, 31.0])])
    return {"kind": "conn", "device": dev, "log_size": 0, "threads": [ops], "pre_register": [1]}


def small_scenarios():
    """tiny sessions for the systematic (context-bounded, exhaustive) exploration: few scheduling decisions, every kind of life-cycle event"""
    dev = {"type": "scripted", "latency": 0.03}
    base = {"kind": "conn", "log_size": 0, "pre_register": [1], "final_wait": 0}
    S = {}
    S["traffic"] = dict(base, device=dict(dev), threads=[[["put", "MAIN", "VOL", "-30.0"], ["get", "SYS", "MODELNAME"], ["sleep", 0.35]]])
    S["two-callers"] = dict(base, device=dict(dev), threads=[[["put", "MAIN", "A", "1"], ["get", "MAIN", "B"], ["join"], ["sleep", 0.45]],
                                                             [["put", "ZONE2", "C", "2"], ["raw", "@ZONE2:D=3"]]])
    S["link-drop"] = dict(base, device=dict(dev, drop_at=0.12), threads=[[["put", "MAIN", "A", "1"], ["put", "MAIN", "B", "2"], ["put", "MAIN", "C", "3"], ["sleep", 3.0], ["connected"]]])
    S["close-in-callback"] = dict(base, device=dict(dev), callbacks={"1": [[["close"]]]}, threads=[[["put", "MAIN", "A", "1"], ["put", "MAIN", "B", "2"], ["sleep", 0.5]]])
    S["reg-in-callback"] = dict(base, device=dict(dev), callbacks={"1": [[["reg", 2], ["unreg", 1]]], "2": [[["reg", 1]]]},
                                threads=[[["put", "MAIN", "A", "1"], ["put", "MAIN", "B", "2"], ["put", "MAIN", "C", "3"], ["sleep", 0.6]]])
    S["concurrent-close"] = dict(base, device=dict(dev), threads=[[["put", "MAIN", "A", "1"], ["put", "MAIN", "B", "2"], ["join"], ["sleep", 0.3]], [["sleep", 0.05], ["close"]]])
    S["log"] = dict(base, log_size=3, device=dict(dev), threads=[[["put", "MAIN", "A", "1"], ["snap"], ["sleep", 0.15], ["snap"], ["get", "MAIN", "B"], ["sleep", 0.3], ["snap"]]])
    S["own-modelname"] = dict(base, device=dict(dev, latency=0.12), threads=[[["get", "SYS", "MODELNAME"], ["sleep", 0.1], ["get", "SYS", "MODELNAME"], ["sleep", 0.6]]])
    return S


def with_second(rng, spec):
    """the same scenario with a second, independent connection (own receiver, own traffic) alive in the same process: anything the first
    connection does must be a matter of its own state only (class-level / module-level state shared between connections shows here)"""
    spec["second"] = {"device": {"type": "scripted", "latency": rng.choice([0.0, 0.03, 0.15, 0.4])}}
    for ops in spec["threads"][:1]:
        out = []
        for op in ops:
            out.append(op)
            if op[0] in ("sleep", "put", "get", "raw") and rng.random() < 0.5:
                out.append(["get2", "SYS", "MODELNAME"] if rng.random() < 0.3 else ["put2", "B", f"F{len(out)}", str(rng.randint(0, 9))])
        if rng.random() < 0.4 and len(out) > 2:
            # the second connection ends early (planned close) while the first one carries on: that is the second one's business only
            out.insert(rng.randrange(1, max(2, len(out) // 2)), ["close2"])
        spec["threads"][0] = out
    return spec


def conn_keepalive_two(rng):
    """C13 with a second, independent connection alive in the same process: its probes, its own MODELNAME queries and the lines it receives
    must not influence what the first connection withholds or delivers (per-connection state only)"""
    spec = conn_keepalive(rng)
    lat2 = rng.choice([0.0, 0.03, 0.15, 0.4])
    spec["second"] = {"device": {"type": "scripted", "latency": lat2}}
    ops = spec["threads"][0]
    out = []
    for op in ops:
        out.append(op)
        if op[0] == "sleep" and rng.random() < 0.6:
            r = rng.random()
            out.append(["get2", "SYS", "MODELNAME"] if r < 0.5 else ["put2", "B", f"F{len(out)}", "1"])
            if rng.random() < 0.5:
                out.append(["sleep", rng.choice([0.01, 0.05, 0.12])])
    spec["threads"][0] = out
    return spec


def conn_log(rng):
    """C20 flavour: sessions shorter and longer than N with snapshots taken at random points by a second caller"""
    spec = conn_traffic(rng, max_threads=2, max_cmds=25, long_idle=rng.random() < 0.3, log_sizes=(0, 1, 2, 5, 100))
    snaps = [["sleep", rng.choice([0.0, 0.05, 0.1, 0.33, 1.0])] if i % 2 == 0 else ["snap"] for i in range(2 * rng.randint(2, 12))]
    spec["threads"].append(snaps)
    return spec


# ------------------------------------------------------------------------------------------------ API level
GROUPS = {"BASIC", "METAINFO", "SCENENAME", "INPNAME", "RDSINFO", "FMRDSINFO"}


def _value_for(rng, T, f):
    from .props.c03 import value_for
    return value_for(rng, T, f, undecodable_ok=False)


_FACTS = None


def device_facts():
    global _FACTS
    if _FACTS is None:
        import json
        import os
        _FACTS = json.load(open(os.path.join(os.path.dirname(os.path.abspath(__file__)), "device_facts.json")))["facts"]
    return _FACTS


def device_table(rng, T, present, p_answer=0.8):
    """scripted answers of a synthetic receiver: a random subset of the functions of the present subunits, multi-value groups answered
    with several member lines"""
    table = {}
    by_id = {c["id"]: c for c in T["classes"]}
    facts = device_facts()
    for sid in present:
        c = by_id[sid]
        groups = {}
        for f in c["fns"]:
            if not f["get"] or f["name"] == "AVAIL":
                continue
            if rng.random() > p_answer:
                continue
            v = _value_for(rng, T, f)
            # which multi-value answer carries a function is a fact about receivers, not about the library: taken from the frozen facts
            # (falls back to the code's table only for functions the facts do not know)
            grp = facts.get(sid, {}).get(f["name"], {"group": f["init"]})["group"]
            q = grp or f["name"]
            groups.setdefault(q, []).append(f"@{sid}:{f['name']}={v}")
            if grp and rng.random() < 0.5:
                table[f"@{sid}:{f['name']}=?"] = [f"@{sid}:{f['name']}={v}"]
        for q, lines in groups.items():
            rng.shuffle(lines)
            table[f"@{sid}:{q}=?"] = lines
    return table


def api_init(rng, T, recorded=None):
    """C07/C14 flavour: a full YncaApi.initialize() against a synthetic or recorded receiver"""
    if recorded:
        dev = {"type": "recorded", "name": recorded, "latency": rng.choice([0.0, 0.02, 0.06, 0.099, 0.15, 0.3])}
        if rng.random() < 0.3:
            dev["latency"] = {"kind": "uniform", "lo": 0.0, "hi": rng.choice([0.1, 0.4]), "seed": rng.randrange(10 ** 6)}
        return {"kind": "api_init", "device": dev, "after": [["dump"], ["close"]], "final_wait": 6, "known_ids": [c["id"] for c in T["classes"]], "healthy": True,
                "readable": {c["id"]: [f["name"] for f in c["fns"] if f["get"]] for c in T["classes"]}}
    optional = [s for s in T["consts"]["subunits"] if s != "SYS"]
    k = rng.choice([0, 1, 2, 3, 5, 8, len(optional)])
    present = sorted(rng.sample(optional, k))
    avail = {s: rng.choice(["Ready", "Not Ready", "Not Connected"]) for s in present}
    table = device_table(rng, T, ["SYS"] + present, p_answer=rng.choice([0.3, 0.8, 1.0]))
    unsol = []
    for _ in range(rng.randint(0, 5)):
        s = rng.choice(["MAIN", "SYS"] + present)
        unsol.append([round(rng.uniform(0.0, 8.0), 3), rng.choice([f"@{s}:PWR=On", f"@{s}:VOL=-{rng.randint(10, 60)}.5", "@RESTRICTED", f"@{s}:INP=HDMI{rng.randint(1, 4)}", "@MAIN:SLEEP=Off"])])
    dev = {"type": "scripted", "latency": rng.choice([0.0, 0.02, 0.06, 0.099, 0.15, 0.4]), "avail": avail, "table": table, "unsolicited": unsol, "echo_put": True}
    if rng.random() < 0.3:
        dev["latency"] = {"kind": "uniform", "lo": 0.0, "hi": rng.choice([0.1, 0.5, 1.5]), "seed": rng.randrange(10 ** 6)}
    if rng.random() < 0.2:
        dev["swallow_first"] = 1
    if rng.random() < 0.3:
        dev["chunk"] = rng.randrange(1, 10 ** 6)
    elif rng.random() < 0.2:
        dev["split_crlf"] = True
    lat = dev["latency"]
    healthy = (isinstance(lat, (int, float)) and lat <= 0.5) or (isinstance(lat, dict) and lat["hi"] <= 0.5)
    return {"kind": "api_init", "device": dev, "after": [["dump"], ["close"]], "final_wait": 6, "present": present,
            "known_ids": [c["id"] for c in T["classes"]], "healthy": healthy,
            "readable": {c["id"]: [f["name"] for f in c["fns"] if f["get"]] for c in T["classes"]}}


def api_log(rng, T):
    """C20 flavour: the log as the YncaApi object hands it out, on an object that may have been used for connection_check() before"""
    spec = api_init(rng, T)
    present = spec["present"][:2]
    spec["present"] = present
    spec["device"]["avail"] = {s: "Ready" for s in present}
    spec["device"]["table"] = device_table(rng, T, ["SYS"] + present, p_answer=0.5)
    spec["device"]["latency"] = rng.choice([0.0, 0.02, 0.06])
    spec["device"].pop("swallow_first", None)
    # (no unsolicited reports here: a volunteered line with the text of a later reply cannot be told from that reply in the log, and the rule
    # "no reply listed before the command that caused it" is judged by text)
    spec["device"].pop("unsolicited", None)
    spec["device"]["model"] = "RX-V473"
    spec["log_size"] = rng.choice([1, 3, 10, 40, 400])
    spec["check_first"] = rng.choice([0, 1, 1, 2])
    spec["after"] = [["snap"], ["send_raw", "@MAIN:VOL=?"], ["sleep", rng.choice([0.05, 0.5, 31.0])], ["snap"], ["close"]]
    return spec


def api_typed_two(rng, T):
    """C01 through typed attribute writes of a YncaApi object while ANOTHER YncaApi object of the same process is initialised against another
    receiver and stays alive: the first object's writes travel on the first object's wire"""
    spec = api_init(rng, T)
    present = ["MAIN"] + (["ZONE2"] if rng.random() < 0.5 else [])
    spec["present"] = present
    spec["device"]["avail"] = {s: "Ready" for s in present}
    spec["device"]["table"] = device_table(rng, T, ["SYS"] + present, p_answer=0.3)
    spec["device"]["latency"] = rng.choice([0.0, 0.02])
    spec["device"].pop("unsolicited", None)
    spec["device"].pop("swallow_first", None)
    spec["healthy"] = True
    oth = ["MAIN"] + [x for x in ("ZONE2", "TUN") if rng.random() < 0.6]
    spec["other_device"] = {"type": "scripted", "latency": 0.0, "avail": {s_: "Ready" for s_ in oth}, "table": device_table(rng, T, ["SYS"] + oth, p_answer=0.3), "echo_put": True}
    spec["other_keep"] = True
    after = []
    for _ in range(rng.randint(1, 5)):
        acc = rng.choice([p.lower() for p in present])
        attr, cls, mem = rng.choice([("pwr", "Pwr", "ON"), ("pwr", "Pwr", "STANDBY"), ("mute", "Mute", "ON"), ("mute", "Mute", "OFF")])
        after.append(["assign_enum", acc, attr, cls, mem])
        if rng.random() < 0.4:
            after.append(["sleep", rng.choice([0.05, 0.3])])
    spec["after"] = after + [["sleep", 16.0], ["close", "final"]]
    return spec


def api_init_two_ok(rng, T):
    """C07 with a second YncaApi object initialised against ANOTHER receiver (other subunits, other values) after the first one: each object
    exposes its own receiver's subunits and values"""
    spec = api_init(rng, T)
    present = spec.get("present", [])[:3]
    spec["present"] = present
    spec["device"]["avail"] = {k: v for k, v in spec["device"]["avail"].items() if k in present}
    spec["device"]["table"] = device_table(rng, T, ["SYS"] + present, p_answer=0.5)
    spec["device"].pop("unsolicited", None)
    spec["device"].pop("pause", None)
    spec["device"]["latency"] = rng.choice([0.0, 0.02, 0.06])
    spec["healthy"] = True
    spec["quiet_first"] = True
    optional = [s for s in T["consts"]["subunits"] if s != "SYS"]
    oth = sorted(rng.sample(optional, rng.choice([0, 1, 2, 3])))
    spec["other_device"] = {"type": "scripted", "latency": 0.0, "avail": {s_: "Ready" for s_ in oth}, "table": device_table(rng, T, ["SYS"] + oth, p_answer=0.6), "echo_put": True}
    return spec


def api_init_fault(rng, T, total_replies=None, total_bytes=None):
    """C14 flavour: initialize() with a fault at a chosen position of the start-up dialogue"""
    spec = api_init(rng, T)
    present = spec["present"][:3]
    spec["present"] = present
    spec["device"]["avail"] = {s: "Ready" for s in present}
    spec["device"]["table"] = device_table(rng, T, ["SYS"] + present, p_answer=0.6)
    spec["device"].pop("unsolicited", None)
    how = rng.choice(["silent", "eof", "open", "write", "drop", "cut"])
    if how == "cut":
        # the link fails inside one of the synchronisation replies (stage k of 2 + number of present subunits)
        spec["device"]["cut_reply"] = {"cmd": "@SYS:VERSION=?", "nth": rng.randint(1, 2 + len(present)), "keep": rng.randint(0, 25)}
    elif how == "drop":
        spec["device"]["drop_at"] = rng.choice([0, 0, 0.0001, 0.05, 0.15, 0.3, round(rng.uniform(0, 12), 3)])
    elif how == "silent":
        spec["device"]["silent_after"] = rng.randint(0, 120)
    elif how == "eof":
        spec["device"]["eof_after_bytes"] = rng.choice([0, 1, 5, 19, 20, 21, 40]) if rng.random() < 0.4 else rng.randint(0, 3000)
    elif how == "open":
        spec["open_fails"] = True
    else:
        spec["write_fault_after"] = rng.randint(0, 80)
    spec["fault"] = how
    spec["healthy"] = False
    spec["after"] = [["dump"], ["sleep", 5.0], ["close"]]
    if rng.random() < 0.3:
        # after the failure another YncaApi object of the same process is initialised against another, healthy receiver
        oth = [x for x in ("MAIN", "ZONE2", "TUN") if rng.random() < 0.6]
        spec["other_device"] = {"type": "scripted", "latency": 0.0, "avail": {s_: "Ready" for s_ in oth}, "table": device_table(rng, T, ["SYS"] + oth, p_answer=0.3), "echo_put": True}
    return spec


def conn_check(rng, drops=False, repeat=False):
    """C17 flavour"""
    zones = [z for z in ("MAIN", "ZONE2", "ZONE3", "ZONE4") if rng.random() < 0.5]
    lat = rng.choice([0.0, 0.06, 0.099, 0.1, 0.101, 0.15, 0.4, 1.2, 1.4, 1.6, 3.0])
    dev = {"type": "scripted", "latency": lat, "avail": {z: rng.choice(["Ready", "Not Ready"]) for z in zones}, "model": rng.choice(["RX-V473", "RX-A6A", "R-N500"])}
    if rng.random() < 0.25:
        dev["swallow_first"] = 1
    r = rng.random()
    if r < 0.1:
        dev["model"] = None          # never answers MODELNAME
    elif r < 0.2:
        dev["eof_after_bytes"] = rng.randint(0, 80)
    elif r < 0.25:
        dev["silent_after"] = rng.randint(0, 4)
    elif r < 0.37 and (drops or __import__("os").environ.get("VERIF_C17_DROPS")):
        # (enabled once the L4 model has the close()-after-failed-connect path)
        # the link drops at / right after opening the port (the reader can run connection_lost before connect() returns) or in mid-check
        dev["drop_at"] = rng.choice([0, 0, 0.0001, 0.05, 0.15, 0.35, round(rng.uniform(0, 3.0), 3)])
    if rng.random() < 0.06 and dev.get("model") is not None:
        dev["model"] = ""                  # a receiver may report an empty model name: that is a model name reply
    if rng.random() < 0.25:
        dev["split_crlf"] = True           # a serial line: every reply's CR and LF arrive in separate reads
    spec = {"kind": "conn_check", "device": dev, "zones": zones, "final_wait": 6}
    if repeat:
        spec["repeat"] = 2                 # the check is run twice on the same YncaApi object; the last run is the one judged
        if rng.random() < 0.6:
            # ... and the first run met a receiver that had all four zones (one has been switched off since / another receiver sits on the port)
            spec["first_device"] = {"type": "scripted", "latency": 0.0, "avail": {z: "Ready" for z in ("MAIN", "ZONE2", "ZONE3", "ZONE4")}, "model": "RX-A3000"}
    if rng.random() < 0.05:
        spec["open_fails"] = True
    return spec


def conn_check_two(rng):
    """C17 with another YncaApi object checking ANOTHER receiver at the same time (fast replies on both, so that the recorded finding does
    not interfere): each check reports its own receiver's model name and zones"""
    def dev(tag):
        zones = [z for z in ("MAIN", "ZONE2", "ZONE3", "ZONE4") if rng.random() < 0.5]
        return {"type": "scripted", "latency": rng.choice([0.0, 0.02, 0.06]), "avail": {z: "Ready" for z in zones}, "model": f"RX-{tag}{rng.randint(100, 999)}"}, zones
    d1, z1 = dev("A")
    d2, z2 = dev("B")
    return {"kind": "conn_check", "device": d1, "zones": z1, "other_device": d2, "other_zones": z2, "other_delay": rng.choice([0.0, 0.0, 0.05, 0.31, 0.62]), "final_wait": 6}


def subunit_init(rng, T):
    """C06 flavour: one subunit's initialize() on a live connection"""
    c = rng.choice(T["classes"])
    table = device_table(rng, T, [c["id"]], p_answer=rng.choice([0.0, 0.5, 1.0]))
    unsol = []
    for _ in range(rng.randint(0, 4)):
        f = rng.choice([x for x in c["fns"] if x["name"] != "VERSION"])     # device assumption: SYS:VERSION is never sent unsolicited
        unsol.append([round(rng.uniform(0.0, 4.0), 3), f"@{c['id']}:{f['name']}={_value_for(rng, T, f)}"])
    lat = rng.choice([0.0, 0.02, 0.099, 0.15, 0.4])
    dev = {"type": "scripted", "latency": lat, "table": table, "unsolicited": unsol, "avail": {c["id"]: "Ready"}}
    if rng.random() < 0.25:
        dev["latency"] = {"kind": "uniform", "lo": 0.0, "hi": rng.choice([0.2, 1.0]), "seed": rng.randrange(10 ** 6)}
    r = rng.random()
    if r < 0.15:
        dev["version"] = None        # the sync query is never answered
    elif r < 0.25:
        dev["silent_after"] = rng.randint(2, 12)
    queries = []
    for f in c["fns"]:
        if f["no_init"]:
            continue
        q = f["init"] or f["name"]
        if q not in queries:
            queries.append(q)
    def entry(cl):
        qs = []
        for f in cl["fns"]:
            if f["no_init"]:
                continue
            q = f["init"] or f["name"]
            if q not in qs:
                qs.append(q)
        return {"class": cl["py"], "expect_id": cl["id"], "expect_queries": qs, "readable": [f["name"] for f in cl["fns"] if f["get"]]}

    inits = [entry(c)]
    r = rng.random()
    if r < 0.3:
        # further subunits are constructed on the same connection BEFORE anything is initialised, then initialised one after the other
        for c2 in rng.sample([x for x in T["classes"] if x["id"] != c["id"]], rng.randint(1, 2)):
            inits.append(entry(c2))
            dev["table"].update(device_table(rng, T, [c2["id"]], p_answer=0.5))
    elif r < 0.45:
        inits.append(dict(entry(c), same_as=0))            # the same object is initialised a second time
        inits[0]["gap"] = rng.choice([0.0, 0.5, 3.0])
    spec = {"kind": "subunit", "class": c["py"], "device": dev, "inits": inits}
    if len(inits) == 1 and rng.random() < 0.12:
        # a write fails while the queries go out (persistently from the k-th line on, or just once): initialize() must fail within its bound
        spec["write_fault_after" if rng.random() < 0.5 else "write_fault_once"] = (rng.randint(2, 30) if rng.random() < 0.5 else {"n": rng.randint(3, 30)})
        if isinstance(spec.get("write_fault_after"), dict):
            spec["write_fault_after"] = spec["write_fault_after"]["n"]
        if isinstance(spec.get("write_fault_once"), int):
            spec["write_fault_once"] = {"n": spec["write_fault_once"]}
    if rng.random() < 0.4:
        spec["pre_delay"] = rng.choice([0.3, 1.0, 4.5])     # unsolicited reports can arrive before initialize() is called
    if len(inits) == 1 and "version" not in dev and "silent_after" not in dev and not any(k.startswith("write_fault") for k in spec) and rng.random() < 0.15:
        # the synchronisation reply comes, but only after initialize() has given up; the receiver goes on reporting values afterwards
        nq = len(inits[0]["expect_queries"]) + 1
        bound = 2.0 + 0.5 * nq
        extra = bound + rng.choice([0.5, 2.0, 6.0])
        dev["slow_cmd"] = {"cmd": "@SYS:VERSION=?", "extra": extra}
        dev["latency"] = rng.choice([0.0, 0.02])
        t = spec.get("pre_delay", 0) + 0.3 + 0.1 * nq + extra
        fs = [x for x in c["fns"] if x["get"] and x["name"] not in ("VERSION", "MODELNAME")]
        for _ in range(rng.randint(1, 3)):
            t += rng.choice([0.05, 0.5])
            f = rng.choice(fs)
            dev["unsolicited"] = list(dev.get("unsolicited", [])) + [[round(t, 3), f"@{c['id']}:{f['name']}={_value_for(rng, T, f)}"]]
        spec["settle"] = extra + 3.0
    return spec


def conn_slow_writes(rng):
    """C01/C08/C12 flavour judged by monitors only (write duration is not in the L4 model): some writes block inside the driver"""
    spec = conn_traffic(rng, max_threads=2, max_cmds=12, long_idle=rng.random() < 0.5)
    spec["slow_writes"] = {str(rng.randint(1, 12)): rng.choice([0.05, 0.12, 0.25, 0.6]) for _ in range(rng.randint(1, 3))}
    spec["threads"][0].insert(-1, ["sleep", 2.0])        # room for the blocked time before the final snapshot
    return spec


def conn_late_write_fault(rng):
    """C01 flavour judged by the monitor only: the driver accepts the bytes of the k-th line and raises afterwards (write time-out / IO error);
    nothing may appear on the wire a second time"""
    spec = conn_traffic(rng, max_threads=2, max_cmds=12, long_idle=False)
    spec["write_fault_late" if rng.random() < 0.6 else "write_fault_once"] = {"n": rng.randint(1, 10), "exc": rng.choice(["SerialException", "SerialTimeoutException"])}
    return spec


def conn_busy_callback(rng):
    """C12 flavour: a message callback that is still running (for seconds) when the keep-alive timer expires"""
    t_unsol = rng.choice([29.2, 29.8, 30.0, 30.05, 59.9, 60.2])
    dev = {"type": "scripted", "latency": rng.choice([0.02, 0.06, 0.15]), "unsolicited": [[t_unsol, "@MAIN:VOL=-%d.5" % rng.randint(10, 60)]]}
    ops = [["sleep", rng.choice([0.3, 1.0])], ["put", "MAIN", "F0", "1"], ["sleep", rng.choice([62, 65, 95])]]
    k = rng.randint(1, 3)
    scripts = {"1": [[] for _ in range(k)] + [[["sleep", rng.choice([1.5, 2.8, 4.0])]]] * 3}
    return {"kind": "conn", "device": dev, "log_size": 0, "threads": [ops], "pre_register": [1], "callbacks": scripts}


def conn_port_dies(rng):
    """C15 flavour judged by the monitor only: the transport ends without raising (the port object reports closed)"""
    spec = conn_lifecycle(rng)
    for th in spec["threads"]:
        for op in th:
            if op[0] in ("drop", "close"):
                op[0] = "sleep"
                op.append(0.0)
    spec.pop("disconnect_ops", None)
    spec["callbacks"] = {}
    spec["device"].pop("eof_after_bytes", None)
    spec.pop("write_fault_after", None)
    th = spec["threads"][1]
    th.insert(rng.randrange(len(th) + 1), ["port_dies"])
    return spec


# ---------------------------------------------------------------------------------------------- C10 (hostile device output)
MALFORMED = ["", "@", "@:", "@:=", "@a:=", "@:a=", "=", ":", "@MAIN", "@MAIN:VOL", "@MAIN:=5", "@=:", "\r", "\n", "garbage", "@@MAIN:VOL=1", " @MAIN:VOL=1",
             "@UNDEFINED ", "@RESTRICTED\n", "@UNDEFINED", "@RESTRICTED", "\x00", "@MAIN:VOL=\x00", "@ MAIN:PWR=On", "@MAIN :PWR=On"]
UNKNOWN_SU = ["HDRADIO", "XM", "ZONE5", "main", "Main", "ÄÖ", "SYS2", "MAIN ", "A", "ZONE", "SIRIUSXM", "0"]
UNDEC = ["Auto Down", "Auto Up", "", "abc", "--", "1.5.2", "12a", "0x1F", " ", "None", "1,5", "+-1", "@UNDEFINED", "=", "é", "On ", "on", "-", "9" * 400]


def hostile_line(rng, T, present):
    """one line a device could send that the library has no use for (never a SYS:VERSION / SYS:MODELNAME line: those have protocol roles)"""
    r = rng.random()
    if r < 0.22:
        su = rng.choice(UNKNOWN_SU)
        fn = rng.choice(["AVAIL", "AVAIL", "PWR", "VOL", "VERSION", "MODELNAME", "INP", "FOO"])
        return f"@{su}:{fn}={rng.choice(['Ready', 'Not Ready', 'On', '1', '', 'x=y', 'a:b'])}"
    if r < 0.34:
        su = rng.choice(present)
        return f"@{su}:{rng.choice(['FOOBAR', 'avail', 'Pwr', 'VOL2', 'X' * 300, 'ÄÖ', 'AVAILX', 'VERSIONX'])}={rng.choice(['1', 'On', '', 'Ready'])}"
    if r < 0.62:
        c = rng.choice([c for c in T["classes"] if c["id"] in present] or T["classes"][:1])
        f = rng.choice([f for f in c["fns"] if not (c["id"] == "SYS" and f["name"] in ("VERSION", "MODELNAME"))])
        return f"@{c['id']}:{f['name']}={rng.choice(UNDEC)}"
    if r < 0.8:
        return rng.choice(MALFORMED).replace("\r\n", "\r \n")
    if r < 0.93:
        b = rng.choice([b"\xff\xfe", b"\xc3", b"\xe2\x82", b"\xf0\x9f\x98", b"@MAIN:VOL=\xff", b"\x80@SYS:PWR=x", b"@\xc3\x28:A=B", b"@MAIN:ZONENAME=\xe9t\xe9"]) + \
            bytes(rng.randrange(256) for _ in range(rng.randint(0, 12)))
        return "hex:" + b.replace(b"\r\n", b"\r \n").hex()
    return f"@{rng.choice(present)}:{rng.choice(['ZONENAME', 'INPNAMEHDMI1', 'FOO'])}=" + "x" * rng.choice([1000, 20000, 100000])


def conn_hostile(rng, T):
    """a plain connection with one registered callback; the device volunteers hostile lines, each batch followed by a harmless sentinel line"""
    unsol = []
    t = 0.5
    k = 0
    for _ in range(rng.randint(1, 12)):
        t += rng.choice([0.0, 0.0, 0.001, 0.05, 0.3, 2.0, 29.9])
        unsol.append([round(t, 3), hostile_line(rng, T, ["MAIN", "SYS", "ZONE2", "TUN"])])
        if rng.random() < 0.5:
            k += 1
            unsol.append([round(t + 0.002, 3), f"@MAIN:ZONENAME=sentinel{k}"])
    k += 1
    unsol.append([round(t + 1.0, 3), f"@MAIN:ZONENAME=sentinel{k}"])
    dev = {"type": "scripted", "latency": rng.choice([0.02, 0.06]), "unsolicited": unsol}
    if rng.random() < 0.4:
        dev["chunk"] = rng.randrange(1, 10 ** 6)
    t0 = []
    odd = rng.random() < 0.5
    for i in range(rng.randint(0, 4) + (2 if odd else 0)):
        t0.append(["sleep", rng.choice([0.2, 1.0, 3.0])])
        if odd and rng.random() < 0.7:
            # what the device answers depends on what it was sent: commands of every shape ('=' / ':' inside the value, no '=' at all, empty,
            # unknown functions), many of them answered with an error line
            t0.append(rng.choice([["put", "MAIN", "ZONENAME", f"TV=HDMI{i}"], ["put", "MAIN", "ZONENAME", f"a:b=c{i}"], ["put", "MAIN", "ZONENAME", ""],
                                  ["raw", f"garbage{i}"], ["raw", f"@MAIN:VOL{i}"], ["raw", ""], ["raw", f"=={i}"], ["get", "MAIN", f"NOSUCH{i}"],
                                  ["get", "FOO", f"BAR{i}"], ["put", "MAIN", f"X{i}", "=?"], ["raw", f"@MAIN:ZONENAME=x=y=z{i}"]]))
        else:
            t0.append(["put", "MAIN", "VOL", f"-{20 + i}.0"])
    t0 += [["sleep", max(1.0, t + 3.0)], ["connected"]]
    if odd:
        dev["restrict_puts"] = {"p": 0.6, "seed": rng.randrange(10 ** 6)}
    if rng.random() < 0.25:
        # a receiver that never answers the library's probes (it sleeps through them, or has no MODELNAME at all) but is alive otherwise:
        # silence is something a device can "send" too — the connection stays up
        dev["model"] = None
        if rng.random() < 0.5:
            k += 1
            unsol.append([round(t + 130.0, 3), f"@MAIN:ZONENAME=sentinel{k}"])
            t0[-2] = ["sleep", max(1.0, t + 135.0)]
    return {"kind": "conn", "device": dev, "log_size": rng.choice([0, 0, 5]), "threads": [t0], "pre_register": [1], "sentinels": k, "final_wait": 0}


def api_init_hostile(rng, T):
    """YncaApi.initialize() against a healthy small receiver that volunteers hostile lines during and after the start-up dialogue"""
    optional = [s for s in T["consts"]["subunits"] if s != "SYS"]
    present = sorted(rng.sample(optional, rng.choice([0, 1, 2, 3])))
    avail = {s: rng.choice(["Ready", "Not Ready"]) for s in present}
    table = device_table(rng, T, ["SYS"] + present, p_answer=rng.choice([0.3, 0.8]))
    sys_c = next(c for c in T["classes"] if c["id"] == "SYS")
    sf = next(f for f in sys_c["fns"] if f["get"] and f["conv"]["k"] == "str" and f["name"] not in ("MODELNAME", "VERSION"))
    unsol = []
    for _ in range(rng.randint(1, 8)):
        # the detection stage lasts ~2.6 s (25 AVAIL queries at the command spacing), subunit initialisation up to ~10 s more
        unsol.append([round(rng.choice([rng.uniform(0.0, 2.6), rng.uniform(0.0, 14.0), rng.uniform(14.0, 50.0)]), 3), hostile_line(rng, T, ["SYS"] + present)])
    unsol.append([60.0, f"@SYS:{sf['name']}=sentinel"])
    dev = {"type": "scripted", "latency": rng.choice([0.0, 0.02, 0.06, 0.15]), "avail": avail, "table": table, "unsolicited": sorted(unsol, key=lambda x: x[0]), "echo_put": True}
    if rng.random() < 0.3:
        dev["chunk"] = rng.randrange(1, 10 ** 6)
    return {"kind": "api_init", "device": dev, "after": [["sleep", 70.0], ["dump"], ["close"]], "final_wait": 6, "present": present, "healthy": True,
            "sentinel": [sf["name"], "s:sentinel"], "known_ids": [c["id"] for c in T["classes"]],
            "readable": {c["id"]: [f["name"] for f in c["fns"] if f["get"]] for c in T["classes"]}}


def conn_reg_race(rng):
    """C09 flavour: several threads (un)register different message callbacks at the same instant, with opcode-level preemption inside the
    registration functions (a read-modify-write of the collection loses an update only then); afterwards the device volunteers lines that
    every callback registered throughout must receive"""
    pre = [1, 2, 3]
    n = rng.randint(2, 4)
    t_ops = rng.choice([0.3, 0.3, 1.1])
    threads = []
    for i in range(n):
        ops = [["sleep", t_ops]]
        for j in range(rng.randint(1, 2)):
            ops.append(rng.choice([["reg", 10 + 2 * i + j], ["reg", 10 + 2 * i + j], ["unreg", rng.choice(pre)]]))
        threads.append(ops)
    threads[0] += [["join"], ["sleep", 3.0]]
    unsol = [[t_ops + 1.0, "@MAIN:VOL=-1.0"], [t_ops + 1.5, "@MAIN:VOL=-2.0"]]
    r_ = rng.random()
    if r_ < 0.35:
        unsol.insert(0, [t_ops, "@MAIN:VOL=-0.5"])          # a delivery is in progress while the registrations race
    elif r_ < 0.7:
        # several deliveries fall into the instant of the registrations (each one looks at the collection while it is being changed), and the
        # registering threads start a hair apart
        for k_ in range(rng.randint(2, 5)):
            unsol.insert(0, [round(t_ops + k_ * 0.00002, 6), f"@MAIN:VOL=-0.{k_}"])
        for i_, ops_ in enumerate(threads):
            ops_[0] = ["sleep", round(t_ops + i_ * rng.choice([0.0, 0.00001, 0.00003]), 6)]
    budget = rng.choice([6, 12, 24])
    if 0.7 <= r_ < 0.93:
        # a burst of lines is being delivered while the registrations trickle in one by one: every delivery looks at the collection, every
        # registration changes it, in every order
        nl = rng.randint(8, 16)
        for k_ in range(nl):
            unsol.insert(0, [round(t_ops + k_ * 0.00002, 6), f"@MAIN:VOL=-0.{k_:02d}"])
        for i_, ops_ in enumerate(threads):
            ops_[0] = ["sleep", round(t_ops + rng.uniform(0, nl * 0.00002), 6)]
        budget = rng.choice([24, 48, 80])
    dev = {"type": "scripted", "latency": 0.02, "unsolicited": unsol}
    return {"kind": "conn", "device": dev, "log_size": 0, "threads": threads, "pre_register": pre, "callbacks": {},
            "hot": "register_message_callback|_call_registered_message_callbacks", "hot_budget": budget}


# ---------------------------------------------------------------------------------------------- end-to-end ("wire") sessions
def _wire_value(rng, T, f):
    from .props.c03 import value_for
    ks = [f["conv"]["k"]] if f["conv"]["k"] != "multi" else [k["k"] for k in f["conv"]["items"]]
    if ks == ["str"] and rng.random() < 0.5:
        return rng.choice(["trail ", " lead", "  ", "two\nlines", "tab\there", "", "cr\rin", "a:b=c", "=", ":", "x\n", "\nx", "é", "Rock & Roll ", "ends=",
                           "http://host/stream?id=42", "Ratio: 1=1", "a=b:c=d", "L" * 300, "long title " * 40])
    return value_for(rng, T, f, undecodable_ok=True)


def _tok(v):
    from .l3 import pyval_token
    from .wire import Obj
    if type(v).__name__ == "Obj":
        return "o"
    if isinstance(v, float) and v == float("inf"):
        return "finf"
    return pyval_token(v)


def subunit_updates(rng, T):
    """C09 flavour: a subunit object with an update callback on a live connection; the receiver reports values right behind the
    synchronisation reply (while the initialising thread is waking up) and shortly after initialize() has returned"""
    spec = subunit_init(rng, T)
    while len(spec["inits"]) != 1 or spec["device"].get("version", 1) is None or spec["device"].get("silent_after") is not None:
        spec = subunit_init(rng, T)
    c = next(x for x in T["classes"] if x["py"] == spec["inits"][0]["class"])
    fs = [f for f in c["fns"] if f["get"] and f["name"] not in ("VERSION", "MODELNAME")]
    dev = spec["device"]
    dev["latency"] = rng.choice([0.0, 0.02])
    dev["unsolicited"] = []
    def reports(n):
        f = rng.choice(fs)
        return [f"@{c['id']}:{f['name']}={_value_for(rng, T, f)}" for _ in range(n)] if rng.random() < 0.6 else \
               [f"@{c['id']}:{(g := rng.choice(fs))['name']}={_value_for(rng, T, g)}" for _ in range(n)]
    behind = reports(rng.randint(0, 3))
    dev["table"]["@SYS:VERSION=?"] = ["@SYS:VERSION=1.00/2.00"] + behind
    nq = len(spec["inits"][0]["expect_queries"]) + 1
    t_sync = 0.2 + 0.1 * nq + dev["latency"]
    t = t_sync - 0.1
    for l in reports(rng.randint(1, 5)):
        t += rng.choice([0.0, 0.0001, 0.01, 0.1, 0.1])
        dev["unsolicited"].append([round(t, 4), l])
    spec["settle"] = 2.0
    spec["pre_delay"] = 0
    dev.pop("chunk", None)
    if rng.random() < 0.6:
        dev["burst"] = True           # the synchronisation reply and the reports behind it arrive in one read
    if rng.random() < 0.4:
        # a preempted thread may also be held back for a while (virtual time passes): the initialising thread wakes up late
        spec["stall"] = {"prob": 0.6, "us": [500, 1500, 5000, 40000]}
    if rng.random() < 0.6:
        # thread switches between any two bytecodes of the notification path and of the end of initialize()
        spec["hot"] = "_call_registered_update_callbacks|_protocol_message_received|initialize"
        spec["hot_budget"] = rng.choice([6, 12, 30])
    return spec


def subunit_late(rng, T):
    """C03 flavour: one subunit object is initialised; then, while a burst of lines is being delivered, further objects are constructed on the
    same connection by the caller; afterwards the receiver reports values for them"""
    spec = subunit_init(rng, T)
    while len(spec["inits"]) != 1 or spec["device"].get("version", 1) is None or spec["device"].get("silent_after") is not None or "slow_cmd" in spec["device"] \
            or any(k.startswith("write_fault") for k in spec):
        spec = subunit_init(rng, T)
    c0 = spec["inits"][0]
    dev = spec["device"]
    dev["latency"] = 0.02
    dev.pop("chunk", None)
    nq = len(c0["expect_queries"]) + 1
    t_done = spec.get("pre_delay", 0) + 0.4 + 0.1 * nq
    at = round(t_done + 1.0, 3)
    others = rng.sample([x for x in T["classes"] if x["py"] != c0["class"]], rng.randint(1, 2))
    unsol = [u for u in dev.get("unsolicited", []) if u[0] < t_done]
    nl = rng.randint(6, 14)
    for k_ in range(nl):
        unsol.append([round(at - 0.00004 + k_ * 0.00002, 6), f"@MAIN:ZONENAME=burst{k_}"])     # one of them arrives at the very instant of the construction
    late = []
    t = at + 1.0
    for c2 in others:
        fs = [f for f in c2["fns"] if f["get"] and f["name"] not in ("VERSION", "MODELNAME")]
        late.append({"class": c2["py"], "expect_id": c2["id"], "readable": [f["name"] for f in c2["fns"] if f["get"]]})
        for _ in range(rng.randint(1, 3)):
            f = rng.choice(fs)
            unsol.append([round(t, 3), f"@{c2['id']}:{f['name']}={_value_for(rng, T, f)}"])
            t += 0.1
    dev["unsolicited"] = sorted(unsol, key=lambda x: x[0])
    spec["late"] = {"at": at, "inits": late, "settle": round(t - at + 1.0, 3)}
    spec["hot"] = "register_message_callback|_call_registered_message_callbacks"
    spec["hot_budget"] = rng.choice([12, 30, 60])
    # a preempted thread may be held back for some microseconds, so that further lines of the burst arrive meanwhile
    spec["stall"] = {"prob": 0.5, "us": [10, 20, 40, 80]}
    return spec


def subunit_wire(rng, T, writes=True):
    from .props import c05
    c = rng.choice(T["classes"])
    readable = [f for f in c["fns"] if f["get"] and not (c["id"] == "SYS" and f["name"] in ("MODELNAME", "VERSION"))]
    writable = [f for f in c["fns"] if f["put"]]
    t = 1.0
    unsol, ops = [], []
    for _ in range(rng.randint(3, 10)):
        k = rng.random()
        if readable and k < 0.72:
            f = rng.choice(readable)
            line = f"@{c['id']}:{f['name']}={_wire_value(rng, T, f)}"
        elif k < 0.82:
            o = rng.choice(T["classes"])
            f = rng.choice(o["fns"])
            line = f"@{rng.choice([o['id'], 'FOO', c['id'].lower(), c['id'] + '2'])}:{rng.choice([f['name'], 'NOSUCH', f['name'].lower()])}={_wire_value(rng, T, f)}"
            f = None
        elif k < 0.92:
            line, f = rng.choice(["@UNDEFINED", "@RESTRICTED"]), None
        else:
            line, f = rng.choice(MALFORMED).replace("\r\n", "\r \n"), None
        if "SYS:VERSION" in line or "SYS:MODELNAME" in line:
            continue
        unsol.append([round(t, 3), line])
        ops.append(["until", round(t + 0.3, 3)])
        for f2 in ([f] if f else []) + rng.sample(readable, min(len(readable), 2)):
            ops.append(["read", f2["attr"]])
        if writes and writable and rng.random() < 0.7:
            # (often the function the receiver has just reported: "leaves what the attribute reads unchanged" needs something to read)
            f3 = f if (f is not None and f["put"] and rng.random() < 0.5) else rng.choice(writable)
            v, _validity = rng.choice(c05.candidate_values(rng, T, f3, False))
            if f3["get"]:
                ops.append(["read", f3["attr"]])
            for _r in range(rng.choice([1, 1, 2, 3])):               # the same assignment several times in a row: each is its own PUT
                ops.append(["assign", f3["attr"], _tok(v)])
            if f3["get"]:
                ops.append(["read", f3["attr"]])
                if rng.random() < 0.5:
                    # ... and once more after the receiver's reply (an echo, an error line, or nothing) has had time to arrive
                    ops.append(["until", round(t + 0.3 + 0.45, 3)])
                    ops.append(["read", f3["attr"]])
        if writes and c["actions"] and rng.random() < 0.5:
            a = rng.choice(c["actions"])
            args = rng.choice(c05.action_argsets(rng, a["kind"]))
            for _r in range(rng.choice([1, 1, 2, 3])):
                ops.append(["act", a["meth"], [_tok(x) for x in args]])
        t += rng.choice([0.5, 1.0, 2.5])
    ops.append(["until", round(t + 0.5, 3)])
    for f2 in rng.sample(readable, min(len(readable), 6)):
        ops.append(["read", f2["attr"]])
    table = device_table(rng, T, [c["id"]], p_answer=0.5) if rng.random() < 0.5 else {}
    dev = {"type": "scripted", "latency": 0.02, "table": table, "unsolicited": unsol, "echo_put": False}
    if rng.random() < 0.3:
        dev["chunk"] = rng.randrange(1, 10 ** 6)
    if writes and rng.random() < 0.35:
        # a zone in standby: PUTs are refused with an error line (which changes nothing the attributes read)
        dev["echo_put"] = True
        dev["restrict_puts"] = {"p": 1.0, "seed": rng.randrange(10 ** 6)}
    init = rng.random() < 0.5
    if init:
        # initialisation occupies the first seconds: shift the script behind it
        shift = 0.12 * (len([f for f in c["fns"] if not f["no_init"]]) + 4) + 1.0
        for u in unsol:
            u[0] = round(u[0] + shift, 3)
        for o in ops:
            if o[0] == "until":
                o[1] = round(o[1] + shift, 3)
    spec = {"kind": "subunit_wire", "class": c["py"], "expect_id": c["id"], "device": dev, "ops": ops, "initialize": init, "settle": 4.0}
    if writes and not init and rng.random() < 0.12:
        spec["write_fault_late"] = {"n": rng.randint(3, 8), "exc": rng.choice(["SerialException", "SerialTimeoutException"])}
    return spec


def conn_chunked(rng, T):
    """C02 through the real reader thread: lines arrive in pieces, possibly seconds apart (so that sender-side activity such as the keep-alive
    timer falls between two pieces of one line); one registered callback records what is delivered"""
    from .props import c02
    lines = [l for l in c02.gen_lines(rng, T) if len(l) < 2000][:10]
    lines += [f"@MAIN:ZONENAME=end{rng.randint(0, 99)}"]
    unsol = []
    t = rng.choice([0.5, 28.0, 29.5])
    sleepy = rng.random() < 0.3       # a receiver that never answers the library's probes, but reports its model name on its own account
    if sleepy:
        for _ in range(rng.randint(1, 3)):
            lines.insert(rng.randrange(0, len(lines)), "@SYS:MODELNAME=RX-V" + str(rng.randint(100, 999)))
    for l in lines:
        if ("SYS:MODELNAME" in l and not sleepy) or "SYS:VERSION" in l:
            continue
        unsol.append([round(t, 3), l])
        t += rng.choice([0.0, 0.01, 0.3, 1.0, 5.0])
    dev = {"type": "scripted", "latency": 0.02, "unsolicited": unsol, "chunk": rng.randrange(1, 10 ** 6),
           "chunk_gaps": rng.choice([[0.0002], [0.0002, 0.05, 0.5], [0.0002, 0.5, 2.0, 31.0], [29.0, 31.0, 0.1]])}
    if sleepy:
        dev["model"] = None
    t0 = []
    for i in range(rng.randint(0, 3)):
        t0.append(["sleep", rng.choice([0.2, 1.0, 10.0])])
        t0.append(["put", "MAIN", "VOL", f"-{20 + i}.0"])
    t0 += [["sleep", t + 31.0 * 4 * (len(unsol) + 1) if max(dev["chunk_gaps"]) > 20 else t + 40.0], ["connected"]]
    if rng.random() < 0.25:
        # the link fails in the middle of a line: the incomplete tail is never a line
        dev["eof_after_bytes"] = 40 + rng.randint(0, 10 + sum(len(l.encode()) + 2 for _, l in unsol))      # 40 bytes = the two probe replies
        t0.pop()
    return {"kind": "conn", "device": dev, "log_size": 0, "threads": [t0], "pre_register": [1], "final_wait": 0}


def conn_second_session(rng, ending="drop"):
    """connect() again on the same YncaConnection object after a planned close() (or after a lost link): the second session is a session like
    any other — its link failure is reported exactly once, its close() is a close(); whatever the first session left behind must not matter"""
    dev1 = device(rng)
    first_end = rng.choice(["close", "close", "drop"])
    ops = burst_ops(rng, 0, rng.randint(0, 5), [0, 0.05, 0.3])
    ops += [["sleep", rng.choice([0.2, 1.0])]]
    ops += ([["close"]] if first_end == "close" else [["drop"]]) + ([["close"]] if rng.random() < 0.3 else [])
    ops += [["sleep", rng.choice([2.5, 5.0])], ["reconnect"]]
    ops += burst_ops(rng, 1, rng.randint(1, 8), [0, 0.05, 0.3, 1.0])
    dev2 = device(rng)
    if ending == "drop":
        dev2["drop_at"] = round(rng.uniform(0.05, 3.0), 3)
        ops += [["sleep", 6.0], ["connected"], ["put", "MAIN", "LATE", "1"]]
    elif ending == "idle":
        # the second session stays up and idle well beyond the keep-alive interval, with a little traffic in between
        ops += [["sleep", rng.choice([31.0, 45.0, 62.0])], ["put", "MAIN", "MID", "1"], ["sleep", rng.choice([29.0, 33.0, 64.0])]]
    else:
        ops += [["sleep", rng.choice([0.0, 0.2, 1.5])]]
    return {"kind": "conn", "device": dev1, "reconnect_device": dev2, "log_size": 0, "threads": [ops], "pre_register": [1], "final_wait": 0}


def conn_dead_flood(rng):
    """C15: hundreds of API calls on a connection whose link has failed — each a silent no-op that returns at once"""
    dev = device(rng, drop_at=round(rng.uniform(0.05, 2.0), 3))
    ops = burst_ops(rng, 0, rng.randint(0, 6), [0, 0.05, 0.3]) + [["sleep", 5.0], ["flood", rng.choice([120, 350, 700])], ["connected"], ["snap"], ["sleep", 1.0]]
    return {"kind": "conn", "device": dev, "log_size": 0, "threads": [ops], "pre_register": [1], "final_wait": 0}


def conn_relog(rng):
    """C20 over two sessions of one connection object with different log sizes: the log of the second session is a log of size N2 of the
    second session's wire (N2 = 0: empty)"""
    n1, n2 = rng.choice([(5, 0), (3, 0), (0, 4), (8, 2), (2, 8)])
    ops = burst_ops(rng, 0, rng.randint(1, 6), [0, 0.05, 0.3]) + [["sleep", 1.0], ["snap"], ["close"], ["sleep", 2.5], ["reconnect", n2]]
    ops += burst_ops(rng, 1, rng.randint(1, 6), [0, 0.05, 0.3]) + [["sleep", 1.2], ["snap"]]
    return {"kind": "conn", "device": device(rng), "reconnect_device": device(rng), "log_size": n1, "log_size2": n2, "threads": [ops], "pre_register": [1], "final_wait": 0}


def conn_reconnect(rng, T):
    """C02 over two connections of ONE YncaConnection object: the first link ends (planned close(), or it drops) while a line has arrived
    only in part; connect() is called again on the same object (as ynca/terminal.py does); what the registered callback is told about the
    second stream must be the independent reading of that stream alone"""
    from .props import c02
    def stream(t0):
        out, t = [], t0
        for l in [x for x in c02.gen_lines(rng, T) if len(x) < 200][:rng.randint(1, 5)] + [f"@MAIN:ZONENAME=end{rng.randint(0, 99)}"]:
            if "SYS:MODELNAME" in l or "SYS:VERSION" in l:
                continue
            out.append([round(t, 3), l])
            t += rng.choice([0.0, 0.01, 0.3])
        return out, t
    u1, t1 = stream(0.5)
    nbytes = 40 + sum(len(l.encode()) + 2 for _, l in u1)                 # 40 bytes = the two probe replies
    dev1 = {"type": "scripted", "latency": 0.02, "unsolicited": u1, "chunk": rng.randrange(1, 10 ** 6)}
    how = rng.choice(["eof", "close", "close"])
    if how == "eof":
        # the link ends inside a line (or between lines) — also inside one of the two probe replies
        dev1["eof_after_bytes"] = rng.randint(41, max(42, nbytes - 1)) if rng.random() < 0.6 else rng.randint(1, 39)
        ops = [["sleep", t1 + 6.0]]
    else:
        # a planned close() while the last line has arrived only in part: the receiver is cut off by the close
        u1.append([round(t1 + 0.2, 3), "partial:@MAIN:VOL=-3"])
        ops = [["sleep", t1 + 1.0], ["close"], ["sleep", 3.0]]
    u2, t2 = stream(rng.choice([0.4, 0.4, 0.03]))
    dev2 = {"type": "scripted", "latency": 0.02, "unsolicited": u2, "chunk": rng.randrange(1, 10 ** 6)}
    if rng.random() < 0.35:
        dev2["swallow_first"] = 1          # the wake-up probe is lost on a sleeping receiver
    ops += [["reconnect"], ["sleep", t2 + 3.0], ["connected"]]
    return {"kind": "conn", "device": dev1, "reconnect_device": dev2, "log_size": 0, "threads": [ops], "pre_register": [1], "final_wait": 0}


RAW_TEXTS = ["@MAIN:VOL=-30.0", "@MAIN:ZONENAME=a\nb", "@MAIN:ZONENAME=form\x0cfeed", "@MAIN:ZONENAME=ls\u2028x", "@MAIN:ZONENAME=fs\x1cx", "@MAIN:ZONENAME=nel\x85x",
             "@MAIN:ZONENAME=a\rb", "  @MAIN:PWR=On ", "", "   ", "@SYS:PWR=?", "@MAIN:ZONENAME=é𝄞", "@MAIN:VOL=Up", "@MAIN:VOL=Up", "x", "@MAIN:ZONENAME=tab\there", "@MAIN:ZONENAME=vt\x0bx"]


def api_raw(rng, T):
    """C01 through the typed API's raw entry point (YncaApi.send_raw) after a successful initialize() against a small healthy receiver"""
    spec = api_init(rng, T)
    present = spec["present"][:2]
    spec["present"] = present
    spec["device"]["avail"] = {s: "Ready" for s in present}
    spec["device"]["table"] = device_table(rng, T, ["SYS"] + present, p_answer=0.4)
    spec["device"]["latency"] = rng.choice([0.0, 0.02, 0.06])
    spec["device"].pop("unsolicited", None)
    spec["device"].pop("swallow_first", None)
    spec["healthy"] = True
    after = []
    for i in range(rng.randint(2, 8)):
        if rng.random() < 0.5:
            after.append(["sleep", rng.choice([0.05, 0.3, 29.0])])
        t = rng.choice(RAW_TEXTS)
        after.append(["send_raw", t if t in ("@MAIN:VOL=Up", "", "   ") else t + str(i)])
    after += [["sleep", 5.0], ["close", "final"]]
    spec["after"] = after
    return spec


def conv_race(rng, T):
    """C04 flavour: two threads decode through the same class-level converter, with thread switches between any two bytecodes of to_value"""
    c = rng.choice(T["classes"])
    f = rng.choice([f for f in c["fns"] if f["get"]])
    ks = [f["conv"]] if f["conv"]["k"] != "multi" else f["conv"]["items"]
    pool = []
    for k in ks:
        if k["k"] == "enum":
            mem = [m[1] for m in T["enums"][k["enum"]]["members"]]
            pool += rng.sample(mem, min(len(mem), 4)) + [mem[0] + " (Eco)", "Bogus", mem[-1].lower()]
        elif k["k"] == "str":
            pool += ["a", "b b", ""]
        else:
            pool += ["1", "-12", "5", "abc"] + (["-30.5", "87.50"] if k["k"] == "float" else [])
    texts = [[rng.choice(pool) for _ in range(rng.randint(2, 6))] for _ in range(2)]
    if rng.random() < 0.6:
        texts[1][0] = texts[0][0]              # both threads start on the same text
    return {"kind": "conv_race", "class": c["py"], "attr": f["attr"], "fn": f["name"], "texts": texts, "hot": "to_value|_missing_", "hot_budget": rng.choice([6, 20])}


def client_lock(rng, T):
    """C09: callbacks that take a client-side lock, and a second thread that (un)registers callbacks or closes the subunit while holding that
    lock, with the receiver reporting values all the time"""
    c = rng.choice([x for x in T["classes"] if x["id"] in ("MAIN", "ZONE2", "SYS", "TUN", "NETRADIO")])
    fns = [f for f in c["fns"] if f["get"] and f["name"] != "VERSION"]
    unsol = []
    t = 3.0
    for _ in range(rng.randint(20, 60)):
        f = rng.choice(fns)
        unsol.append([round(t, 4), f"@{c['id']}:{f['name']}={_value_for(rng, T, f)}"])
        t += rng.choice([0.001, 0.01, 0.02, 0.05])
    ops2 = [["sleep", 3.0 + rng.choice([0.0, 0.005, 0.05])]]
    for _ in range(rng.randint(2, 6)):
        ops2.append(rng.choice([["unreg_update", rng.randint(1, 3)], ["reg_update", rng.randint(2, 5)], ["unreg_msg", rng.randint(1, 3)], ["reg_msg", rng.randint(2, 5)], ["hold", 0.03]]))
        ops2.append(["sleep", rng.choice([0.0, 0.001, 0.01, 0.04])])
    if rng.random() < 0.3:
        ops2.append(["close_subunit"])
    table = device_table(rng, T, [c["id"]], p_answer=0.3)
    dev = {"type": "scripted", "latency": 0.0, "table": table, "unsolicited": unsol, "avail": {c["id"]: "Ready"}}
    return {"kind": "client_lock", "class": c["py"], "device": dev, "ops2": ops2, "settle": round(t - 3.0 + 1.0, 3)}


def set_race(rng, T):
    """C11 flavour: two threads assign stepped numbers through the same class-level descriptor / converter (two instances of one class, or two
    classes sharing the function through a base class or mix-in), with thread switches between any two bytecodes of the write path, repeats
    of the same value, and values the receiver reports in between"""
    from .props.c11 import SPEC
    cands = {}
    for c in T["classes"]:
        for f in c["fns"]:
            if f["put"] and f["name"] in SPEC:
                cands.setdefault(f["name"], []).append((c["py"], f["attr"]))
    fname = rng.choice(sorted(cands))
    a = rng.choice(cands[fname])
    b = rng.choice(cands[fname])
    step, d = SPEC[fname]

    def val():
        r = rng.random()
        k = rng.randint(-60, 60)
        base = float(k * step)
        if r < 0.4:
            return base
        if r < 0.6:
            return base + float(step) * rng.choice([0.25, 0.5, 0.75, 0.49, 0.51])
        if r < 0.75:
            return int(base)
        return round(rng.uniform(-80, 120), rng.choice([1, 2, 3]))
    pool = [val() for _ in range(4)]
    # values a receiver may report that are not on the grid the library writes on (real receivers do: FMFREQ=93.55 in logs/)
    offgrid = {"FMFREQ": ["93.55", "87.55", "100.05"], "AMFREQ": ["531", "999", "1035"], "MAXVOL": ["7.5", "12.0"]}.get(fname, ["-30.25", "1.2", "0.1"])
    ops = []
    for (cls, attr) in (a, b):
        o = []
        for _ in range(rng.randint(2, 7)):
            if rng.random() < 0.25:
                # the receiver reports a value (possibly off the library's grid, as real receivers do: 93.55 MHz) — for this function or for
                # another stepped function of the same subunit (a reported MAXVOL is no reason to write anything but the requested VOL)
                if rng.random() < 0.5:
                    o.append(["report", fname, rng.choice(offgrid + ["-30.5", "16.5", "Auto"])])
                else:
                    o.append(["report", rng.choice(sorted(SPEC)), rng.choice(["-20.0", "5.0", "-60.5", "0.0", "16.5", "87.50", "530"])])
            else:
                o.append(["set", attr, fname, rng.choice(pool) if rng.random() < 0.7 else val()])
        ops.append(o)
    if rng.random() < 0.4:
        ops[rng.randrange(2)].insert(0, ["report", fname, rng.choice(offgrid)])
    if rng.random() < 0.6 and ops[0] and ops[1]:
        first = next((x for x in ops[0] if x[0] == "set"), None)
        if first:
            ops[1].insert(0, ["set", b[1], fname, rng.choice(pool)])
    return {"kind": "set_race", "classes": [a[0], b[0]], "ops": ops, "hot": "__set__|to_str|number_to_string_with_stepsize", "hot_budget": rng.choice([6, 20, 40])}


def api_close_race(rng, T):
    """C16 flavour: YncaApi.close() from a second thread at a random moment of (or after) initialize() against a healthy small receiver"""
    spec = api_init(rng, T)
    present = spec["present"][:3]
    spec["present"] = present
    spec["device"]["avail"] = {s: "Ready" for s in present}
    spec["device"]["table"] = device_table(rng, T, ["SYS"] + present, p_answer=0.5)
    spec["device"]["latency"] = rng.choice([0.0, 0.02, 0.06, 0.15])
    spec["device"].pop("swallow_first", None)
    spec["closer"] = {"at": round(rng.choice([0.0, 0.05, rng.uniform(0.0, 3.0), rng.uniform(0.0, 12.0), rng.uniform(10.0, 40.0)]), 3), "times": rng.choice([1, 1, 2])}
    spec["after"] = [["sleep", 3.0], ["dump"], ["close"]]
    spec["final_wait"] = 8
    return spec


def api_reinit(rng, T):
    """C07 flavour: a first initialize() on the object fails after subunit detection (the receiver goes silent); the receiver then comes back with
    a different set of subunits and initialize() is called again on the same object"""
    spec = api_init(rng, T)
    dev = spec["device"]
    dev.pop("swallow_first", None)
    dev["latency"] = rng.choice([0.0, 0.02, 0.06])
    spec["healthy"] = True
    optional = [s for s in T["consts"]["subunits"] if s != "SYS"]
    extra = rng.sample(optional, rng.randint(1, 3))
    first = {"type": "scripted", "latency": 0.02, "avail": {**dev["avail"], **{s: "Ready" for s in extra}}, "table": {}, "echo_put": True,
             "silent_after": len(optional) + 3 + rng.randint(0, 6)}
    spec["first_device"] = first
    return spec


def conn_flood(rng):
    """C01 flavour: one or two callers submit far more commands than fit into a few seconds of wire time, without pausing; all of them reach
    the wire, once, in order"""
    n = rng.choice([105, 130, 180])
    t0 = [[rng.choice(["put", "get"]), "C0", f"F{k}"] + ([str(k)] if False else []) for k in range(n)]
    t0 = [(["put", "C0", f"F{k}", str(k)] if rng.random() < 0.5 else ["get", "C0", f"F{k}"]) for k in range(n)]
    threads = [t0]
    if rng.random() < 0.4:
        threads.append([["put", "C1", f"G{k}", str(k)] for k in range(rng.randint(5, 40))])
    total = sum(len(t) for t in threads)
    threads[0] += [["join"], ["sleep", round(total * 0.1 + 3.0, 1)], ["snap"]]
    return {"kind": "conn", "device": {"type": "scripted", "latency": rng.choice([0.0, 0.02, 0.15])}, "log_size": 0, "threads": threads, "pre_register": [1], "final_wait": 0}


def conn_two(rng):
    """C16 flavour: two independent connections in one process; close() of connection B is called from inside a message callback of
    connection A (i.e. on A's reader thread) while B has commands pending"""
    k = rng.randint(0, 3)
    scripts = {"1": [[] for _ in range(k)] + [[["close2"]] + ([["close2"]] if rng.random() < 0.3 else [])]}
    t0 = [["sleep", rng.choice([0.3, 0.5])]]
    for i in range(rng.randint(2, 12)):
        t0.append(["put2", "B", f"F{i}", str(i)])            # a burst on B, still being sent when it is closed
    for i in range(k + 2):
        t0.append(["put", "A", f"G{i}", str(i)])             # echoes on A invoke A's callback
        t0.append(["sleep", rng.choice([0.0, 0.05, 0.15])])
    t0.append(["sleep", 8.0])
    return {"kind": "conn", "device": {"type": "scripted", "latency": rng.choice([0.0, 0.02, 0.06])}, "second": {"device": {"type": "scripted", "latency": rng.choice([0.02, 0.3])}},
            "log_size": 0, "threads": [t0], "pre_register": [1], "callbacks": scripts, "final_wait": 0}
