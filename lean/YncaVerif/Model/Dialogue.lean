import YncaVerif.Model.Framing
/-! L5 — the initialisation dialogue at message level (`SubunitBase.initialize`, the stages of
`YncaApi.initialize`): a caller that enqueues the queries of a stage followed by the `SYS:VERSION`
synchronisation query and waits (bounded) for the event; the sender that writes queued commands in order
(C01); a device that is a *sequential responder* — it consumes written commands in order and answers each
with a finite list of lines, unsolicited lines may be interleaved; the reader that processes received lines
in order (C02) and sets the event when it processes a `SYS:VERSION` line while a stage is waiting.

All nondeterminism (timing, interleaving, what the device answers) is in the labels and in the parameter
`answer`.  Time in microseconds with urgency for the waiting caller's deadline. -/
namespace Ynca.L5

def versionQuery : String := "@SYS:VERSION=?"

def isVersionLine (l : String) : Bool :=
  let m := parseLine l
  m.status == .ok && m.subunit == some "SYS" && m.fn == some "VERSION"

/-- how the device answers one command -/
abbrev Answer := String → List String

/-- the device answers the synchronisation query with exactly one line, a `SYS:VERSION` line, and never sends
    such a line otherwise (a receiver does not announce its firmware version spontaneously).  "Exactly one
    line" matters: were the `SYS:VERSION` line followed by further lines of the same answer, the event could be
    set before those lines are processed. -/
def AnswerOk (answer : Answer) : Prop :=
  (∀ q, q ≠ versionQuery → ∀ l ∈ answer q, isVersionLine l = false) ∧
  (∃ l, answer versionQuery = [l] ∧ isVersionLine l = true)

inductive Stage where
  | idle
  | waiting (first : Nat) (count : Nat) (deadline : Nat)   -- this stage's commands are written[first ..< first+count]
  | ok
  | failed
deriving Repr, DecidableEq

structure D where
  now : Nat := 0
  pending : List String := []      -- commands queued, not yet written
  written : List String := []      -- commands on the wire, in order
  consumed : Nat := 0              -- how many written commands the device has consumed
  emitted : List String := []      -- lines the device has put on the link, in order
  ansEnd : List Nat := []          -- for the i-th consumed command: length of `emitted` right after its answer
  processed : Nat := 0             -- how many emitted lines the reader has processed
  event : Bool := false
  stage : Stage := .idle
  enqueued : Nat := 0              -- total number of commands ever enqueued (= written.length + pending.length)
  vq : Nat := 0                    -- VERSION queries enqueued so far
  vl : Nat := 0                    -- VERSION lines processed so far
deriving Repr

inductive Label where
  | begin (queries : List String) (timeout : Nat)   -- initialize(): clear the event, enqueue the queries and the sync query, start waiting
  | write                                            -- the sender writes the next queued command
  | consume                                          -- the device consumes the next written command and emits its answer
  | unsolicited (l : String)                         -- the device emits a line on its own
  | process                                          -- the reader processes the next received line
  | wake                                             -- the waiting caller sees the event: the stage is complete
  | timeout                                          -- the wait timed out: initialisation failed
  | tick (d : Nat)
deriving Repr

def step (answer : Answer) (s : D) : Label → Option D
  | .begin queries timeout =>
    if (s.stage = .idle ∨ s.stage = .ok) ∧ (∀ q ∈ queries, q ≠ versionQuery) then
      some { s with event := false, pending := s.pending ++ queries ++ [versionQuery],
                    stage := .waiting s.enqueued (queries.length + 1) (s.now + timeout),
                    enqueued := s.enqueued + queries.length + 1, vq := s.vq + 1 }
    else none
  | .write =>
    match s.pending with
    | q :: rest => some { s with pending := rest, written := s.written ++ [q] }
    | [] => none
  | .consume =>
    if h : s.consumed < s.written.length then
      let q := s.written[s.consumed]
      some { s with consumed := s.consumed + 1, emitted := s.emitted ++ answer q,
                    ansEnd := s.ansEnd ++ [(s.emitted ++ answer q).length] }
    else none
  | .unsolicited l => if isVersionLine l then none else some { s with emitted := s.emitted ++ [l] }
  | .process =>
    if h : s.processed < s.emitted.length then
      let l := s.emitted[s.processed]
      let isV := isVersionLine l
      some { s with processed := s.processed + 1,
                    vl := if isV then s.vl + 1 else s.vl,
                    event := s.event || (isV && (match s.stage with | .waiting _ _ _ => true | _ => false)) }
    else none
  | .wake =>
    match s.stage with
    | .waiting _ _ _ => if s.event then some { s with stage := .ok } else none
    | _ => none
  | .timeout =>
    match s.stage with
    | .waiting _ _ dl => if !s.event && dl ≤ s.now then some { s with stage := .failed } else none
    | _ => none
  | .tick d =>
    match s.stage with
    | .waiting _ _ dl =>
      -- urgency: the caller reacts at once to the event and to its deadline
      if s.event then none
      else if s.now + d ≤ dl ∧ 0 < d then some { s with now := s.now + d } else none
    | _ => if 0 < d then some { s with now := s.now + d } else none

def run (answer : Answer) : D → List Label → Option D
  | s, [] => some s
  | s, l :: ls => match step answer s l with
    | some s' => run answer s' ls
    | none => none

def Reachable (answer : Answer) (s : D) : Prop := ∃ ls, run answer {} ls = some s

end Ynca.L5
