import YncaVerif.Model.Subunit
/-! L1 — wire framing (`serial.threaded.Packetizer.data_received` with the CR LF terminator) and the
    line parser of `YncaProtocol.handle_line` (the status literals and the anchored lazy regex
    `@(.+?):(.+?)=(.*)` with DOTALL).  Import-free. -/
namespace Ynca

/-! ### framing over an arbitrary alphabet with a two-element terminator `[a, b]` -/
section
variable {α : Type} [DecidableEq α]

/-- first occurrence of the terminator: `(before, after)` -/
def splitFirst (a b : α) : List α → Option (List α × List α)
  | [] => none
  | [_] => none
  | x :: y :: rest =>
    if x = a ∧ y = b then some ([], rest)
    else match splitFirst a b (y :: rest) with
      | some (p, r) => some (x :: p, r)
      | none => none

theorem splitFirst_length (a b : α) (l p r : List α)
    (h : splitFirst a b l = some (p, r)) : r.length + 2 + p.length = l.length := by
  fun_induction splitFirst a b l generalizing p r with
  | case1 => simp at h
  | case2 => simp at h
  | case3 x y rest hxy => simp at h; obtain ⟨rfl, rfl⟩ := h; simp
  | case4 x y rest hxy p' r' heq ih =>
    simp at h; obtain ⟨rfl, rfl⟩ := h
    have := ih p' r' heq; simp at this ⊢; omega
  | case5 x y rest hxy heq => simp at h

/-- all complete packets of a stream (in order) and the unterminated remainder -/
def splitAll (a b : α) (l : List α) : List (List α) × List α :=
  match h : splitFirst a b l with
  | none => ([], l)
  | some (p, r) =>
    let (ps, rem) := splitAll a b r
    (p :: ps, rem)
termination_by l.length
decreasing_by have := splitFirst_length a b l p r h; omega

/-- `Packetizer.data_received`: extend the buffer, emit every complete packet, keep the rest -/
def feed (a b : α) (buf chunk : List α) : List (List α) × List α :=
  splitAll a b (buf ++ chunk)

/-- a sequence of reads -/
def feedAll (a b : α) : List α → List (List α) → List (List α) × List α
  | buf, [] => ([], buf)
  | buf, c :: cs =>
    let (ps, buf') := feed a b buf c
    let (qs, buf'') := feedAll a b buf' cs
    (ps ++ qs, buf'')
end

abbrev CR : UInt8 := 13
abbrev LF : UInt8 := 10

/-! ### line parser -/

/-- split at the first occurrence of `c` at index ≥ 1: `(before, after)`, `before` non-empty -/
def splitAt1 (c : Char) : List Char → Option (List Char × List Char)
  | [] => none
  | x :: xs =>
    let before := xs.takeWhile (· ≠ c)
    match xs.dropWhile (· ≠ c) with
    | [] => none
    | _ :: after => some (x :: before, after)

/-- the anchored lazy regex `@(.+?):(.+?)=(.*)` (DOTALL): subunit, function, value -/
def matchLine : List Char → Option (List Char × List Char × List Char)
  | '@' :: t =>
    match splitAt1 ':' t with
    | some (s, r) =>
      match splitAt1 '=' r with
      | some (f, v) => some (s, f, v)
      | none => none
    | none => none
  | _ => none

/-- status and fields `handle_line` reports for a line -/
def parseLine (line : String) : Msg :=
  let status := if line == "@UNDEFINED" then Status.undefined
                else if line == "@RESTRICTED" then Status.restricted else Status.ok
  match matchLine line.toList with
  | some (s, f, v) => ⟨status, some (String.ofList s), some (String.ofList f), some (String.ofList v)⟩
  | none => ⟨status, none, none, none⟩

/-- keep-alive suppression of `handle_line`: with the pending flag set, a `SYS:MODELNAME` line is withheld.
    Returns the message and whether it is withheld; the flag is cleared by every line. -/
def handleLine (kaPending : Bool) (line : String) : Msg × Bool :=
  let m := parseLine line
  (m, kaPending && m.subunit == some "SYS" && m.fn == some "MODELNAME")

end Ynca
