import YncaVerif.Model.Conn
/-! Trace acceptor for the L4 model (tie B2): decides whether an observable trace of the REAL library is a
trace of the model, by subset simulation — the set of model states reachable via internal steps is
maintained and advanced on every observed event; an empty set means the implementation did something the
model cannot do.  Outputs listed as hidden are treated as internal.  Not a proof and not used by any
theorem: it validates the model the theorems are about against the code. -/
namespace Ynca.L4

deriving instance BEq for St

/-- observed events, in trace order, each with its virtual time stamp -/
inductive Ev where
  | input (l : Label)
  | output (o : Obs)
  | snapshot (entries : List LogEntry)
  | stop
deriving Repr

def obsKind : Obs → String
  | .write _ => "write" | .writeRejected _ => "write"
  | .readChunk _ => "read" | .readFault => "read"
  | .msgCb _ _ => "msgcb" | .cbRet _ => "msgcb"
  | .discCb => "disc" | .discCbRet => "disc"
  | .portClose => "portclose"
  | .exitS => "exit" | .exitR => "exit"
  | .callRet _ => "ret" | .closeRaised _ => "ret"
  | .logged _ => "clock"
  | .enqueued _ => "enq"

/-- the last `N` entries -/
def ring {α : Type} (N : Nat) (l : List α) : List α := l.drop (l.length - N)

/-- command ids are ghost (no step looks at them) -/
def Item.erase : Item → Item
  | .cmd _ t => .cmd 0 t
  | i => i

def SPc.erase : SPc → SPc
  | .got m => .got m.erase
  | .logging t i => .logging t (i.map (fun _ => 0))
  | .lockWait t i => .lockWait t (i.map (fun _ => 0))
  | .writing t i => .writing t (i.map (fun _ => 0))
  | p => p

/-- forget ghost history the acceptor does not need (keeps the state set small); the log keeps the ring's window -/
def strip (P : Params) (s : St) : St :=
  { s with queue := s.queue.map Item.erase, spc := s.spc.erase,
           submitted := [], wire := [], log := ring P.logSize s.log, nextId := 0, discCalls := 0,
           madeAt := 0, probesStarted := 0, probesAtClear := 0, decisions := [], rxLines := [],
           closeUnpub := false, unpubCloseAt := 0, unpubClosers := [], unpubCloseReturned := false }

/-- labels by which the library's threads (and the clock) move on their own; everything else is an input of the environment -/
def isThreadLabel : Label → Bool
  | .s | .r | .rGet _ | .cbRet | .u _ | .connectFailed | .rCb _ | .tick _ => true
  | _ => false

def dedup (l : List St) : List St := l.foldl (fun acc x => if acc.contains x then acc else acc ++ [x]) []

/-- labels by which a thread moves on its own -/
def threadLabels (s : St) : List Label :=
  [.s, .r, .rGet false, .rGet true, .cbRet, .u tidR, .connectFailed] ++ s.callers.map (fun c => Label.u c.1) ++
  (match s.rpc with
   | .deliver _ todo =>
     -- partial-order reduction: skipping entries of the snapshot that were unregistered meanwhile is invisible and the skips
     -- commute, so only the first such entry is tried; registered entries may be invoked in any order
     (todo.filter (fun cb => s.msgCbs.contains cb)).map Label.rCb ++
     ((todo.find? (fun cb => !s.msgCbs.contains cb)).map Label.rCb).toList
   | _ => [])

/-- successors by internal steps (no observable, or a hidden one) -/
def tauSucc (P : Params) (hidden : List String) (s : St) : List St :=
  (threadLabels s).filterMap (fun l => match step P s l with
    | some (s', none) => some (strip P s')
    | some (s', some o) => if hidden.contains (obsKind o) then some (strip P s') else none
    | none => none)

def closure (P : Params) (hidden : List String) : Nat → List St → List St
  | 0, S => S
  | fuel + 1, S =>
    let S' := dedup (S ++ S.flatMap (tauSucc P hidden))
    if S'.length = S.length then S else closure P hidden fuel S'

def minDeadlineAfter (s : St) : Option Nat :=
  (deadlines s).foldl (fun acc d => if s.now < d then (match acc with | some a => some (min a d) | none => some d) else acc) none

/-- let time pass up to `t` in every state (internal steps in between; a state that can still move cannot wait) -/
def advanceTo (P : Params) (hidden : List String) : Nat → Nat → List St → List St
  | 0, _, S => S
  | fuel + 1, t, S =>
    let S := closure P hidden 200 S
    let (there, todo) := S.partition (fun s => s.now == t)
    if todo.isEmpty then there else
    let moved := todo.filterMap (fun s =>
      if s.now > t then none
      else if canMove P s then none      -- urgency: something (visible) is enabled now, so time cannot pass here
      else
        let target := match minDeadlineAfter s with
          | some d => min d t
          | none => t
        some { s with now := target })
    dedup (there ++ advanceTo P hidden fuel t moved)

def logRing (P : Params) (s : St) : List LogEntry := ring P.logSize s.log

def onEvent (P : Params) (hidden : List String) (S : List St) (t : Nat) (e : Ev) : List St :=
  -- (the filter only matters when `advanceTo` runs out of fuel: every state used below is at the event's time)
  let S := (advanceTo P hidden 400 t S).filter (fun s => s.now == t)
  match e with
  | .input l =>
    if isThreadLabel l then [] else      -- the environment cannot take the library's own steps
    dedup (S.filterMap (fun s => (step P s l).map (fun r => strip P r.1)))
  | .output o =>
    if hidden.contains (obsKind o) then S else
    dedup (S.flatMap (fun s => (threadLabels s).filterMap (fun l => match step P s l with
      | some (s', some o') => if o' == o then some (strip P s') else none
      | _ => none)))
  | .snapshot es => S.filter (fun s => logRing P s == es)
  | .stop => S

structure Verdict where
  accepted : Bool
  index : Nat            -- index of the rejecting event (or number of events)
  states : Nat           -- size of the state set before the rejecting event / at the end
  maxStates : Nat
deriving Repr

def accept (P : Params) (hidden : List String) (evs : List (Nat × Ev)) : Verdict :=
  let rec go (S : List St) (i : Nat) (mx : Nat) : List (Nat × Ev) → Verdict
    | [] => ⟨true, i, S.length, mx⟩
    | (t, e) :: rest =>
      let S' := onEvent P hidden S t e
      if S'.isEmpty then ⟨false, i, S.length, mx⟩ else go S' (i + 1) (max mx S'.length) rest
  go [{}] 0 1 evs

end Ynca.L4
