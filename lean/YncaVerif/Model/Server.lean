import YncaVerif.Model.Framing
/-! L6 — the bundled test server (`ynca/server.py`): log ingestion, the insertion-ordered data store,
    GET / PUT handlers with every special case of the source.  Import-free.

    Python's float arithmetic for relative volume steps (`float(stored) + amount`, `str(...)`) is a
    parameter `VolArith`: `none` = the conversion raised `ValueError` (caught by the handler). -/
namespace Ynca.Srv

def UNDEFINED : String := "@UNDEFINED"
def RESTRICTED : String := "@RESTRICTED"

/-- insertion-ordered `Dict[str, Dict[str, str]]` -/
abbrev Sub := List (String × String)
abbrev Store := List (String × Sub)

def subOf (st : Store) (s : String) : Option Sub := (st.find? (·.1 == s)).map (·.2)

/-- `get_data`: the stored value, or the UNDEFINED marker -/
def getData (st : Store) (s f : String) : String :=
  match subOf st s with
  | some sub => match sub.find? (·.1 == f) with
      | some e => e.2
      | none => UNDEFINED
  | none => UNDEFINED

def hasKey (st : Store) (s f : String) : Bool :=
  match subOf st s with
  | some sub => sub.any (·.1 == f)
  | none => false

/-- dict assignment: an existing key keeps its position, a new key goes to the end -/
def setKey (sub : Sub) (f v : String) : Sub :=
  if sub.any (·.1 == f) then sub.map (fun e => if e.1 == f then (f, v) else e) else sub ++ [(f, v)]

def addData (st : Store) (s f v : String) : Store :=
  if st.any (·.1 == s) then st.map (fun e => if e.1 == s then (s, setKey e.2 f v) else e)
  else st ++ [(s, [(f, v)])]

/-- `put_data`: (new store, result marker or "OK", changed?) -/
def putData (st : Store) (s f v : String) : Store × String × Bool :=
  match subOf st s with
  | none => (st, RESTRICTED, false)
  | some sub =>
    match sub.find? (·.1 == f) with
    | none => (st, UNDEFINED, false)
    | some e =>
      let st' := if v != UNDEFINED && v != RESTRICTED then addData st s f v else st
      (st', "OK", e.2 != v)

/-! ### the regex `re.search(r"@(.+?):(.+?)=(.*)", line)` -/

/-- leftmost match: try every `@` from the left -/
def searchLine : List Char → Option (List Char × List Char × List Char)
  | [] => none
  | c :: cs =>
    if c = '@' then
      match matchLine (c :: cs) with
      | some r => some r
      | none => searchLine cs
    else searchLine cs

structure Cmd where
  subunit : String
  function : String
  value : String
deriving Repr, DecidableEq

def lineToCommand (line : String) : Option Cmd :=
  (searchLine line.toList).map (fun r => ⟨String.ofList r.1, String.ofList r.2.1, String.ofList r.2.2⟩)

/-! ### ingestion -/

def isWs (c : Char) : Bool := c == ' ' || c == '\t' || c == '\n' || c == '\r' || c == '\x0b' || c == '\x0c'

/-- `line.strip().rstrip('",')` on ASCII white space -/
def cleanLine (l : String) : String :=
  let cs := (l.toList.dropWhile isWs).reverse.dropWhile isWs
  String.ofList ((cs.dropWhile (fun c => c == '"' || c == ',')).reverse)

def containsSub (hay needle : List Char) : Bool :=
  match hay with
  | [] => needle.isEmpty
  | _ :: t => needle.isPrefixOf hay || containsSub t needle

def hasMarker (l : String) (m : String) : Bool := containsSub l.toList m.toList

/-- one line of `fill_from_file`: state = (store, command of the previous non-error line) -/
def ingestLine (acc : Store × Option Cmd) (raw : String) : Store × Option Cmd :=
  let l := cleanLine raw
  let (st, cmd) := acc
  match cmd with
  | some c =>
    if hasMarker l RESTRICTED || hasMarker l UNDEFINED then
      if getData st c.subunit c.function == UNDEFINED then
        (addData st c.subunit c.function (if hasMarker l RESTRICTED then RESTRICTED else UNDEFINED), cmd)
      else (st, cmd)
    else
      match lineToCommand l with
      | some c' => (if c'.value != "?" then addData st c'.subunit c'.function c'.value else st, some c')
      | none => (st, none)
  | none =>
    match lineToCommand l with
    | some c' => (if c'.value != "?" then addData st c'.subunit c'.function c'.value else st, some c')
    | none => (st, none)

def fillFromLines (lines : List String) : Store := (lines.foldl ingestLine ([], none)).1

/-! ### handlers -/

/-- `float(stored) + amount` rendered by `str()`; `halves` is the amount in units of 0.5 (±1 for a bare Up/Down,
    ±2n for `N dB`).  `none` = ValueError. -/
abbrev VolArith := String → Int → Option String

def valueLine (s f v : String) : String := "@" ++ s ++ ":" ++ f ++ "=" ++ v

/-- pseudo output line standing for an exception that escapes the request handler (the server drops the session) -/
def crashMarker : String := "!IndexError"

def isError (v : String) : Bool := v == UNDEFINED || v == RESTRICTED

/-- `_send_stored_value_or_error`: output lines and the value (none if it was an error marker) -/
def sendStored (st : Store) (s f : String) (skipError : Bool) : List String × Option String :=
  let v := getData st s f
  if isError v then (if skipError then [] else [v], none) else ([valueLine s f v], some v)

def multiTable (tables : List (String × List String)) (f : String) : Option (List String) :=
  (tables.find? (·.1 == f)).map (·.2)

/-- `_handle_get` (one function); `fuel` bounds the DIRMODE → STRAIGHT recursion (depth 1 in the source) -/
def handleGet1 (st : Store) (s f : String) (suppress : Bool) : Nat → List String
  | 0 => []
  | fuel + 1 =>
    if s == "SYS" && f == "INPNAME" then
      let keys := ((subOf st "SYS").getD []).filter (fun e => e.1.startsWith "INPNAME" && e.1 != "INPNAME")
      let out := keys.flatMap (fun e => (sendStored st s e.1 true).1)
      if out.isEmpty then [UNDEFINED] else out            -- nothing was sent (no members, or only error markers): one error line
    else if f == "SCENENAME" then
      let keys := ((subOf st s).getD []).filter (fun e => e.1.startsWith "SCENE" && e.1.endsWith "NAME" && e.1 != "SCENENAME")
      let out := keys.flatMap (fun e => (sendStored st s e.1 true).1)
      if out.isEmpty then [UNDEFINED] else out
    else if f == "DIRMODE" then
      let (out, v) := sendStored st s f suppress
      if v == some "On" then out ++ handleGet1 st s "STRAIGHT" suppress fuel else out
    else if f == "STRAIGHT" && (getData st s "DIRMODE" == "On" || getData st s "PUREDIRMODE" == "On") then
      [valueLine s f "On"]
    else (sendStored st s f suppress).1

/-- `handle_get` -/
def handleGet (tables : List (String × List String)) (st : Store) (s f : String) : List String :=
  match multiTable tables f with
  | none => handleGet1 st s f false 3
  | some fs =>
    let out := fs.flatMap (fun g => handleGet1 st s g true 3)
    if out.isEmpty then [UNDEFINED] else out

structure Tables where
  multi : List (String × List String)
  related : List (String × List String)
  inputMap : List (String × List String)
  zones : List String

/-- relative volume step: `(up, halves)` for `Up`, `Down`, `Up N dB`-like values (second word parsed by `int()`) -/
def relStep (v : String) : Option (Bool × Option Int) :=
  if v.startsWith "Up" || v.startsWith "Down" then
    let up := v.startsWith "Up"
    let parts := v.splitOn " "
    match parts with
    | [_] => some (up, some 1)
    | _ :: p :: _ => some (up, (parseInt p.toList).map (· * 2))
    | [] => none
  else none

/-- the PWR coupling after a reported change -/
def pwrCoupling (T : Tables) (st : Store) (s f v : String) : Store × List String :=
  if s == "SYS" then
    let r := T.zones.foldl (fun (acc : Store × List String) z =>
      let (st', _, ch) := putData acc.1 z f v
      (st', if ch then acc.2 ++ [valueLine z f v] else acc.2)) (st, [])
    match T.zones.getLast? with
    | some z =>
      let (st', _, ch) := putData r.1 z "PWRB" v
      (st', if ch then r.2 ++ [valueLine z "PWRB" v] else r.2)
    | none => r
  else if T.zones.contains s then
    let on := T.zones.any (fun z => getData st z f == "On") ||
      (match T.zones.getLast? with | some z => getData st z f == "On" | none => false)
    let sv := if on then "On" else "Standby"
    let (st', _, ch) := putData st "SYS" f sv
    (st', if ch then [valueLine "SYS" f sv] else [])
  else (st, [])

/-- `handle_put` -/
def handlePut (T : Tables) (va : VolArith) (st : Store) (s f v0 : String) : Store × List String :=
  if s == "SYS" && f == "REMOTECODE" then (st, if v0.length != 8 then [UNDEFINED] else [])
  else if f == "MEM" then (st, [])
  else
    let v := if f == "VOL" || f == "ZONEBVOL" then
        (match relStep v0 with
         | some (up, some halves) => (match va (getData st s f) (if up then halves else -halves) with
            | some nv => nv
            | none => v0)
         | _ => v0)
      else v0
    let (st1, res, changed) := putData st s f v
    if isError res then (st1, [res])
    else if !changed then (st1, [])
    else
      -- PLAYBACK reports PLAYBACKINFO, possibly on the input's subunit
      let pb := f == "PLAYBACK"
      if pb && !(v == "Play" || v == "Pause" || v == "Stop") then (st1, []) else
      let f' := if pb then "PLAYBACKINFO" else f
      let target : Option String :=
        if pb && T.zones.contains s then
          ((T.inputMap.find? (fun m => m.1 == getData st1 s "INP")).bind (fun m => m.2.head?))
        else some s
      match target with
      | none => (st1, [crashMarker])     -- `[...][0]` on an empty list: IndexError escapes the handler, the session is dropped
      | some s' =>
        let reports := match (T.related.find? (·.1 == f')).map (·.2) with
          | some fs => (fs.filter (fun g => getData st1 s' g != UNDEFINED)).map (fun g => valueLine s' g (getData st1 s' g))
          | none => [valueLine s' f' v]
        if f' == "PWR" then
          let (st2, more) := pwrCoupling T st1 s' f' v
          (st2, reports ++ more)
        else (st1, reports)

/-- one received line of `handle()` -/
def handleCommand (T : Tables) (va : VolArith) (st : Store) (line : String) : Store × List String :=
  match lineToCommand (cleanWs line) with
  | some c => if c.value == "?" then (st, handleGet T.multi st c.subunit c.function)
              else handlePut T va st c.subunit c.function c.value
  | none => (st, [])
where cleanWs (l : String) : String :=
  String.ofList (((l.toList.dropWhile isWs).reverse.dropWhile isWs).reverse)

end Ynca.Srv
