import YncaVerif.Model.Api
/-! L7t — the `YncaApi` program with the clock of the per-object initialisations.

L7 (Model/Api.lean) leaves the initialisation of one subunit object to the labels `subunitOk` / `subunitFails`.  Each of them is a
bounded wait of its own (`SubunitBase.initialize`: `2 s + 5·spacing` per submitted command — L5, `C06_bounded`).  Here that clock is put
on top of L7: `construct n` is the moment the next planned object has been constructed and has submitted its `n` commands (its wait
begins), the outcome labels are possible only while such a wait is running, and time passes neither while the caller submits commands
nor between two objects (computation is instantaneous in virtual time) nor beyond a running wait's deadline.  `t0`, `built` and `doneAt`
are ghosts: when this `initialize()` began, how many objects it has constructed, when it returned or raised. -/
namespace Ynca.L7

structure T where
  a : A := {}
  objDl : Option Nat := none
  t0 : Nat := 0
  built : Nat := 0
  doneAt : Option Nat := none
deriving Repr, DecidableEq

inductive TLabel where
  | base (l : Label)
  | construct (n : Nat)
deriving Repr, DecidableEq

def isBuilding : Phase → Bool
  | .building _ => true
  | _ => false

def isDone : Phase → Bool
  | .ready => true
  | .failed => true
  | _ => false

/-- `N`: no stage submits more than `N` commands (the largest initial query list of the regenerated tables, the detection stage) -/
def stepT (P : Params) (N : Nat) (s : T) : TLabel → Option T
  | .construct n =>
    match s.a.phase with
    | .building (_ :: _) =>
      if s.objDl.isNone && n ≤ N then
        some { s with objDl := some (s.a.now + P.baseUs + P.perCmdUs * n), built := s.built + 1 }
      else none
    | _ => none
  | .base l =>
    let lift (objDl : Option Nat) : Option T :=
      (step P s.a l).map (fun a' =>
        { s with a := a', objDl := objDl,
                 doneAt := if isDone a'.phase && !isDone s.a.phase then some a'.now else s.doneAt })
    match l with
    | .start => (step P s.a l).map (fun a' => { a := a', objDl := none, t0 := a'.now, built := 0, doneAt := none })
    | .connectFails => (step P s.a l).map (fun a' => { a := a', objDl := none, t0 := a'.now, built := 0, doneAt := some a'.now })
    | .wait n => if n ≤ N then lift s.objDl else none
    | .subunitOk => if s.objDl.isSome then lift none else none
    | .subunitFails => if s.objDl.isSome then lift none else none
    | .tick d =>
      match s.a.phase, s.objDl with
      | .enqueueing, _ => none
      | .building _, none => none
      | .building _, some dl => if s.a.now + d ≤ dl then lift s.objDl else none
      | _, _ => lift s.objDl
    | _ => lift s.objDl

def runT (P : Params) (N : Nat) : T → List TLabel → Option T
  | s, [] => some s
  | s, l :: ls => match stepT P N s l with
    | some s' => runT P N s' ls
    | none => none

def ReachableT (P : Params) (N : Nat) (s : T) : Prop := ∃ ls, runT P N {} ls = some s

/-- forgetting the clock of the objects: the labels of the underlying L7 run -/
def eraseT : List TLabel → List Label
  | [] => []
  | .base l :: ls => l :: eraseT ls
  | .construct _ :: ls => eraseT ls

end Ynca.L7
