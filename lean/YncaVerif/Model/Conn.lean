import YncaVerif.Model.Framing
/-! L4 — small-step timed model of a connection (`ynca/connection.py` + pyserial's `ReaderThread`):
caller threads, the sender thread, the reader thread, `close()` on any thread, the virtual port, the
callback registry, the keep-alive flag and the communication log.

`step P s l = some (s', obs)`: label `l` is enabled in `s`, leads to `s'` and shows `obs` to an
observer (`none` = internal).  The transition function is deterministic *given* the label; all
nondeterminism (scheduler, device, passage of time, what callers do) is in the choice of labels.
Time is in microseconds; `tick d` is enabled only while no library thread can move and does not jump
over a pending deadline ("urgency": computation takes no time). -/
namespace Ynca.L4

structure Params where
  spacing : Nat            -- COMMAND_SPACING
  kaInterval : Nat         -- KEEP_ALIVE_INTERVAL
  joinTimeout : Nat        -- the 2 s joins (sender in connection_lost, reader in stop())
  readTimeout : Nat        -- pyserial read time-out set by ReaderThread when the port has no cancel_read
  logSize : Nat
deriving Repr

abbrev Tid := Nat          -- caller thread ids: 10, 11, ...  (0 = reader R, 1 = sender S)
def tidR : Tid := 0
def tidS : Tid := 1

def probe : String := "@SYS:MODELNAME=?"

inductive Item where
  | cmd (id : Nat) (text : String)
  | keepAlive
  | exit
deriving Repr, DecidableEq, BEq, Hashable

/-- sender thread (`_send_handler`) -/
inductive SPc where
  | notStarted
  | waitGet (deadline : Nat)                       -- S1 blocked in queue.get(True, KEEP_ALIVE_INTERVAL)
  | timedOut                                       -- queue.Empty raised; about to `_send_keepalive()`
  | got (m : Item)                                 -- S2 classify
  | logging (text : String) (id : Option Nat)      -- S3 append `Send` to the log
  | lockWait (text : String) (id : Option Nat)     -- S4 acquire the transport lock
  | writing (text : String) (id : Option Nat)      -- S4 serial.write (holds the lock)
  | unlock                                         -- S4 release
  | sleeping (until_ : Nat)                        -- S5 sleep(COMMAND_SPACING)
  | done                                           -- left the loop
  | dead                                           -- died with an exception (write on a closed port)
deriving Repr, DecidableEq, BEq, Hashable

/-- reader thread (`ReaderThread.run` + protocol callbacks) -/
inductive RPc where
  | notStarted
  | made (k : Nat)                                 -- connection_made: 0 create queue+start S, 1 connected:=true flag:=false, 2 put KA, 3 put KA
  | setEvent                                       -- _connection_made.set()
  | loopTest
  | reading (size : Nat) (deadline : Option Nat)   -- blocked in serial.read(size), size = `in_waiting or 1` evaluated before blocking
  | split                                          -- look for a complete packet in the buffer
  | line0 (l : String)                             -- r0: append `Received` to the log, parse
  | line1 (l : String)                             -- r1: read the keep-alive flag, decide
  | line2 (l : String) (ignore : Bool)             -- r2: clear the flag
  | deliver (l : String) (todo : List Nat)         -- invoke the snapshot's callbacks one by one
  | inCb (l : String) (cb : Nat) (todo : List Nat) -- inside callback `cb` (environment code running on R)
  | lost (k : Nat)                                 -- connection_lost: 0 alive:=false connected:=false, 1 drain, 2 put exit, 3 join S, 4 disconnect callback, 5 protocol:=None
  | lostJoin (deadline : Nat)
  | inDiscCb
  | done
deriving Repr, DecidableEq, BEq, Hashable

/-- `close()` on some thread -/
inductive CPc where
  | c0            -- clear the disconnect callback (skipped when `_protocol` is unassigned: see `callClose`)
  | c1            -- acquire the transport lock
  | c2            -- alive := false
  | c3 (deadline : Nat)   -- join(R, 2 s)
  | c4            -- serial.close()
  | c5            -- release the lock
  | c6            -- return to the caller
  | r1            -- close() on the reader thread itself: forget all message callbacks
  | r2            --   alive := false
  | r3            --   serial.close() (no join, no lock)
deriving Repr, DecidableEq, BEq, Hashable

/-- caller-side program of one API call -/
inductive UPc where
  | idle
  | submitting (text : String)       -- put/get/raw: about to enqueue
  | returning                        -- enqueued (or found no connection); about to return to the caller
  | closing (pc : CPc)
deriving Repr, DecidableEq, BEq, Hashable

inductive LogEntry where
  | send (text : String)
  | received (text : String)
deriving Repr, DecidableEq, BEq, Hashable

/-- what an observer at the library's boundary sees -/
inductive Obs where
  | write (text : String)                  -- one CR LF terminated line handed to the port
  | writeRejected (text : String)          -- write attempted on a closed port (raises in the sender)
  | readChunk (bytes : List UInt8)         -- the reader consumed these bytes (possibly none: time-out)
  | readFault
  | msgCb (cb : Nat) (m : Msg)
  | cbRet (cb : Nat)
  | discCb
  | discCbRet
  | portClose
  | exitS
  | exitR
  | logged (tid : Tid)                     -- thread `tid` (reader or sender) took the time stamp of a log entry and appended it
  | enqueued (tid : Tid)                   -- thread `tid` put a command into the send queue (visible at the queue shim only)
  | callRet (tid : Tid)                    -- an API call returned
  | closeRaised (tid : Tid)                -- close() raised (cannot join current thread)
deriving Repr, DecidableEq

structure St where
  now : Nat := 0
  -- virtual port
  portOpen : Bool := true
  inbox : List UInt8 := []
  faultPending : Bool := false
  writeFault : Bool := false                -- the next write fails with an I/O error
  -- pyserial ReaderThread
  alive : Bool := true
  lock : Option Tid := none
  connMade : Bool := false
  -- YncaProtocol
  queueMade : Bool := false
  queue : List Item := []
  connected : Bool := false
  kaPending : Bool := false
  discCbSet : Bool := true
  buffer : List UInt8 := []
  -- YncaConnection
  published : Bool := false                 -- `_protocol` assigned (connect() returned)
  msgCbs : List Nat := []
  -- threads
  spc : SPc := .notStarted
  rpc : RPc := .notStarted
  callers : List (Tid × UPc) := []
  rcall : UPc := .idle                      -- an API call made by environment code running on the reader thread (inside a callback)
  -- ghost history
  nextId : Nat := 0
  submitted : List (Tid × Nat × String) := []       -- oldest first, in enqueue order
  wire : List (Nat × String × Option Nat) := []     -- oldest first: (time, text, id of the user command or none for a probe)
  log : List LogEntry := []                          -- unbounded log, oldest first (the ring shows the last `logSize`)
  discCalls : Nat := 0
  closeStarted : Bool := false                       -- some close() has cleared the disconnect callback (step c0; only a close() that
                                                     -- found `_protocol` assigned does that)
  closeReturned : Bool := false
  closeUnpub : Bool := false                         -- some close() was entered on a connection whose connect() never completed (reader started,
                                                     -- `_protocol` unassigned): stop/join/port-close WITHOUT clearing the disconnect callback
  unpubCloseAt : Nat := 0                            -- time at which the first such close() was entered
  unpubClosers : List Tid := []                      -- threads currently inside such a close()
  unpubCloseReturned : Bool := false                 -- such a close() has returned
  madeAt : Nat := 0                                  -- time at which connection_made started the sender
  probesStarted : Nat := 0                           -- number of probes flagged so far (s1 events)
  probesAtClear : Nat := 0                           -- value of `probesStarted` when the flag was last cleared
  decisions : List (String × Bool × Bool) := []      -- per received line: (text, withheld, a probe was flagged since the flag was last cleared)
  rxLines : List String := []                        -- complete lines taken out of the receive buffer, oldest first
deriving Repr

inductive Label where
  | tick (d : Nat)
  | dev (bytes : List UInt8)               -- the device makes bytes available
  | fault                                   -- the link drops
  | wfault                                  -- writes start failing (I/O error on the next write)
  | call (tid : Tid) (text : String)        -- a caller starts put/get/raw with this command text
  | callClose (tid : Tid)                   -- a caller starts close()
  | reg (tid : Tid) (cb : Nat)              -- register_message_callback (atomic)
  | unreg (tid : Tid) (cb : Nat)
  | u (tid : Tid)                           -- caller thread `tid` takes its next step
  | s                                       -- the sender takes its next step
  | r                                       -- the reader takes its next step
  | rGet (timedOut : Bool)                  -- reader: serial.read returns (data/fault, or the read time-out)
  | rCb (cb : Nat)                          -- reader: take callback `cb` of the delivery snapshot next
  | cbRet                                   -- environment callback on R returns
  | startR                                  -- connect(): the reader thread starts
  | publish                                 -- connect(): `_protocol` becomes visible to callers
  | connectFailed                           -- connect(): the connection was lost before it was set up; the port is closed, an error raised
deriving Repr, DecidableEq

def lookup (cs : List (Tid × UPc)) (t : Tid) : UPc := ((cs.find? (·.1 == t)).map (·.2)).getD .idle
def setPc (cs : List (Tid × UPc)) (t : Tid) (p : UPc) : List (Tid × UPc) :=
  (t, p) :: cs.filter (·.1 != t)

def upcOf (s : St) (t : Tid) : UPc := if t = tidR then s.rcall else lookup s.callers t
def setUpc (s : St) (t : Tid) (p : UPc) : St :=
  if t = tidR then { s with rcall := p } else { s with callers := setPc s.callers t p }

/-- the reader is inside environment code (a message callback or the disconnect callback) -/
def readerInCallback : RPc → Bool
  | .inCb _ _ _ => true
  | .inDiscCb => true
  | _ => false

/-- may thread `t` issue an API call now? (callers: when idle; the reader: only from inside a callback) -/
def mayCall (s : St) (t : Tid) : Bool :=
  if t = tidR then readerInCallback s.rpc && s.rcall == .idle else lookup s.callers t == .idle

def enqueue (s : St) (it : Item) : St := { s with queue := s.queue ++ [it] }

/-- sender step -/
def stepS (P : Params) (s : St) : Option (St × Option Obs) :=
  match s.spc with
  | .waitGet dl =>
    match s.queue with
    | m :: q => some ({ s with spc := .got m, queue := q }, none)
    | [] => if dl ≤ s.now then
              some ({ s with spc := .timedOut }, none)     -- queue.Empty
            else none
  | .timedOut => some ({ enqueue s .keepAlive with spc := .waitGet (s.now + P.kaInterval) }, none)
  | .got .exit => some ({ s with spc := .done }, some .exitS)
  | .got .keepAlive => some ({ s with spc := .logging probe none, kaPending := true, probesStarted := s.probesStarted + 1 }, none)
  | .got (.cmd i t) => some ({ s with spc := .logging t (some i) }, none)
  | .logging t i => some ({ s with spc := .lockWait t i, log := s.log ++ [.send t] }, some (.logged tidS))
  | .lockWait t i => if s.lock = none then some ({ s with spc := .writing t i, lock := some tidS }, none) else none
  | .writing t i =>
    if s.portOpen && s.writeFault then some ({ s with spc := .dead, lock := none }, some (.writeRejected t))
    else if s.portOpen then some ({ s with spc := .unlock, wire := s.wire ++ [(s.now, t, i)] }, some (.write t))
    else some ({ s with spc := .dead, lock := none }, some (.writeRejected t))
  | .unlock => some ({ s with spc := .sleeping (s.now + P.spacing), lock := none }, none)
  | .sleeping u => if u ≤ s.now then some ({ s with spc := .waitGet (s.now + P.kaInterval) }, none) else none
  | _ => none

/-- reader step (everything except returning from `serial.read` and from environment callbacks) -/
def stepR (P : Params) (s : St) : Option (St × Option Obs) :=
  match s.rpc with
  | .made 0 => some ({ s with rpc := .made 1, queueMade := true, queue := [], spc := .waitGet (s.now + P.kaInterval), madeAt := s.now }, none)
  | .made 1 => some ({ s with rpc := .made 2, connected := true, kaPending := false, probesAtClear := s.probesStarted }, none)
  | .made 2 => some ({ enqueue s .keepAlive with rpc := .made 3 }, none)
  | .made 3 => some ({ enqueue s .keepAlive with rpc := .setEvent }, none)
  | .setEvent => some ({ s with rpc := .loopTest, connMade := true }, none)
  | .loopTest =>
    if s.alive && s.portOpen then some ({ s with rpc := .reading (if s.inbox.isEmpty then 1 else s.inbox.length) (some (s.now + P.readTimeout)) }, none)
    else some ({ s with rpc := .lost 0 }, none)
  | .split =>
    match splitFirst CR LF s.buffer with
    | some (p, rest) =>
      match String.fromUTF8? (ByteArray.mk p.toArray) with
      | some l => some ({ s with rpc := .line0 l, buffer := rest, rxLines := s.rxLines ++ [l] }, none)
      | none => some ({ s with rpc := .line0 "�", buffer := rest, rxLines := s.rxLines ++ ["�"] }, none)   -- invalid UTF-8: 'replace' decoding not modelled
    | none => some ({ s with rpc := .loopTest }, none)
  | .line0 l => some ({ s with rpc := .line1 l, log := s.log ++ [.received l] }, some (.logged tidR))
  | .line1 l =>
    let ig := (handleLine s.kaPending l).2
    some ({ s with rpc := .line2 l ig,
                   decisions := s.decisions ++ [(l, ig, decide (s.probesAtClear < s.probesStarted))] }, none)
  | .line2 l ig => some ({ s with rpc := if ig then .split else .deliver l s.msgCbs, kaPending := false, probesAtClear := s.probesStarted }, none)
  | .deliver _ [] => some ({ s with rpc := .split }, none)
  | .lost 0 => some ({ s with rpc := .lost 1, alive := false, connected := false }, none)
  | .lost 1 =>
    -- drain loop `while queue.get(False): pass`: one item per step (the sender may grab items in between)
    match s.queue with
    | _ :: q => some ({ s with queue := q }, none)
    | [] => some ({ s with rpc := .lost 2 }, none)
  | .lost 2 => some ({ enqueue s .exit with rpc := .lostJoin (s.now + P.joinTimeout) }, none)
  | .lostJoin dl =>
    if s.spc = .done ∨ s.spc = .dead ∨ dl ≤ s.now then some ({ s with rpc := .lost 4 }, none) else none
  | .lost 4 =>
    if s.discCbSet then some ({ s with rpc := .inDiscCb, discCalls := s.discCalls + 1 }, some .discCb)
    else some ({ s with rpc := .lost 5 }, none)
  | .lost 5 => some ({ s with rpc := .done }, some .exitR)
  | _ => none

/-- `close()` step of thread `t` at close-pc `pc` -/
def stepClose (P : Params) (s : St) (t : Tid) (pc : CPc) : Option (St × Option Obs) :=
  match pc with
  | .c0 => some (setUpc { s with discCbSet := false, closeStarted := true } t (.closing (if t = tidR then .r1 else .c1)), none)
  | .c1 => if s.lock = none then some (setUpc { s with lock := some t } t (.closing .c2), none) else none
  | .c2 => some (setUpc { s with alive := false } t (.closing (.c3 (s.now + P.joinTimeout))), none)
  | .r1 => some (setUpc { s with msgCbs := [] } t (.closing .r2), none)
  | .r2 => some (setUpc { s with alive := false } t (.closing .r3), none)
  | .r3 => some (setUpc { s with portOpen := false } t (.closing .c6), if s.portOpen then some .portClose else none)
  | .c3 dl => if s.rpc = .done ∨ s.rpc = .notStarted ∨ dl ≤ s.now then some (setUpc s t (.closing .c4), none) else none
  | .c4 => some (setUpc { s with portOpen := false } t (.closing .c5), if s.portOpen then some .portClose else none)
  | .c5 => some (setUpc { s with lock := none } t (.closing .c6), none)
  | .c6 => some (setUpc { s with closeReturned := true,
                                 unpubCloseReturned := s.unpubCloseReturned || s.unpubClosers.contains t,
                                 unpubClosers := s.unpubClosers.filter (· != t) } t .idle, some (.callRet t))

def stepU (P : Params) (s : St) (t : Tid) : Option (St × Option Obs) :=
  match upcOf s t with
  | .idle => none
  | .submitting text =>
    if s.published && s.queueMade then
      let s' := { s with queue := s.queue ++ [.cmd s.nextId text], submitted := s.submitted ++ [(t, s.nextId, text)], nextId := s.nextId + 1 }
      some (setUpc s' t .returning, some (.enqueued t))
    else some (setUpc s t .returning, none)               -- not connected: silent no-op
  | .returning => some (setUpc s t .idle, some (.callRet t))
  | .closing pc => stepClose P s t pc

/-- can some library thread (or pending API call) move right now?  (urgency) -/
def canMove (P : Params) (s : St) : Bool :=
  (stepS P s).isSome || (stepR P s).isSome || (stepU P s tidR).isSome ||
  (match s.rpc with | .deliver _ (_ :: _) => true | _ => false) ||
  s.callers.any (fun c => (stepU P s c.1).isSome) ||
  (match s.rpc with
   | .reading _ _ => !s.inbox.isEmpty || s.faultPending || !s.portOpen
   | _ => false)

/-- earliest pending deadline -/
def deadlines (s : St) : List Nat :=
  (match s.spc with | .waitGet d => [d] | .sleeping u => [u] | _ => []) ++
  (match s.rpc with | .reading _ (some d) => [d] | .lostJoin d => [d] | _ => []) ++
  (match s.rcall with | .closing (.c3 d) => [d] | _ => []) ++
  s.callers.filterMap (fun c => match c.2 with | .closing (.c3 d) => some d | _ => none)

def step (P : Params) (s : St) : Label → Option (St × Option Obs)
  | .tick d =>
    if d = 0 ∨ canMove P s then none
    else if (deadlines s).all (fun dl => s.now + d ≤ dl ∨ dl ≤ s.now) then some ({ s with now := s.now + d }, none)
    else none
  | .dev bytes => if s.portOpen then some ({ s with inbox := s.inbox ++ bytes }, none) else none
  | .fault => some ({ s with faultPending := true }, none)
  | .wfault => some ({ s with writeFault := true }, none)
  | .call t text => if mayCall s t then some (setUpc s t (.submitting text), none) else none
  | .callClose t =>
    if mayCall s t then
      if s.published then some (setUpc s t (.closing .c0), none)
      else if s.rpc ≠ .notStarted then
        -- `_protocol` is unassigned (connect() failed or has not returned yet) but `_readerthread` is set: the
        -- disconnect callback is NOT cleared (`if self._protocol:` is false), the rest of close() runs as usual —
        -- on a caller thread `ReaderThread.close()` in full (lock, stop = alive := false + join(2 s), serial.close(),
        -- unlock), on the reader thread itself (inside a callback that runs before connect() has returned) the
        -- no-join variant
        if t = tidR then
          some (setUpc { s with closeUnpub := true,
                                unpubCloseAt := bif s.closeUnpub then s.unpubCloseAt else s.now } t (.closing .r1), none)
        else
          some (setUpc { s with closeUnpub := true,
                                unpubCloseAt := bif s.closeUnpub then s.unpubCloseAt else s.now,
                                unpubClosers := t :: s.unpubClosers } t (.closing .c1), none)
      else some (setUpc s t .returning, none)                -- the reader thread was never started: nothing to do, returns at once
    else none
  | .reg _ cb => some ({ s with msgCbs := if s.msgCbs.contains cb then s.msgCbs else s.msgCbs ++ [cb] }, none)
  | .unreg _ cb => some ({ s with msgCbs := s.msgCbs.filter (· != cb) }, none)
  | .u t => stepU P s t
  | .s => stepS P s
  | .r => stepR P s
  | .rCb cb =>
    -- the reader picks any callback of the snapshot that is still to do (iteration order of a set is unspecified);
    -- it is invoked only if it is still registered now
    match s.rpc with
    | .deliver l todo =>
      if todo.contains cb then
        if s.msgCbs.contains cb then some ({ s with rpc := .inCb l cb (todo.filter (· != cb)) }, some (.msgCb cb (parseLine l)))
        else some ({ s with rpc := .deliver l (todo.filter (· != cb)) }, none)
      else none
    | _ => none
  | .rGet timedOut =>
    match s.rpc with
    | .reading n dl =>
      if !s.inbox.isEmpty then
        some ({ s with rpc := .split, buffer := s.buffer ++ s.inbox.take n, inbox := s.inbox.drop n }, some (.readChunk (s.inbox.take n)))
      else if s.faultPending then some ({ s with rpc := .lost 0 }, some .readFault)
      else if !s.portOpen then some ({ s with rpc := .loopTest }, some (.readChunk []))
      else if timedOut && (match dl with | some d => decide (d ≤ s.now) | none => false) then
        some ({ s with rpc := .loopTest }, some (.readChunk []))
      else none
    | _ => none
  | .cbRet =>
    match s.rpc with
    | .inCb l cb todo => if s.rcall = .idle then some ({ s with rpc := .deliver l todo }, some (.cbRet cb)) else none
    | .inDiscCb => if s.rcall = .idle then some ({ s with rpc := .lost 5 }, some .discCbRet) else none
    | _ => none
  | .startR => if s.rpc = .notStarted then some ({ s with rpc := .made 0 }, none) else none
  | .publish => if s.connMade ∧ ¬ s.published then some ({ s with published := true }, none) else none
  | .connectFailed =>
    if s.alive = false ∧ s.published = false ∧ s.rpc ≠ .notStarted then
      some ({ s with portOpen := false }, if s.portOpen then some .portClose else none)
    else none

/-- executions: label sequences from a state -/
def run (P : Params) : St → List Label → Option St
  | s, [] => some s
  | s, l :: ls => match step P s l with
    | some (s', _) => run P s' ls
    | none => none

/-- reachable from the initial state -/
def Reachable (P : Params) (s : St) : Prop := ∃ ls, run P {} ls = some s

end Ynca.L4
