/-! Shapes of the tables the translator (harness/extract.py) regenerates from /repo on every run. -/
namespace Ynca

/-- one Python `Enum` class of `ynca/enums.py` -/
structure EnumTbl where
  name : String
  /-- `(memberName, wireText)` in definition order, UNKNOWN included -/
  members : List (String × String)
  /-- probed: looking up a text that is no member's value returns the UNKNOWN member (the `_missing_` hook) -/
  hasMissing : Bool
  strMixin : Bool
deriving Repr, DecidableEq

/-- how a numeric converter prints -/
inductive ToStr where
  | plain                                         -- `str`
  | stepped (decimals : Nat) (num den : Nat)      -- `number_to_string_with_stepsize(v, decimals, num/den)`
  | only165                                       -- "16.5" for 16.5, raises otherwise
  | opaque (why : String)
deriving Repr, DecidableEq

inductive Conv where
  | enum (tbl : String)
  | str (minLen maxLen : Option Nat)
  | int (ts : ToStr)
  | intOrNone (ts : ToStr)
  | float (ts : ToStr)
  | multi (cs : List Conv)
  | opaque (why : String)
deriving Repr

structure Fn where
  attr : String
  name : String
  get : Bool
  put : Bool
  init : Option String
  noInit : Bool
  conv : Conv
deriving Repr

inductive ActionKind where
  | const (fn value : String)
  | volStep (fn : String) (up : Bool)
  | mem (fn : String)
  | scene (fn : String)
  | enumArg (fn enumName : String)
  | fixedLen (fn : String) (len : Nat)
  | opaque (why : String)
deriving Repr, DecidableEq

structure Action where
  meth : String
  kind : ActionKind
deriving Repr, DecidableEq

structure Cls where
  py : String
  id : String
  /-- in `function_handlers` insertion order (sorted attribute names) -/
  fns : List Fn
  actions : List Action
deriving Repr

end Ynca
