/-! L2 — stepped number formatting (`ynca/helpers.py: number_to_string_with_stepsize`) in exact
    arithmetic, and a plain decimal parser (the part of Python's `float()`/`int()` syntax the
    properties speak about).  Import-free so that the compiled driver links. -/
namespace Ynca

/-- round `p / q` (`q > 0`) to the nearest integer, ties to even — Python's `round()` on an exact quotient -/
def roundHalfEven (p : Int) (q : Nat) : Int :=
  let f := p / (q : Int)
  let r := p % (q : Int)
  if 2 * r < q then f
  else if (q : Int) < 2 * r then f + 1
  else if f % 2 = 0 then f else f + 1

/-- number of steps nearest to `v = vn/vd` on the grid of `step = sn/sd` -/
def stepsOf (vn : Int) (vd sn sd : Nat) : Int :=
  roundHalfEven (vn * sd) (vd * sn)

/-- decimal digits of `n`, most significant first, at least `w` of them (zero padded on the left):
    `str(n).rjust(w, '0')` -/
def padDigits (w : Nat) (n : Nat) : List Char :=
  let ds := Nat.toDigits 10 n
  List.replicate (w - ds.length) '0' ++ ds

/-- the grid value `|k| · sn/sd` in units of `10^-d` (a whole number whenever `sd ∣ sn·10^d`) -/
def scaledAbs (k : Int) (sn sd d : Nat) : Nat := k.natAbs * sn * 10 ^ d / sd

/-- text written for `k` steps of `sn/sd` with `d` decimals: sign (never for zero), integer part,
    and for `d > 0` a point and exactly `d` fraction digits -/
def formatSteps (k : Int) (sn sd d : Nat) : List Char :=
  let m := scaledAbs k sn sd d
  let sign := if k < 0 ∧ 0 < m then ['-'] else []
  let ip := Nat.toDigits 10 (m / 10 ^ d)
  sign ++ ip ++ (if d = 0 then [] else '.' :: padDigits d (m % 10 ^ d))

/-- `number_to_string_with_stepsize(vn/vd, d, sn/sd)` -/
def numberToString (vn : Int) (vd : Nat) (d sn sd : Nat) : List Char :=
  formatSteps (stepsOf vn vd sn sd) sn sd d

/-! ### plain decimal literals -/

/-- value of a digit string read in base 10 (meaningful on digit characters only) -/
def dval (cs : List Char) : Nat := cs.foldl (fun a c => a * 10 + (c.toNat - 48)) 0

def allDigits (cs : List Char) : Bool := cs.all Char.isDigit

/-- value of a non-empty all-digit string -/
def digitsVal (cs : List Char) : Option Nat :=
  if cs ≠ [] ∧ allDigits cs = true then some (dval cs) else none

/-- unsigned plain decimal `digits[.digits]` (also `digits.` and `.digits`): mantissa and number of
    fraction digits, i.e. the exact value `mant / 10^frac` -/
def parseUnsigned (body : List Char) : Option (Nat × Nat) :=
  let ip := body.takeWhile (· ≠ '.')
  match body.dropWhile (· ≠ '.') with
  | [] => match digitsVal ip with
      | some n => some (n, 0)
      | none => none
  | _ :: fp =>
    if ip = [] ∧ fp = [] then none else
    match (if ip = [] then some 0 else digitsVal ip), (if fp = [] then some 0 else digitsVal fp) with
    | some a, some b => some (a * 10 ^ fp.length + b, fp.length)
    | _, _ => none

/-- A plain decimal literal `[+-]digits[.digits]`: signed mantissa and number of fraction digits.
    Anything else: `none` (exponents, `inf`, `nan`, underscores, surrounding white space are outside the model). -/
def parseDecimal (s : List Char) : Option (Int × Nat) :=
  match s with
  | '-' :: r => (parseUnsigned r).map (fun p => (-(p.1 : Int), p.2))
  | '+' :: r => (parseUnsigned r).map (fun p => ((p.1 : Int), p.2))
  | r => (parseUnsigned r).map (fun p => ((p.1 : Int), p.2))

/-- integer literal `[+-]digits` (what `int()` accepts, minus white space / underscores) -/
def parseInt (s : List Char) : Option Int :=
  match parseDecimal s with
  | some (m, 0) => if s.contains '.' then none else some m
  | _ => none

end Ynca
