import YncaVerif.Model.Framing
/-! L5c — `YncaApi.connection_check()` at message level: the keep-alive flag (set when the sender takes a probe
out of the queue, cleared by every received line), the check's own message callback (model name sets the event,
every `AVAIL` message appends its subunit to the zone list), the bounded wait and the moment the callback is
unregistered.  All nondeterminism (when probes are taken, when lines arrive, when the caller starts to wait) is in the
labels.  Time in microseconds; while the caller waits, the event and the deadline are urgent. -/
namespace Ynca.CC

inductive Outcome where
  | ok (modelname : String) (zones : List String)
  | error                                   -- YncaConnectionError: no model name in time
deriving Repr, DecidableEq

structure St where
  now : Nat := 0
  flag : Bool := false                      -- `_keep_alive_pending`
  listening : Bool := true                  -- the check's callback is registered
  event : Bool := false
  modelname : String := ""
  zones : List String := []
  deadline : Option Nat := none             -- set when the caller starts to wait
  outcome : Option Outcome := none
deriving Repr, DecidableEq

inductive Label where
  | probe                 -- the sender takes a keep-alive item out of the queue: the flag is set
  | line (l : String)     -- the reader handles one received line
  | wait                  -- the caller (all five queries submitted) starts to wait for the event
  | wake                  -- the wait ends because the event is set; the callback is unregistered
  | timeout               -- the wait ends because the time-out has expired (`Event.wait` returns False even if the event is set
                          -- at that very instant); the callback is unregistered
  | tick (d : Nat)
deriving Repr

/-- `_connection_check_message_received` -/
def onMsg (s : St) (m : Msg) : St :=
  let s1 := if m.subunit == some "SYS" && m.fn == some "MODELNAME" && m.value.isSome
            then { s with modelname := m.value.getD "", event := true } else s
  if m.fn == some "AVAIL" && m.subunit.isSome then { s1 with zones := s1.zones ++ [m.subunit.getD ""] } else s1

/-- `handle_line` followed by the delivery to the (still registered) callback -/
def onLine (s : St) (l : String) : St :=
  let r := handleLine s.flag l
  let s0 := { s with flag := false }
  if r.2 || !s.listening then s0 else onMsg s0 r.1

def step (T : Nat) (s : St) : Label → Option St
  | .probe => some { s with flag := true }
  | .line l => some (onLine s l)
  | .wait => if s.deadline.isNone then some { s with deadline := some (s.now + T) } else none
  | .wake =>
    match s.deadline, s.outcome with
    | some _, none =>
      if s.event then some { s with listening := false, outcome := some (.ok s.modelname s.zones) } else none
    | _, _ => none
  | .timeout =>
    match s.deadline, s.outcome with
    | some dl, none =>
      if dl ≤ s.now then some { s with listening := false, outcome := some .error } else none
    | _, _ => none
  | .tick d =>
    if d = 0 then none else
    match s.deadline, s.outcome with
    | some dl, none => if s.event then none else if s.now + d ≤ dl then some { s with now := s.now + d } else none
    | _, _ => some { s with now := s.now + d }

def run (T : Nat) : St → List Label → Option St
  | s, [] => some s
  | s, l :: ls => match step T s l with
    | some s' => run T s' ls
    | none => none

end Ynca.CC
