import YncaVerif.Model.Framing
/-! L7 — `YncaApi.initialize()` / `close()` as a program (ynca/api.py), at the level of the API object's own state:

    self._connection, self._available_subunits, self._initialized_event, self._subunits

The connection underneath (L4), the start-up dialogue of one object (L5, L5m) and what a subunit object reads (L3) have
their own models; this layer is the glue between them that api.py adds:

  * `initialize()`: connect; `_detect_available_subunits` (clear the event, register the API's message callback, reset
    the set, enqueue one `AVAIL` query per subunit id and the `SYS:VERSION` synchronisation query, wait for the event
    for at most `2 s + 5·spacing·(number of commands)`; unregister the callback when the wait succeeded);
    `_initialize_available_subunits` (a `System` object first, then — in `sorted()` order of the ids heard — one object
    of the class registered for that id, each constructed, initialised and only then stored in `_subunits`);
    if anything raises, `close()` and re-raise;
  * the API's message callback: `function == "AVAIL"` adds the subunit to the set; `SYS`/`VERSION` sets the event;
  * `close()`: empty `_subunits` (closing each object), close and forget the connection.

All nondeterminism is in the labels: what the connection delivers and when (`msg`), whether the connection could be
opened (`connectFails`), whether the initialisation of one subunit object succeeds (`subunitOk` / `subunitFails` — decided
by the L5 dialogue), time (`tick`, with urgency for the waiting caller's deadline).  `heard` is a ghost: the messages
the API's callback has been handed since `initialize()` began. -/
namespace Ynca.L7

inductive Phase where
  | fresh                               -- constructed, `initialize()` not yet called
  | enqueueing                          -- callback registered, queries being submitted
  | detecting (deadline : Nat)          -- waiting for the synchronisation reply of the detection stage
  | building (todo : List String)       -- `_initialize_available_subunits`: ids still to be constructed + initialised
  | ready                               -- `initialize()` returned normally
  | failed                              -- `initialize()` raised (after its own `close()`)
  | closed                              -- `close()` after `ready` / `failed`
deriving Repr, DecidableEq

structure A where
  now : Nat := 0
  phase : Phase := .fresh
  connection : Bool := false            -- `self._connection is not None`
  registered : Bool := false            -- the API's message callback is registered on the connection
  avail : List String := []             -- `_available_subunits` (a set: no duplicates; insertion order kept here)
  event : Bool := false
  subunits : List String := []          -- keys of `_subunits` in insertion order
  heard : List Msg := []                -- ghost
deriving Repr, DecidableEq

inductive Label where
  | start                               -- `initialize()`: connect() succeeded; detection begins (event cleared, callback registered, set emptied)
  | connectFails                        -- connect() raised: `initialize()` raises, nothing was assigned
  | wait (n : Nat)                      -- the `n` queries are submitted; the caller starts to wait
  | msg (m : Msg)                       -- the connection hands a message to its callbacks
  | wake                                -- the wait ended by the event: unregister, plan the objects
  | timeout                             -- the wait ended by the time-out: close(), raise
  | subunitOk                           -- the next planned object was constructed and initialised: stored
  | subunitFails                        -- … its initialisation raised: close(), raise
  | close                               -- the user calls close()
  | tick (d : Nat)
deriving Repr, DecidableEq

/-- `set.add` -/
def addSet (xs : List String) (x : String) : List String := if xs.contains x then xs else xs ++ [x]

/-- `dict[k] = v` on the key list: an existing key keeps its position -/
def addKey (xs : List String) (x : String) : List String := if xs.contains x then xs else xs ++ [x]

/-- `YncaApi._protocol_message_received` -/
def onMsg (a : A) (m : Msg) : A :=
  let a1 := if m.fn == some "AVAIL" then
              match m.subunit with
              | some s => { a with avail := addSet a.avail s }
              | none => a            -- (cannot happen: a message with a function has a subunit)
            else a
  let a2 := if m.subunit == some "SYS" && m.fn == some "VERSION" then { a1 with event := true } else a1
  { a2 with heard := a2.heard ++ [m] }

/-- insertion sort with `String`'s order (code-point lexicographic, which is Python's `sorted()` on `str`) -/
def insertSorted (x : String) : List String → List String
  | [] => [x]
  | y :: ys => if x ≤ y then x :: y :: ys else y :: insertSorted x ys

def sortStr (xs : List String) : List String := xs.foldr insertSorted []

/-- the objects `_initialize_available_subunits` builds, in order: `System` first, then every heard id that has a class -/
def plan (classIds : List String) (avail : List String) : List String :=
  "SYS" :: (sortStr avail).filter (fun i => classIds.contains i)

structure Params where
  classIds : List String                -- ids for which `_get_subunit_class` finds a class
  baseUs : Nat := 2000000               -- `2 +`
  perCmdUs : Nat := 500000              -- `COMMAND_SPACING * 5` per submitted command

def step (P : Params) (a : A) : Label → Option A
  | .start =>
    if a.phase == .fresh then
      some { a with phase := .enqueueing, connection := true, registered := true, event := false, avail := [], heard := [] }
    else none
  | .connectFails =>
    if a.phase == .fresh then some { a with phase := .failed } else none
  | .wait n =>
    if a.phase == .enqueueing then some { a with phase := .detecting (a.now + P.baseUs + P.perCmdUs * n) } else none
  | .msg m => if a.registered then some (onMsg a m) else some a
  | .wake =>
    match a.phase with
    | .detecting _ =>
      if a.event then some { a with phase := .building (plan P.classIds a.avail), registered := false } else none
    | _ => none
  | .timeout =>
    match a.phase with
    | .detecting dl =>
      -- `Event.wait` returns False at the deadline (even if the event is set at that very instant); `close()` follows.
      -- The callback stays registered on the (now closed) connection object, which delivers nothing any more.
      if dl ≤ a.now then some { a with phase := .failed, subunits := [], connection := false, registered := false } else none
    | _ => none
  | .subunitOk =>
    match a.phase with
    | .building (i :: rest) =>
      some { a with subunits := addKey a.subunits i, phase := if rest.isEmpty then .ready else .building rest }
    | _ => none
  | .subunitFails =>
    match a.phase with
    | .building (_ :: _) => some { a with phase := .failed, subunits := [], connection := false }
    | _ => none
  | .close =>
    match a.phase with
    | .ready => some { a with phase := .closed, subunits := [], connection := false }
    | .failed => some { a with phase := .closed, subunits := [], connection := false }
    | .closed => some a
    | .fresh => some a
    | _ => none
  | .tick d =>
    match a.phase with
    | .detecting dl =>
      -- a caller whose event is set wakes at once (virtual time idealises computation as instantaneous)
      if a.event then none else if a.now + d ≤ dl then some { a with now := a.now + d } else none
    | _ => some { a with now := a.now + d }

def run (P : Params) : A → List Label → Option A
  | a, [] => some a
  | a, l :: ls => match step P a l with
    | some a' => run P a' ls
    | none => none

def Reachable (P : Params) (a : A) : Prop := ∃ ls, run P {} ls = some a

end Ynca.L7
