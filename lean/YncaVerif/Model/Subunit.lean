import YncaVerif.Model.Conv
/-! L3 — a subunit object (`ynca/subunit.py`, `ynca/function.py`): per-function cache, message handler,
    update callbacks, attribute read / assignment, action methods, the initialisation query list. -/
namespace Ynca

inductive Status where | ok | undefined | restricted
deriving Repr, DecidableEq

/-- what the connection hands to every message callback -/
structure Msg where
  status : Status
  subunit : Option String
  fn : Option String
  value : Option String
deriving Repr, DecidableEq

inductive Sent where
  | put (subunit fn value : String)
  | get (subunit fn : String)
deriving Repr, DecidableEq

/-- one invocation of an update callback: callback id, protocol name, decoded value -/
structure CbCall where
  cb : Nat
  fn : String
  val : Val
deriving Repr, DecidableEq

structure SubSt where
  cls : Cls
  /-- cached values, keyed by protocol name (absent = never reported = reads `None`) -/
  cache : List (String × Val) := []
  initialized : Bool := false
  /-- the `threading.Event` initialisation waits on -/
  event : Bool := false
  closed : Bool := false
  cbs : List Nat := []
  /-- ghost: everything this object transmitted -/
  sent : List Sent := []
  /-- ghost: update-callback invocations, in order -/
  calls : List CbCall := []
deriving Repr

def SubSt.new (c : Cls) : SubSt := { cls := c }

def cacheGet (cache : List (String × Val)) (f : String) : Option Val :=
  (cache.find? (·.1 == f)).map (·.2)

def cacheSet (cache : List (String × Val)) (f : String) (v : Val) : List (String × Val) :=
  (f, v) :: cache.filter (·.1 != f)

/-- Python's behaviour on numeric syntax outside the plain literals of the model (exponents, `inf`,
    white space, underscores, non-ASCII digits): an arbitrary total function, a parameter of every theorem. -/
abbrev Exotic := Conv → String → Option Val

/-- `converter.to_value` completed with the `exotic` parameter: a value or "raises" -/
def decodeFull (tbls : List EnumTbl) (ex : Exotic) (c : Conv) (s : String) : Option Val :=
  match decode tbls c s with
  | .ok v => some v
  | .raises => none
  | .unspecified => ex c s

def findFn (c : Cls) (name : String) : Option Fn := c.fns.find? (·.name == name)
def findAttr (c : Cls) (attr : String) : Option Fn := c.fns.find? (·.attr == attr)

/-- `SubunitBase._protocol_message_received` (with the decode failure contained: the value is dropped,
    the cache keeps its previous content, no callback) -/
def recv (tbls : List EnumTbl) (ex : Exotic) (st : SubSt) (m : Msg) : SubSt :=
  if st.closed then st else        -- after close() the callback is unregistered
  if m.status ≠ .ok then st else
  let st := if !st.initialized && m.subunit == some "SYS" && m.fn == some "VERSION"
            then { st with event := true } else st
  if m.subunit ≠ some st.cls.id then st else
  match m.fn, m.value with
  | some f, some v =>
    match findFn st.cls f with
    | some fn =>
      match decodeFull tbls ex fn.conv v with
      | some val =>
        let st := { st with cache := cacheSet st.cache f val }
        if st.initialized then { st with calls := st.calls ++ st.cbs.map (fun cb => ⟨cb, f, val⟩) } else st
      | none => st
    | none => st
  | _, _ => st

inductive ReadResult where
  | value (v : Option Val)        -- `None` when never reported
  | attributeError
  | noSuchAttr
deriving Repr, DecidableEq

/-- descriptor `__get__`: cached value only -/
def readAttr (st : SubSt) (attr : String) : ReadResult :=
  match findAttr st.cls attr with
  | none => .noSuchAttr
  | some f => if !f.get then .attributeError else .value (cacheGet st.cache f.name)

inductive WriteResult where
  | put (fn text : String)
  | attributeError
  | raises
  | unspecified
  | noSuchAttr
deriving Repr, DecidableEq

/-- descriptor `__set__`, as a pure function of the class table -/
def assignOutcome (tbls : List EnumTbl) (c : Cls) (attr : String) (v : PyVal) : WriteResult :=
  match findAttr c attr with
  | none => .noSuchAttr
  | some f =>
    if !f.put then .attributeError else
    match encode tbls f.conv v with
    | .sent t => .put f.name t
    | .raises => .raises
    | .unspecified => .unspecified

def applyWrite (st : SubSt) (r : WriteResult) : SubSt :=
  match r with
  | .put fn t => if st.closed then st else { st with sent := st.sent ++ [.put st.cls.id fn t] }
  | _ => st

def assign (tbls : List EnumTbl) (st : SubSt) (attr : String) (v : PyVal) : SubSt × WriteResult :=
  let r := assignOutcome tbls st.cls attr v
  (applyWrite st r, r)

/-- the numeric value of a step argument, if it is a number (`in [1, 2, 5]` compares by value) -/
def stepNumber : PyVal → Option (Int × Nat)
  | .int n => some (n, 1)
  | .float n d => some (n, d)
  | .bool b => some (if b then 1 else 0, 1)
  | _ => none

def stepText (dir : String) (v : Option PyVal) : String :=
  match v.bind stepNumber with
  | some (n, d) =>
    if n = 1 * (d : Int) then dir ++ " 1 dB"
    else if n = 2 * (d : Int) then dir ++ " 2 dB"
    else if n = 5 * (d : Int) then dir ++ " 5 dB"
    else dir
  | none => dir

/-- action methods -/
def actionOutcome (tbls : List EnumTbl) (k : ActionKind) (args : List PyVal) : WriteResult :=
  match k, args with
  | .const fn v, [] => .put fn v
  | .volStep fn up, [] => .put fn (if up then "Up" else "Down")
  | .volStep fn up, [a] =>
      (match a with
       | .floatNonFinite => .put fn (if up then "Up" else "Down")
       | .member _ _ => .unspecified        -- a str-mixin member compares like its text; left open
       | _ => .put fn (stepText (if up then "Up" else "Down") (some a)))
  | .mem fn, [] => .put fn "Auto"
  | .mem fn, [.none] => .put fn "Auto"
  | .mem fn, [.int n] => .put fn (intText n)
  | .mem _, [_] => .unspecified
  | .scene fn, [.int n] => .put fn ("Scene " ++ intText n)
  | .scene fn, [.str s] => .put fn ("Scene " ++ s)
  | .scene _, [_] => .unspecified
  | .enumArg fn e, [.member e' m] =>
      if e' == e then
        (match findEnum tbls e with
         | some t => match memberText t m with
            | some txt => .put fn txt
            | none => .unspecified
         | none => .unspecified)
      else .unspecified
  | .enumArg _ _, [.str _] => .raises
  | .enumArg _ _, [.int _] => .raises
  | .enumArg _ _, [.none] => .raises
  | .enumArg _ _, [_] => .unspecified
  | .fixedLen fn len, [.str s] => if s.length = len then .put fn s else .raises
  | .fixedLen _ _, [_] => .unspecified
  | _, _ => .unspecified

def findAction (c : Cls) (meth : String) : Option Action := c.actions.find? (·.meth == meth)

def act (tbls : List EnumTbl) (st : SubSt) (meth : String) (args : List PyVal) : SubSt × WriteResult :=
  match findAction st.cls meth with
  | none => (st, .noSuchAttr)
  | some a => let r := actionOutcome tbls a.kind args; (applyWrite st r, r)

/-! ### initialisation -/

/-- order-preserving list of the distinct initial queries of a class -/
def initQueries (c : Cls) : List String :=
  c.fns.foldl (fun acc f =>
    if f.noInit then acc else
    let q := f.init.getD f.name
    if acc.contains q then acc else acc ++ [q]) []

/-- the GETs `initialize()` sends: every initial query to this subunit, then the SYS:VERSION sync -/
def initSends (c : Cls) : List Sent :=
  (initQueries c).map (fun q => .get c.id q) ++ [.get "SYS" "VERSION"]

def registerCb (st : SubSt) (cb : Nat) : SubSt :=
  if st.cbs.contains cb then st else { st with cbs := st.cbs ++ [cb] }

def unregisterCb (st : SubSt) (cb : Nat) : SubSt := { st with cbs := st.cbs.filter (· != cb) }

def closeSub (st : SubSt) : SubSt := { st with closed := true, cbs := [] }

end Ynca

namespace Ynca
/-! ### re-entrant delivery of update callbacks (C09)

Callbacks are environment code: when invoked, callback `cb` performs the operations `script cb`
(registering / unregistering update callbacks of this subunit, closing it).  A delivery walks a
*snapshot* of the registered callbacks and invokes an entry only if it is still registered (and the
subunit not closed) when its turn comes. -/

inductive CbOp where
  | reg (cb : Nat)
  | unreg (cb : Nat)
  | close
deriving Repr, DecidableEq

def applyCbOp (st : SubSt) : CbOp → SubSt
  | .reg cb => if st.closed then st else registerCb st cb
  | .unreg cb => unregisterCb st cb
  | .close => closeSub st

/-- walk the snapshot -/
def deliverSnapshot (script : Nat → List CbOp) (f : String) (val : Val) : List Nat → SubSt → SubSt
  | [], st => st
  | cb :: rest, st =>
    if st.cbs.contains cb && !st.closed then
      let st := { st with calls := st.calls ++ [⟨cb, f, val⟩] }
      let st := (script cb).foldl applyCbOp st
      deliverSnapshot script f val rest st
    else deliverSnapshot script f val rest st

/-- `recv` with scripted (re-entrant) callbacks -/
def recvScripted (tbls : List EnumTbl) (ex : Exotic) (script : Nat → List CbOp) (st : SubSt) (m : Msg) : SubSt :=
  if st.closed then st else
  if m.status ≠ .ok then st else
  let st := if !st.initialized && m.subunit == some "SYS" && m.fn == some "VERSION"
            then { st with event := true } else st
  if m.subunit ≠ some st.cls.id then st else
  match m.fn, m.value with
  | some f, some v =>
    match findFn st.cls f with
    | some fn =>
      match decodeFull tbls ex fn.conv v with
      | some val =>
        let st := { st with cache := cacheSet st.cache f val }
        if st.initialized then deliverSnapshot script f val st.cbs st else st
      | none => st
    | none => st
  | _, _ => st

/-! ### type safety of cached values (C10) -/

/-- `v` is a value of the type converter `c` produces -/
def valMatches (tbls : List EnumTbl) : Conv → Val → Bool
  | .enum e, .member e' m => e' == e && (match findEnum tbls e with
      | some t => t.members.any (·.1 == m)
      | none => false)
  | .str _ _, .str _ => true
  | .int _, .int _ => true
  | .intOrNone _, .int _ => true
  | .intOrNone _, .none => true
  | .float _, .dec _ _ => true
  | .multi cs, v => go tbls cs v
  | _, _ => false
where go (tbls : List EnumTbl) : List Conv → Val → Bool
  | [], _ => false
  | c :: cs, v => valMatches tbls c v || go tbls cs v

end Ynca
