import YncaVerif.Model.Dialogue
/-! L5m — the initialisation dialogue with SEVERAL subunit objects on one connection, at the granularity of
the callback fan-out.

`Ynca.L5` (Model/Dialogue.lean) lets the reader process a received line *atomically*: one step takes the line
and sets the event.  The source is finer grained: every subunit object registers its own message callback on
the connection, and the reader thread hands one received line to the registered callbacks ONE AFTER THE OTHER
(`for callback in tuple(self._message_callbacks): callback(...)`, connection.py).  The callback of an object
(`SubunitBase._protocol_message_received`) does

    if not self._initialized and subunit == Subunit.SYS and function_name == "VERSION":
        self._initialized_event.set()
    ... then, if self.id == subunit, update the cache

— it sets the object's own event whether or not that object is inside `initialize()`: also for an object that
was constructed and never initialised (`_initialized` is true only after an `initialize()` that returned
normally, until the next one begins).  `initialize()` of an object does `event.clear()`, `_initialized = False`,
enqueues its queries and then `@SYS:VERSION=?`, and waits (bounded) on the event; `_initialized = True` and a
normal return if the event was set, an exception otherwise.

Here: a fixed list of objects, each with its own event and stage; the label `deliver` is ONE callback call
(object number `deliverIdx`, line number `processed`); only after the last object has been called does
`processed` advance.  The caller is one thread: an `initialize()` begins only while no object is waiting.
No clock — the bounded wait is the nondeterministic label `timeout` (possible exactly while the event is not
set).  `enqueued`, `ansEnd`, `vq`, `vl` and the fields `first`/`count` of an object are ghosts. -/
namespace Ynca.L5m
open Ynca.L5 (versionQuery isVersionLine Answer)

inductive Stage where
  | idle
  | waiting (first : Nat) (count : Nat)   -- this initialize()'s commands are numbers first ..< first+count
  | ok
  | failed
deriving Repr, DecidableEq

/-- may `initialize()` be called: never initialised, or the previous `initialize()` returned normally -/
def Stage.isRest : Stage → Bool
  | .idle => true
  | .ok => true
  | _ => false

/-- `self._initialized` -/
def Stage.isOk : Stage → Bool
  | .ok => true
  | _ => false

def Stage.isWaiting : Stage → Bool
  | .waiting _ _ => true
  | _ => false

structure Obj where
  event : Bool := false
  stage : Stage := .idle
  first : Nat := 0       -- ghost: the slice of commands of this object's latest `initialize()` …
  count : Nat := 0       -- … kept after the stage has left `waiting`
deriving Repr, DecidableEq

structure S where
  pending : List String := []      -- commands queued, not yet written
  written : List String := []      -- commands on the wire, in order
  consumed : Nat := 0              -- how many written commands the device has consumed
  emitted : List String := []      -- lines the device has put on the link, in order
  ansEnd : List Nat := []          -- ghost: for the i-th consumed command, length of `emitted` right after its answer
  processed : Nat := 0             -- index of the line the reader is delivering (all lines before: delivered to all)
  deliverIdx : Nat := 0            -- how many objects' callbacks have been called for line `processed`
  objs : List Obj := []
  enqueued : Nat := 0              -- ghost: total number of commands ever enqueued
  vq : Nat := 0                    -- ghost: VERSION queries enqueued so far
  vl : Nat := 0                    -- ghost: VERSION lines among the first `processed` lines
deriving Repr, DecidableEq

inductive Label where
  | begin (obj : Nat) (queries : List String)   -- obj.initialize(): clear its event, enqueue queries + sync query, wait
  | write                                        -- the sender writes the next queued command
  | consume                                      -- the device consumes the next written command and emits its answer
  | unsolicited (l : String)                     -- the device emits a line on its own (never a VERSION line)
  | deliver                                      -- the reader calls the callback of object `deliverIdx` for line `processed`
  | wake (obj : Nat)                             -- the waiting caller sees obj's event: initialize() returns normally
  | timeout (obj : Nat)                          -- the wait ended without the event: initialize() fails
deriving Repr, DecidableEq

def step (answer : Answer) (s : S) : Label → Option S
  | .begin i queries =>
    match s.objs[i]? with
    | some o =>
      if o.stage.isRest && !(s.objs.any (fun o' => o'.stage.isWaiting)) && queries.all (fun q => q != versionQuery) then
        some { s with
          objs := s.objs.set i { event := false, stage := .waiting s.enqueued (queries.length + 1),
                                 first := s.enqueued, count := queries.length + 1 },
          pending := s.pending ++ queries ++ [versionQuery],
          enqueued := s.enqueued + queries.length + 1, vq := s.vq + 1 }
      else none
    | none => none
  | .write =>
    match s.pending with
    | q :: rest => some { s with pending := rest, written := s.written ++ [q] }
    | [] => none
  | .consume =>
    if h : s.consumed < s.written.length then
      let q := s.written[s.consumed]
      some { s with consumed := s.consumed + 1, emitted := s.emitted ++ answer q,
                    ansEnd := s.ansEnd ++ [(s.emitted ++ answer q).length] }
    else none
  | .unsolicited l => if isVersionLine l then none else some { s with emitted := s.emitted ++ [l] }
  | .deliver =>
    if h : s.processed < s.emitted.length then
      let isV := isVersionLine s.emitted[s.processed]
      -- the callback: sets the event of THIS object unless it is `_initialized` — waiting or not
      let objs' := s.objs.modify s.deliverIdx (fun o => { o with event := o.event || (isV && !o.stage.isOk) })
      if s.deliverIdx + 1 < s.objs.length then
        some { s with objs := objs', deliverIdx := s.deliverIdx + 1 }
      else
        some { s with objs := objs', deliverIdx := 0, processed := s.processed + 1,
                      vl := if isV then s.vl + 1 else s.vl }
    else none
  | .wake i =>
    match s.objs[i]? with
    | some o => if o.stage.isWaiting && o.event then some { s with objs := s.objs.set i { o with stage := .ok } } else none
    | none => none
  | .timeout i =>
    match s.objs[i]? with
    | some o => if o.stage.isWaiting && !o.event then some { s with objs := s.objs.set i { o with stage := .failed } } else none
    | none => none

def run (answer : Answer) : S → List Label → Option S
  | s, [] => some s
  | s, l :: ls => match step answer s l with
    | some s' => run answer s' ls
    | none => none

/-- `n` objects constructed, none initialised -/
def init (n : Nat) : S := { objs := List.replicate n {} }

def Reachable (answer : Answer) (n : Nat) (s : S) : Prop := ∃ ls, run answer (init n) ls = some s

end Ynca.L5m
