/-! line-protocol helpers for the compiled driver: strings travel hex-encoded (UTF-8), "-" = empty -/
namespace Ynca.Hex

def hexVal (c : Char) : Option Nat :=
  if '0' ≤ c ∧ c ≤ '9' then some (c.toNat - '0'.toNat)
  else if 'a' ≤ c ∧ c ≤ 'f' then some (c.toNat - 'a'.toNat + 10)
  else if 'A' ≤ c ∧ c ≤ 'F' then some (c.toNat - 'A'.toNat + 10)
  else none

def bytesOfHex (s : String) : Option (List UInt8) :=
  if s == "-" then some [] else
  let rec go : List Char → List UInt8 → Option (List UInt8)
    | [], acc => some acc.reverse
    | [_], _ => none
    | a :: b :: r, acc => match hexVal a, hexVal b with
        | some x, some y => go r (UInt8.ofNat (x * 16 + y) :: acc)
        | _, _ => none
  go s.toList []

def hexDigit (n : Nat) : Char := if n < 10 then Char.ofNat (48 + n) else Char.ofNat (87 + n)

def hexOfBytes (bs : List UInt8) : String :=
  if bs.isEmpty then "-" else
  String.ofList (bs.flatMap (fun b => [hexDigit (b.toNat / 16), hexDigit (b.toNat % 16)]))

def strOfHex (s : String) : Option String :=
  match bytesOfHex s with
  | some bs => String.fromUTF8? (ByteArray.mk bs.toArray)
  | none => none

def hexOfStr (s : String) : String := hexOfBytes s.toUTF8.toList

end Ynca.Hex
