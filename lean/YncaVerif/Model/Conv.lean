import YncaVerif.Model.Types
import YncaVerif.Model.Stepped
/-! L2 — converters (`ynca/converters.py`) and the enumeration lookup, over the generated tables.

Python values are a small sum type.  Outcomes are three-valued: what the property pins down
(`sent`/`raises`, `ok`/`raises`) and `unspecified` for inputs the property leaves open; the
correspondence only binds the first two. -/
namespace Ynca

/-- Python values that can be assigned / passed to action methods -/
inductive PyVal where
  | int (n : Int)
  | float (num : Int) (den : Nat)          -- a finite float, as the exact rational num/den (den > 0)
  | floatNonFinite                          -- nan / ±inf
  | bool (b : Bool)
  | str (s : String)
  | member (enumName memberName : String)   -- a member of one of the generated enumerations
  | none
  | other                                   -- a plain object()
deriving Repr, DecidableEq

/-- decoded (cached) values -/
inductive Val where
  | member (enumName memberName : String)
  | str (s : String)
  | int (n : Int)
  | dec (mant : Int) (frac : Nat)           -- the number `mant / 10^frac`; Python caches the nearest double
  | none
deriving Repr, DecidableEq

inductive Dec where
  | ok (v : Val)
  | raises
  | unspecified      -- numeric syntax outside the plain literals of the model (exponent, inf, nan, `_`, spaces, non-ASCII digits …)
deriving Repr, DecidableEq

inductive Enc where
  | sent (text : String)
  | raises
  | unspecified
deriving Repr, DecidableEq

def findEnum (tbls : List EnumTbl) (name : String) : Option EnumTbl := tbls.find? (·.name == name)

/-! ### enumerations -/

/-- `Enum(text)`: the member whose value is `text`, else the `_missing_` hook -/
def decodeEnum (t : EnumTbl) (s : String) : Dec :=
  match t.members.find? (·.2 == s) with
  | some (n, _) => .ok (.member t.name n)
  | none => if t.hasMissing then .ok (.member t.name "UNKNOWN") else .raises

def memberText (t : EnumTbl) (memberName : String) : Option String :=
  (t.members.find? (·.1 == memberName)).map (·.2)

/-! ### numeric text -/

def isAsciiDigit (c : Char) : Bool := '0' ≤ c && c ≤ '9'

/-- certainly not a number for `int()`/`float()`: pure ASCII, no digit, and not one of the
    special float words -/
def clearlyNotNumeric (s : String) : Bool :=
  let cs := s.toList
  cs.all (fun c => c.toNat < 128) && !cs.any isAsciiDigit &&
    (let w := (cs.filter (fun c => c.isAlpha)).map Char.toLower
     !(w == "inf".toList || w == "infinity".toList || w == "nan".toList))

def decodeInt (s : String) : Dec :=
  match parseInt s.toList with
  | some n => .ok (.int n)
  | none => if clearlyNotNumeric s then .raises
            else if (parseDecimal s.toList).isSome then .raises   -- "1.5", "12." are not int literals
            else .unspecified

def decodeFloat (s : String) : Dec :=
  match parseDecimal s.toList with
  | some (m, f) => .ok (.dec m f)
  | none => if clearlyNotNumeric s then .raises else .unspecified

/-- `converter.to_value(text)` -/
def decode (tbls : List EnumTbl) : Conv → String → Dec
  | .enum e, s => match findEnum tbls e with
      | some t => decodeEnum t s
      | none => .unspecified
  | .str _ _, s => .ok (.str s)
  | .int _, s => decodeInt s
  | .intOrNone _, s => match decodeInt s with
      | .raises => .ok .none
      | r => r
  | .float _, s => decodeFloat s
  | .multi cs, s => decodeMulti tbls cs s
  | .opaque _, _ => .unspecified
where
  decodeMulti (tbls : List EnumTbl) : List Conv → String → Dec
    | [], _ => .raises
    | c :: cs, s => match decode tbls c s with
        | .raises => decodeMulti tbls cs s
        | r => r

/-! ### to_str -/

/-- how `int(value)` / `float(value)` (the guard at the top of the numeric `to_str`) treats a value -/
inductive NumGuard where
  | number (vn : Int) (vd : Nat) (isInt : Bool) (isBool : Bool)
  | raises
  | unspecified

def numGuard (tbls : List EnumTbl) : PyVal → NumGuard
  | .int n => .number n 1 true false
  | .float n d => .number n d false false
  | .floatNonFinite => .unspecified      -- `float(nan)` passes the guard, `int(nan)` does not; what follows raises or not per formatter
  | .bool b => .number (if b then 1 else 0) 1 true true
  | .str s => if clearlyNotNumeric s then .raises else .unspecified
  | .member e m => match findEnum tbls e with
      | some t => if t.strMixin then
            (match memberText t m with
             | some txt => if clearlyNotNumeric txt then .raises else .unspecified
             | none => .unspecified)
          else .raises
      | none => .unspecified
  | .none => .raises
  | .other => .raises

def intText (n : Int) : String := toString n

def applyToStr (ts : ToStr) (vn : Int) (vd : Nat) (isInt isBool : Bool) (forInt : Bool) : Enc :=
  match ts with
  | .plain => if isBool then .unspecified
              else if isInt then .sent (intText vn)
              else .unspecified               -- `str(float)`: shortest repr, not modelled (no function uses it for floats)
  | .stepped d sn sd =>
      if isBool then .unspecified
      else if sn = 0 ∨ sd = 0 ∨ vd = 0 then .unspecified
      else if forInt ∧ ¬ isInt then .unspecified
      else .sent (String.ofList (numberToString vn vd d sn sd))
  | .only165 => if vn * 2 = 33 * (vd : Int) then (if isBool then .unspecified else .sent "16.5") else .raises
  | .opaque _ => .unspecified

/-- `converter.to_str(value)` -/
def encode (tbls : List EnumTbl) : Conv → PyVal → Enc
  | .enum e, v => match v with
      | .member e' m => if e' == e then
            (match findEnum tbls e with
             | some t => match memberText t m with
                | some txt => .sent txt
                | none => .unspecified
             | none => .unspecified)
          else .unspecified                  -- a member of a different enumeration: left open
      | _ => .raises                         -- no `.value` attribute
  | .str minLen maxLen, v => match v with
      | .str s =>
          if (match minLen with | some m => m != 0 && s.length < m | none => false) then .raises
          else if (match maxLen with | some m => m != 0 && s.length > m | none => false) then .raises
          else .sent s
      | _ => .unspecified
  | .int ts, v => match numGuard tbls v with
      | .number vn vd isInt isBool => applyToStr ts vn vd isInt isBool true
      | .raises => .raises
      | .unspecified => .unspecified
  | .intOrNone ts, v => match numGuard tbls v with
      | .number vn vd isInt isBool => applyToStr ts vn vd isInt isBool true
      | .raises => .raises
      | .unspecified => .unspecified
  | .float ts, v => match numGuard tbls v with
      | .number vn vd isInt isBool => applyToStr ts vn vd isInt isBool false
      | .raises => .raises
      | .unspecified => .unspecified
  | .multi cs, v => encodeMulti tbls cs v
  | .opaque _, _ => .unspecified
where
  encodeMulti (tbls : List EnumTbl) : List Conv → PyVal → Enc
    | [], _ => .raises
    | c :: cs, v => match encode tbls c v with
        | .raises => encodeMulti tbls cs v
        | r => r

end Ynca
