import YncaVerif.Lemmas.L4Step
/-! Helper lemmas for C13. -/
namespace Ynca.L4

/-- the line is a `SYS:MODELNAME` report -/
def isModelname (l : String) : Bool :=
  (parseLine l).subunit == some "SYS" && (parseLine l).fn == some "MODELNAME"

theorem handleLine_withheld (ka : Bool) (l : String) : (handleLine ka l).2 = (ka && isModelname l) := by
  simp [handleLine, isModelname, Bool.and_assoc]

/-- the C13 invariant: the flag mirrors the probe counters and every recorded decision is the conjunction -/
def KaInv (s : St) : Prop :=
  s.kaPending = decide (s.probesAtClear < s.probesStarted) ∧ s.probesAtClear ≤ s.probesStarted ∧
  ∀ d ∈ s.decisions, d.2.1 = (d.2.2 && isModelname d.1)

theorem kaInv_step (P : Params) (s s' : St) (l : Label) (o : Option Obs)
    (hi : KaInv s) (hs : step P s l = some (s', o)) : KaInv s' := by
  obtain ⟨h1, h2, h3⟩ := hi
  cases l <;> simp only [step] at hs
  case s =>
    unfold stepS at hs
    split at hs <;> (try split at hs) <;> (try split at hs) <;> simp at hs <;> obtain ⟨rfl, rfl⟩ := hs <;>
      first | exact ⟨h1, h2, h3⟩ | (refine ⟨?_, ?_, h3⟩ <;> simp <;> omega)
  case r =>
    unfold stepR at hs
    split at hs <;> (try split at hs) <;> (try split at hs) <;> simp at hs <;> obtain ⟨rfl, rfl⟩ := hs <;>
      first | exact ⟨h1, h2, h3⟩ | (refine ⟨?_, ?_, h3⟩ <;> simp <;> omega) | skip
    refine ⟨h1, h2, ?_⟩
    intro d hd
    simp only [List.mem_append, List.mem_singleton] at hd
    rcases hd with hd | rfl
    · exact h3 d hd
    · simp [handleLine_withheld, h1]
  case u t =>
    unfold stepU at hs
    split at hs
    · simp at hs
    · split at hs <;> simp at hs <;> obtain ⟨rfl, rfl⟩ := hs <;> first | exact ⟨h1, h2, h3⟩ | (simp only [KaInv, setUpc_kaPending, setUpc_probesStarted, setUpc_probesAtClear, setUpc_decisions]; exact ⟨h1, h2, h3⟩)
    · simp at hs; obtain ⟨rfl, rfl⟩ := hs; first | exact ⟨h1, h2, h3⟩ | (simp only [KaInv, setUpc_kaPending, setUpc_probesStarted, setUpc_probesAtClear, setUpc_decisions]; exact ⟨h1, h2, h3⟩)
    · unfold stepClose at hs
      split at hs <;> (try split at hs) <;> simp at hs <;> obtain ⟨rfl, rfl⟩ := hs <;>
        first | exact ⟨h1, h2, h3⟩ | (simp only [KaInv, setUpc_kaPending, setUpc_probesStarted, setUpc_probesAtClear, setUpc_decisions]; exact ⟨h1, h2, h3⟩)
  all_goals
    (repeat' split at hs) <;> simp at hs <;> obtain ⟨rfl, rfl⟩ := hs <;> first | exact ⟨h1, h2, h3⟩ | (simp only [KaInv, setUpc_kaPending, setUpc_probesStarted, setUpc_probesAtClear, setUpc_decisions]; exact ⟨h1, h2, h3⟩)

theorem kaInv_reachable (P : Params) (s : St) (h : Reachable P s) : KaInv s :=
  reachable_induction P KaInv (by simp [KaInv]) (kaInv_step P) s h

theorem flag_exact (P : Params) (s : St) (h : Reachable P s) :
    s.kaPending = decide (s.probesAtClear < s.probesStarted) := (kaInv_reachable P s h).1

theorem withheld_only_if (P : Params) (s : St) (h : Reachable P s) :
    ∀ d ∈ s.decisions, d.2.1 = true → isModelname d.1 = true ∧ d.2.2 = true := by
  intro d hd hw
  have := (kaInv_reachable P s h).2.2 d hd
  rw [hw] at this
  simpa [and_comm] using this.symm

theorem delivered_otherwise (P : Params) (s : St) (h : Reachable P s) :
    ∀ d ∈ s.decisions, (isModelname d.1 = false ∨ d.2.2 = false) → d.2.1 = false := by
  intro d hd hw
  rw [(kaInv_reachable P s h).2.2 d hd]
  rcases hw with hw | hw <;> simp [hw]

theorem withheld_if (P : Params) (s : St) (h : Reachable P s) :
    ∀ d ∈ s.decisions, isModelname d.1 = true → d.2.2 = true → d.2.1 = true := by
  intro d hd hm hp
  rw [(kaInv_reachable P s h).2.2 d hd, hm, hp]; rfl

theorem withheld_skips_delivery (P : Params) (s s' : St) (l : String) (o : Option Obs)
    (hpc : s.rpc = .line2 l true) (h : step P s .r = some (s', o)) : s'.rpc = .split ∧ o = none := by
  simp only [step, stepR, hpc] at h
  simp at h
  obtain ⟨rfl, rfl⟩ := h
  simp

end Ynca.L4
