import YncaVerif.Lemmas.L4Defs
/-! Helper lemmas for C13. -/
namespace Ynca.L4
end Ynca.L4
