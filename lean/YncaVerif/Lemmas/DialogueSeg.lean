import YncaVerif.Lemmas.Dialogue
/-! L5: where the answers sit in the emitted stream — the lines of the answer to the i-th consumed command are among the
first `ansEnd[i]` emitted lines.  With the barrier (`barrier_waiting`) this says what the reader HAS processed when a stage is
woken: every line of every answer to the stage's commands. -/
namespace Ynca.L5

/-- segment invariant -/
def Seg (answer : Answer) (s : D) : Prop :=
  ∀ (i : Nat) (q : String) (e : Nat), s.written[i]? = some q → s.ansEnd[i]? = some e → ∀ l ∈ answer q, l ∈ s.emitted.take e

theorem seg_init (answer : Answer) : Seg answer {} := by
  intro i q e hq; simp at hq

theorem seg_step (answer : Answer) (s s' : D) (l : Label) (hi : Inv s) (hg : Seg answer s)
    (hs : step answer s l = some s') : Seg answer s' := by
  cases l with
  | «begin» queries timeout =>
    simp only [step] at hs
    split at hs
    · cases hs; (first | exact hg | (unfold Seg at hg ⊢; exact hg))
    · cases hs
  | write =>
    simp only [step] at hs
    split at hs
    · rename_i q0 rest hp
      cases hs
      show Seg answer _
      unfold Seg
      intro i q e hq he l hl
      -- ansEnd[i] defined → i < consumed ≤ written.length: the old entry
      have hlt : i < s.ansEnd.length := by
        rcases Nat.lt_or_ge i s.ansEnd.length with h | h
        · exact h
        · rw [List.getElem?_eq_none h] at he; cases he
      have hiw : i < s.written.length := by have := hi.ans_len; have := hi.cons_le; omega
      have hq' : s.written[i]? = some q := by
        simpa [List.getElem?_append_left hiw] using hq
      exact hg i q e hq' he l hl
    · cases hs
  | consume =>
    simp only [step] at hs
    split at hs
    · rename_i hc
      cases hs
      show Seg answer _
      unfold Seg
      intro i q e hq he l hl
      rcases Nat.lt_or_ge i s.ansEnd.length with h | h
      · -- an older answer: its prefix of the stream is unchanged
        have he' : s.ansEnd[i]? = some e := by simpa [List.getElem?_append_left h] using he
        have hle : e ≤ s.emitted.length := hi.ans_le e (List.mem_of_getElem? he')
        have := hg i q e hq he' l hl
        rw [List.take_append_of_le_length hle]
        exact this
      · -- the answer just emitted
        have hi_eq : i = s.ansEnd.length := by
          rcases Nat.lt_or_ge s.ansEnd.length i with h2 | h2
          · have : (s.ansEnd ++ [(s.emitted ++ answer s.written[s.consumed]).length])[i]? = none := by
              apply List.getElem?_eq_none; simp; omega
            rw [this] at he; cases he
          · omega
        subst hi_eq
        have he2 : e = (s.emitted ++ answer s.written[s.consumed]).length := by
          simpa using he.symm
        have hq2 : q = s.written[s.consumed] := by
          have hal := hi.ans_len
          have : s.written[s.ansEnd.length]? = some s.written[s.consumed] := by
            rw [hal]; exact List.getElem?_eq_getElem hc
          rw [this] at hq; cases hq; rfl
        subst he2; subst hq2
        rw [List.take_length]
        exact List.mem_append_right _ hl
    · cases hs
  | unsolicited l0 =>
    simp only [step] at hs
    split at hs
    · cases hs
    · cases hs
      show Seg answer _
      unfold Seg
      intro i q e hq he l hl
      have hle : e ≤ s.emitted.length := hi.ans_le e (List.mem_of_getElem? he)
      rw [List.take_append_of_le_length hle]
      exact hg i q e hq he l hl
  | process =>
    simp only [step] at hs
    split at hs
    · cases hs; (first | exact hg | (unfold Seg at hg ⊢; exact hg))
    · cases hs
  | wake =>
    simp only [step] at hs
    split at hs
    · split at hs
      · cases hs; (first | exact hg | (unfold Seg at hg ⊢; exact hg))
      · cases hs
    · cases hs
  | timeout =>
    simp only [step] at hs
    split at hs
    · split at hs
      · cases hs; (first | exact hg | (unfold Seg at hg ⊢; exact hg))
      · cases hs
    · cases hs
  | tick d =>
    simp only [step] at hs
    split at hs
    · split at hs
      · cases hs
      · split at hs
        · cases hs; (first | exact hg | (unfold Seg at hg ⊢; exact hg))
        · cases hs
    · split at hs
      · cases hs; (first | exact hg | (unfold Seg at hg ⊢; exact hg))
      · cases hs

theorem reachable_seg (answer : Answer) (ha : AnswerOk answer) (s : D) (h : Reachable answer s) :
    Inv s ∧ Seg answer s := by
  refine reachable_induction answer (fun s => Inv s ∧ Seg answer s) ⟨inv_init, seg_init answer⟩ ?_ s h
  intro s s' l ⟨hi, hg⟩ hs
  exact ⟨inv_step answer ha s s' l hi hs, seg_step answer s s' l hi hg hs⟩

/-- **what the reader has processed when a stage is woken**: every line of the answer to every command of the stage
    (and of all earlier stages) is among the processed lines -/
theorem woken_has_processed_answers (answer : Answer) (ha : AnswerOk answer) (s : D) (h : Reachable answer s)
    (first count dl : Nat) (hw : s.stage = .waiting first count dl) (he : s.event = true)
    (i : Nat) (hi : i < first + count) (q : String) (hq : s.written[i]? = some q) :
    ∀ l ∈ answer q, l ∈ s.emitted.take s.processed := by
  obtain ⟨_, hb⟩ := barrier_waiting answer ha s h first count dl hw he
  obtain ⟨e, hae, hep⟩ := hb i hi
  obtain ⟨_, hg⟩ := reachable_seg answer ha s h
  intro l hl
  have := hg i q e hq hae l hl
  exact List.mem_of_mem_take (l := s.emitted.take s.processed) (by
    rw [List.take_take, Nat.min_eq_left hep]; exact this)

end Ynca.L5
