import YncaVerif.Lemmas.L4Basic
/-! Helper lemmas for C20. -/
namespace Ynca.L4

theorem ringAdd_drop {α : Type} (n : Nat) (ys : List α) (x : α) :
    ringAdd n (ys.drop (ys.length - n)) x = (ys ++ [x]).drop ((ys ++ [x]).length - n) := by
  unfold ringAdd
  have h : ys.drop (ys.length - n) ++ [x] = (ys ++ [x]).drop (ys.length - n) := by
    rw [List.drop_append_of_le_length (by omega)]
  rw [h, List.drop_drop]
  congr 1
  simp only [List.length_drop, List.length_append, List.length_singleton]
  omega

theorem ring_is_suffix_gen {α : Type} (n : Nat) (xs ys : List α) :
    xs.foldl (ringAdd n) (ys.drop (ys.length - n)) = (ys ++ xs).drop ((ys ++ xs).length - n) := by
  induction xs generalizing ys with
  | nil => simp
  | cons x xs ih =>
    simp only [List.foldl_cons]
    rw [ringAdd_drop, ih (ys ++ [x])]
    simp

theorem ring_is_suffix {α : Type} (n : Nat) (xs : List α) :
    xs.foldl (ringAdd n) [] = xs.drop (xs.length - n) := by
  simpa using ring_is_suffix_gen n xs []

/-! ### sends -/

/-- the `Send` entries that are logged but not (yet) written, per sender pc -/
def pendOK : SPc → List String → Prop
  | .lockWait t _, e => e = [t]
  | .writing t _, e => e = [t]
  | .dead, e => e.length ≤ 1
  | _, e => e = []

def SendsInv (s : St) : Prop := ∃ extra, logSends s = wireTexts s ++ extra ∧ pendOK s.spc extra

theorem sendsInv_step (P : Params) (s s' : St) (l : Label) (o : Option Obs) (hr : Reachable P s)
    (hi : SendsInv s) (hs : step P s l = some (s', o)) : SendsInv s' := by
  have ⟨extra, h1, h2⟩ := hi
  cases step_kind P s s' l o hs with
  | tick d h => subst h; exact hi
  | sender o h =>
    cases stepS_kind P s s' o h with
    | get dl m q hp hq h _ => subst h; rw [hp] at h2; exact ⟨extra, h1, h2⟩
    | timeout dl hp hq hd h _ => subst h; rw [hp] at h2; exact ⟨extra, h1, h2⟩
    | putKA hp h _ => subst h; rw [hp] at h2; exact ⟨extra, h1, h2⟩
    | exit hp h _ => subst h; rw [hp] at h2; exact ⟨extra, h1, h2⟩
    | flag hp h _ => subst h; rw [hp] at h2; exact ⟨extra, h1, h2⟩
    | classify i t hp h _ => subst h; rw [hp] at h2; exact ⟨extra, h1, h2⟩
    | log t i hp h _ =>
      subst h; rw [hp] at h2
      simp only [pendOK] at h2; subst h2
      refine ⟨[t], ?_, rfl⟩
      simp only [logSends, wireTexts, List.append_nil] at h1 ⊢
      rw [← h1]; simp
    | lock t i hp h _ => subst h; rw [hp] at h2; exact ⟨extra, h1, h2⟩
    | die t i hp h _ =>
      subst h; rw [hp] at h2
      simp only [pendOK] at h2; subst h2
      exact ⟨[t], h1, by simp [pendOK]⟩
    | write t i hp h _ =>
      subst h; rw [hp] at h2
      simp only [pendOK] at h2; subst h2
      refine ⟨[], ?_, rfl⟩
      simp only [logSends, wireTexts, List.append_nil, List.map_append, List.map_cons, List.map_nil] at h1 ⊢
      exact h1
    | unlock hp h _ => subst h; rw [hp] at h2; exact ⟨extra, h1, h2⟩
    | wake u hp hu h _ => subst h; rw [hp] at h2; exact ⟨extra, h1, h2⟩
  | submit t text hq h =>
    subst h
    exact ⟨extra, by rw [logSends_setUpc, wireTexts_setUpc]; exact h1, by rw [setUpc_spc]; exact h2⟩
  | made0 hr0 h =>
    subst h
    have he := earlyInv P s hr (.inr hr0)
    exact ⟨[], by simp [logSends, wireTexts, he.2.2.2.2.1, he.2.2.2.2.2.1], rfl⟩
  | enq it r' _ _ _ h => subst h; exact hi
  | drain x q _ _ h => subst h; exact hi
  | split l rest _ h => subst h; exact hi
  | logRecv l _ h =>
    subst h
    refine ⟨extra, ?_, h2⟩
    simp only [logSends, wireTexts] at h1 ⊢
    rw [← h1]; simp
  | env hc hre => exact ⟨extra, by rw [hc.logSends, hc.wireTexts]; exact h1, by rw [hc.spc]; exact h2⟩

theorem sendsInv (P : Params) (s : St) (h : Reachable P s) : SendsInv s :=
  reachable_induction' P SendsInv ⟨[], by simp [logSends, wireTexts], rfl⟩ (sendsInv_step P) s h

theorem pendOK_length (p : SPc) (e : List String) (h : pendOK p e) : e.length ≤ 1 := by
  cases p <;> simp_all [pendOK]

theorem sends_faithful (P : Params) (s : St) (h : Reachable P s) :
    ∃ extra, logSends s = wireTexts s ++ extra ∧ extra.length ≤ 1 := by
  obtain ⟨extra, h1, h2⟩ := sendsInv P s h
  exact ⟨extra, h1, pendOK_length _ _ h2⟩

theorem write_was_logged (P : Params) (s s' : St) (t : String) (hr : Reachable P s)
    (h : step P s .s = some (s', some (.write t))) : t ∈ logSends s := by
  obtain ⟨extra, h1, h2⟩ := sendsInv P s hr
  have hk := stepS_kind P s s' _ (by simpa only [step] using h)
  cases hk with
  | write t' i hp _ ho =>
    simp only [Option.some.injEq, Obs.write.injEq] at ho
    subst ho
    rw [hp] at h2
    simp only [pendOK] at h2
    rw [h1, h2]; simp
  | get _ _ _ _ _ _ ho => simp at ho
  | timeout _ _ _ _ _ ho => simp at ho
  | putKA _ _ ho => simp at ho
  | exit _ _ ho => simp at ho
  | flag _ _ ho => simp at ho
  | classify _ _ _ _ ho => simp at ho
  | log _ _ _ _ ho => simp at ho
  | lock _ _ _ _ ho => simp at ho
  | die _ _ _ _ ho => simp at ho
  | unlock _ _ ho => simp at ho
  | wake _ _ _ _ ho => simp at ho

/-! ### receives -/

def RecvInv (s : St) : Prop :=
  s.rxLines = logRecvs s ++ (match isLine0 s.rpc with | some l => [l] | none => [])

theorem RecvInv.congr {s s' : St} (hi : RecvInv s) (h1 : s'.rxLines = s.rxLines) (h2 : s'.log = s.log)
    (h3 : isLine0 s'.rpc = isLine0 s.rpc) : RecvInv s' := by
  unfold RecvInv logRecvs at *
  rw [h1, h2, h3]; exact hi

theorem recvInv_step (P : Params) (s s' : St) (l : Label) (o : Option Obs)
    (hi : RecvInv s) (hs : step P s l = some (s', o)) : RecvInv s' := by
  cases step_kind P s s' l o hs with
  | tick d h => subst h; exact hi
  | sender o h =>
    cases stepS_kind P s s' o h with
    | log t i hp h _ =>
      subst h
      unfold RecvInv logRecvs at *
      simp only [List.filterMap_append, List.filterMap_cons, List.filterMap_nil, List.append_nil]
      exact hi
    | get _ _ _ _ _ h _ => subst h; exact hi
    | timeout _ _ _ _ h _ => subst h; exact hi
    | putKA _ h _ => subst h; exact hi
    | exit _ h _ => subst h; exact hi
    | flag _ h _ => subst h; exact hi
    | classify _ _ _ h _ => subst h; exact hi
    | lock _ _ _ h _ => subst h; exact hi
    | die _ _ _ h _ => subst h; exact hi
    | write _ _ _ h _ => subst h; exact hi
    | unlock _ h _ => subst h; exact hi
    | wake _ _ _ h _ => subst h; exact hi
  | submit t text hq h => subst h; exact hi.congr (by simp) (by simp) (by simp)
  | made0 hr0 h => subst h; exact hi.congr rfl rfl (by simp [hr0, isLine0])
  | enq it r' _ hre _ h => subst h; exact hi.congr rfl rfl hre.line0_eq
  | drain x q _ _ h => subst h; exact hi
  | split l rest hr0 h =>
    subst h
    unfold RecvInv at *
    simp only [hr0, isLine0, List.append_nil] at hi
    simp only [isLine0]
    rw [hi]; rfl
  | logRecv l hr0 h =>
    subst h
    unfold RecvInv at *
    simp only [hr0, isLine0] at hi
    simp only [isLine0, List.append_nil, logRecvs, List.filterMap_append, List.filterMap_cons,
      List.filterMap_nil]
    exact hi
  | env hc hre => exact hi.congr hc.rxLines hc.log hre.line0_eq

theorem receives_faithful (P : Params) (s : St) (h : Reachable P s) :
    ∃ extra, s.rxLines = logRecvs s ++ extra ∧ extra.length ≤ 1 := by
  have hi := reachable_induction P RecvInv (by simp [RecvInv, logRecvs, isLine0]) (recvInv_step P) s h
  refine ⟨_, hi, ?_⟩
  split <;> simp

end Ynca.L4
