import YncaVerif.Lemmas.L4Defs
/-! Helper lemmas for C20. -/
namespace Ynca.L4
end Ynca.L4
