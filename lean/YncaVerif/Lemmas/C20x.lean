import YncaVerif.Lemmas.C20
import YncaVerif.Lemmas.C15x
import YncaVerif.Lemmas.FramingX
/-! Helper lemmas for C20x (causality clause of C20: no reply is listed before the command that caused it).

The L4 model keeps the unbounded log (`St.log`), the wire (`St.wire`) and the complete lines taken out of
the receive buffer (`St.rxLines`) as ghost history, but it does not remember *when* a byte was made
available by the device.  That is added here, outside the model, as a ghost that is a function of the
label history (`gstep` / `grun`): every byte fed by a `Label.dev` step is stamped with the number of
lines that were on the wire at that moment. -/
namespace Ynca.L4

/-- decoding of a complete line as done by the reader's `split` step -/
def decodeLine (p : List UInt8) : String :=
  match String.fromUTF8? (ByteArray.mk p.toArray) with
  | some l => l
  | none => "�"

def sendsOf (l : List LogEntry) : List String := l.filterMap (fun e => match e with | .send t => some t | _ => none)
def recvsOf (l : List LogEntry) : List String := l.filterMap (fun e => match e with | .received t => some t | _ => none)

/-- ghost data, a function of the label history -/
structure Ghost where
  /-- every byte the device has made available (`Label.dev`), oldest first, each with the number of lines
      that were on the wire (`St.wire.length`) when it was made available -/
  fed : List (UInt8 × Nat) := []
  /-- the complete lines the reader has taken out of its buffer (without the CR LF), oldest first -/
  raw : List (List UInt8) := []
  /-- number of bytes of `fed` that belong to the lines in `raw` -/
  taken : Nat := 0
  /-- per line in `raw`: the stamp of its last byte (the LF) -/
  stamps : List Nat := []
deriving Repr, DecidableEq

/-- ghost update when the reader takes the complete line `p` (plus CR LF) out of its buffer: the stamp of the
    line is the stamp of the fed byte at offset `taken + p.length + 1`, the LF of its terminator -/
def gsplit (g : Ghost) (p : List UInt8) : Ghost :=
  { g with raw := g.raw ++ [p], taken := g.taken + (p.length + 2),
           stamps := g.stamps ++ [((g.fed[g.taken + p.length + 1]?).map (·.2)).getD 0] }

/-- ghost update for the step with label `l` taken in state `s` -/
def gstep (s : St) (l : Label) (g : Ghost) : Ghost :=
  match l with
  | .dev bytes => { g with fed := g.fed ++ bytes.map (fun b => (b, s.wire.length)) }
  | .r =>
    match s.rpc with
    | .split =>
      match splitFirst CR LF s.buffer with
      | some (p, _) => gsplit g p
      | none => g
    | _ => g
  | _ => g

/-- the model run together with the ghost -/
def grun (P : Params) : St → Ghost → List Label → Option (St × Ghost)
  | s, g, [] => some (s, g)
  | s, g, l :: ls => match step P s l with
    | some (s', _) => grun P s' (gstep s l g) ls
    | none => none

/-- index in the fed stream of the last byte (the LF) of the `j`-th line taken out -/
def lineEnd (raw : List (List UInt8)) (j : Nat) : Nat := (wireG CR LF (raw.take (j + 1)) []).length - 1

/-! ### the ghost run is the model run -/

theorem grun_run (P : Params) (ls : List Label) (s : St) (g : Ghost) :
    (grun P s g ls).map (·.1) = run P s ls := by
  induction ls generalizing s g with
  | nil => rfl
  | cons l ls ih =>
    simp only [grun, run]
    cases step P s l with
    | none => rfl
    | some r => exact ih _ _

theorem grun_append (P : Params) (s : St) (g : Ghost) (a b : List Label) :
    grun P s g (a ++ b) = (grun P s g a).bind (fun r => grun P r.1 r.2 b) := by
  induction a generalizing s g with
  | nil => simp [grun]
  | cons l ls ih =>
    simp only [List.cons_append, grun]
    cases step P s l with
    | none => simp
    | some r => simp [ih]

theorem grun_reachable (P : Params) (ls : List Label) (s s' : St) (g g' : Ghost)
    (hr : Reachable P s) (h : grun P s g ls = some (s', g')) : Reachable P s' := by
  have := grun_run P ls s g
  rw [h] at this
  exact hr.run this.symm

/-- an invariant of single steps (of model and ghost) holds along every execution; the source state of
    every step is known to be reachable -/
theorem grun_invariant (P : Params) (Inv : St → Ghost → Prop)
    (hstep : ∀ s g s' l o, Reachable P s → Inv s g → step P s l = some (s', o) → Inv s' (gstep s l g)) :
    ∀ (ls : List Label) (s0 s : St) (g0 g : Ghost), Reachable P s0 → Inv s0 g0 →
      grun P s0 g0 ls = some (s, g) → Inv s g := by
  intro ls
  induction ls with
  | nil => intro s0 s g0 g _ h hr; simp [grun] at hr; obtain ⟨rfl, rfl⟩ := hr; exact h
  | cons l ls ih =>
    intro s0 s g0 g hreach h hr
    simp only [grun] at hr
    cases hst : step P s0 l with
    | none => simp [hst] at hr
    | some r =>
      obtain ⟨s1, o⟩ := r
      simp [hst] at hr
      exact ih s1 s _ g (hreach.step hst) (hstep s0 g0 s1 l o hreach h hst) hr

/-! ### classification of the steps for the byte stream and the log -/

inductive XKind (s s' : St) (l : Label) : Prop
  | feed (bytes : List UInt8) : l = .dev bytes → s'.inbox = s.inbox ++ bytes → s'.buffer = s.buffer →
      s'.wire = s.wire → s'.log = s.log → s'.rxLines = s.rxLines → XKind s s' l
  | split (p rest : List UInt8) : l = .r → s.rpc = .split → splitFirst CR LF s.buffer = some (p, rest) →
      s'.buffer = rest → s'.inbox = s.inbox → s'.rxLines = s.rxLines ++ [decodeLine p] →
      s'.wire = s.wire → s'.log = s.log → XKind s s' l
  | logRecv (t : String) : (∀ g, gstep s l g = g) → s.rpc = .line0 t → s'.log = s.log ++ [.received t] →
      s'.buffer = s.buffer → s'.inbox = s.inbox → s'.rxLines = s.rxLines → s'.wire = s.wire → XKind s s' l
  | logSend (t : String) : (∀ g, gstep s l g = g) → s'.log = s.log ++ [.send t] →
      s'.buffer = s.buffer → s'.inbox = s.inbox → s'.rxLines = s.rxLines → s'.wire = s.wire → XKind s s' l
  | write (e : Nat × String × Option Nat) : (∀ g, gstep s l g = g) → s'.wire = s.wire ++ [e] → s'.log = s.log →
      s'.buffer = s.buffer → s'.inbox = s.inbox → s'.rxLines = s.rxLines → XKind s s' l
  | other : (∀ g, gstep s l g = g) → s'.buffer ++ s'.inbox = s.buffer ++ s.inbox →
      s'.wire = s.wire → s'.log = s.log → s'.rxLines = s.rxLines → XKind s s' l

@[simp] theorem setUpc_buffer (s : St) (t : Tid) (p : UPc) : (setUpc s t p).buffer = s.buffer := by
  unfold setUpc; split <;> rfl
@[simp] theorem setUpc_inbox (s : St) (t : Tid) (p : UPc) : (setUpc s t p).inbox = s.inbox := by
  unfold setUpc; split <;> rfl

theorem step_xkind (P : Params) (s s' : St) (l : Label) (o : Option Obs)
    (h : step P s l = some (s', o)) : XKind s s' l := by
  cases l
  case dev bytes =>
    l4_step_cases h
    exact .feed bytes rfl rfl rfl rfl rfl rfl
  case r =>
    l4_step_cases h
    all_goals first
      | (refine .other ?_ rfl rfl rfl rfl; intro g; simp [gstep, *]; done)
      | (rename_i hr _ p rest hsp _ t ht
         exact .split p rest rfl hr hsp rfl rfl (by simp [decodeLine, ht]) rfl rfl)
      | (rename_i hr _ p rest hsp _ ht
         exact .split p rest rfl hr hsp rfl rfl (by simp [decodeLine, ht]) rfl rfl)
      | (rename_i t hr
         exact .logRecv t (by intro g; simp [gstep, hr]) hr rfl rfl rfl rfl rfl)
  case s =>
    l4_step_cases h
    all_goals first
      | exact .other (fun _ => rfl) rfl rfl rfl rfl
      | exact .logSend _ (fun _ => rfl) rfl rfl rfl rfl rfl
      | exact .write _ (fun _ => rfl) rfl rfl rfl rfl rfl
  all_goals
    l4_step_cases h
    all_goals first
      | exact .other (fun _ => rfl) rfl rfl rfl rfl
      | exact .other (fun _ => rfl) (by simp) (by simp) (by simp) (by simp)
      | (refine .other (fun _ => rfl) ?_ rfl rfl rfl; simp [List.append_assoc]; done)

/-! ### the fed stream is the lines taken out, with their terminators, followed by what is still pending -/

def fedBytes (g : Ghost) : List UInt8 := g.fed.map (·.1)

theorem wireG_snoc (raw : List (List UInt8)) (p tail : List UInt8) :
    wireG CR LF (raw ++ [p]) tail = wireG CR LF raw (p ++ CR :: LF :: tail) := by
  simp [wireG]

theorem wireG_tail (raw : List (List UInt8)) (tail : List UInt8) :
    wireG CR LF raw tail = wireG CR LF raw [] ++ tail := by
  simp [wireG]

theorem lineEnd_old (raw : List (List UInt8)) (p : List UInt8) (j : Nat) (h : j < raw.length) :
    lineEnd (raw ++ [p]) j = lineEnd raw j := by
  unfold lineEnd
  rw [List.take_append_of_le_length (by omega)]

theorem lineEnd_new (raw : List (List UInt8)) (p : List UInt8) :
    lineEnd (raw ++ [p]) raw.length = (wireG CR LF raw []).length + p.length + 1 := by
  unfold lineEnd
  rw [List.take_of_length_le (by simp), wireG_snoc, wireG_tail]
  simp
  omega

structure StreamInv (s : St) (g : Ghost) : Prop where
  bytes : fedBytes g = wireG CR LF g.raw (s.buffer ++ s.inbox)
  taken : g.taken = (wireG CR LF g.raw []).length
  lines : s.rxLines = g.raw.map decodeLine
  slen : g.stamps.length = g.raw.length
  ends : ∀ j k, g.stamps[j]? = some k → g.fed[lineEnd g.raw j]? = some (LF, k)

theorem streamInv_init : StreamInv {} {} := by
  constructor <;> simp [fedBytes, wireG]

theorem getElem?_append_of_some {α : Type} (a b : List α) (i : Nat) (x : α) (h : a[i]? = some x) :
    (a ++ b)[i]? = some x := by
  have hi : i < a.length := by
    rcases Nat.lt_or_ge i a.length with h' | h'
    · exact h'
    · rw [List.getElem?_eq_none h'] at h; cases h
  rw [List.getElem?_append_left hi]; exact h

theorem streamInv_step (P : Params) (s : St) (g : Ghost) (s' : St) (l : Label) (o : Option Obs)
    (hi : StreamInv s g) (hs : step P s l = some (s', o)) : StreamInv s' (gstep s l g) := by
  cases step_xkind P s s' l o hs with
  | feed bytes hl hin hbuf hw hlog hrx =>
    subst hl
    refine ⟨?_, hi.taken, by rw [hrx]; exact hi.lines, hi.slen, ?_⟩
    · have hb := hi.bytes
      simp only [gstep, fedBytes, List.map_append, List.map_map] at hb ⊢
      rw [hb, hin, hbuf]
      simp [wireG, Function.comp_def]
    · intro j k hj
      exact getElem?_append_of_some _ _ _ _ (hi.ends j k hj)
  | split p rest hl hr hsp hbuf hin hrx hw hlog =>
    subst hl
    have hb := splitFirst_some_eq CR LF s.buffer p rest hsp
    have hg : gstep s .r g = gsplit g p := by
      simp [gstep, hr, hsp]
    rw [hg]
    unfold gsplit
    -- the byte at the end of the new line is the LF of its terminator
    have hLF : (fedBytes g)[g.taken + p.length + 1]? = some LF := by
      rw [hi.bytes, hb, wireG_tail, hi.taken]
      rw [List.getElem?_append_right (by omega)]
      have e1 : (wireG CR LF g.raw []).length + p.length + 1 - (wireG CR LF g.raw []).length = p.length + 1 := by
        omega
      rw [e1, List.append_assoc, List.getElem?_append_right (by omega)]
      have e2 : p.length + 1 - p.length = 1 := by omega
      rw [e2]; rfl
    have hx : ∃ k, g.fed[g.taken + p.length + 1]? = some (LF, k) := by
      simp only [fedBytes, List.getElem?_map] at hLF
      cases hf : g.fed[g.taken + p.length + 1]? with
      | none => rw [hf] at hLF; cases hLF
      | some x =>
        rw [hf] at hLF
        obtain ⟨b, k⟩ := x
        simp at hLF; subst hLF
        exact ⟨k, rfl⟩
    obtain ⟨k0, hk0⟩ := hx
    refine ⟨?_, ?_, ?_, ?_, ?_⟩
    · show fedBytes g = _
      rw [hi.bytes, hbuf, hin, hb, wireG_snoc]
      simp
    · show g.taken + (p.length + 2) = _
      rw [wireG_snoc, wireG_tail, hi.taken]; simp
    · show s'.rxLines = _
      rw [hrx, hi.lines]; simp
    · simp [hi.slen]
    · intro j k hj
      show g.fed[lineEnd (g.raw ++ [p]) j]? = some (LF, k)
      simp only at hj
      rcases Nat.lt_or_ge j g.stamps.length with hlt | hge
      · rw [List.getElem?_append_left hlt] at hj
        rw [lineEnd_old _ _ _ (by rw [← hi.slen]; exact hlt)]
        exact hi.ends j k hj
      · rw [List.getElem?_append_right hge] at hj
        have hj0 : j - g.stamps.length = 0 := by
          rcases Nat.eq_zero_or_pos (j - g.stamps.length) with h0 | h0
          · exact h0
          · rw [List.getElem?_eq_none (by simp; omega)] at hj; cases hj
        have hje : j = g.raw.length := by rw [← hi.slen]; omega
        rw [hj0, hk0] at hj
        simp at hj
        subst hje
        rw [lineEnd_new, ← hi.taken, hk0, ← hj]
  | logRecv t hg hr hlog hbuf hin hrx hw =>
    rw [hg]; exact ⟨by rw [hbuf, hin]; exact hi.bytes, hi.taken, by rw [hrx]; exact hi.lines, hi.slen, hi.ends⟩
  | logSend t hg hlog hbuf hin hrx hw =>
    rw [hg]; exact ⟨by rw [hbuf, hin]; exact hi.bytes, hi.taken, by rw [hrx]; exact hi.lines, hi.slen, hi.ends⟩
  | write e hg hw hlog hbuf hin hrx =>
    rw [hg]; exact ⟨by rw [hbuf, hin]; exact hi.bytes, hi.taken, by rw [hrx]; exact hi.lines, hi.slen, hi.ends⟩
  | other hg hpend hw hlog hrx =>
    rw [hg]; exact ⟨by rw [hpend]; exact hi.bytes, hi.taken, by rw [hrx]; exact hi.lines, hi.slen, hi.ends⟩

/-! ### stamps are bounded by the wire, and a `Received` entry comes after the `Send` entries of its stamp -/

theorem snoc_eq_append_cons {α : Type} (a pre post : List α) (x y : α) (h : a ++ [x] = pre ++ y :: post) :
    (post = [] ∧ a = pre ∧ x = y) ∨ ∃ post', post = post' ++ [x] ∧ a = pre ++ y :: post' := by
  rcases List.eq_nil_or_concat post with rfl | ⟨post', z, rfl⟩
  · left
    have := List.append_inj' h rfl
    simp at this
    exact ⟨rfl, this.1, this.2⟩
  · right
    have h' : a ++ [x] = (pre ++ y :: post') ++ [z] := by simpa using h
    have := List.append_inj' h' rfl
    simp at this
    obtain ⟨h1, rfl⟩ := this
    exact ⟨post', by simp, by simpa using h1⟩

theorem logRecvs_eq (s : St) : logRecvs s = recvsOf s.log := rfl
theorem logSends_eq (s : St) : logSends s = sendsOf s.log := rfl

theorem recvsOf_decomp (pre post : List LogEntry) (r : String) :
    recvsOf (pre ++ .received r :: post) = recvsOf pre ++ r :: recvsOf post := by
  simp [recvsOf]

theorem sendsOf_decomp (pre post : List LogEntry) (r : String) :
    sendsOf (pre ++ .received r :: post) = sendsOf pre ++ sendsOf post := by
  simp [sendsOf]

theorem recvInv (P : Params) (s : St) (h : Reachable P s) : RecvInv s :=
  reachable_induction P RecvInv (by simp [RecvInv, logRecvs, isLine0]) (recvInv_step P) s h

theorem wire_le_sends (P : Params) (s : St) (h : Reachable P s) : s.wire.length ≤ (sendsOf s.log).length := by
  obtain ⟨extra, h1, _⟩ := sends_faithful P s h
  have : (sendsOf s.log).length = (wireTexts s ++ extra).length := by rw [← h1]; rfl
  rw [this]; simp [wireTexts]

structure OrderInv (s : St) (g : Ghost) : Prop where
  fedLe : ∀ x ∈ g.fed, x.2 ≤ s.wire.length
  stampLe : ∀ k ∈ g.stamps, k ≤ s.wire.length
  order : ∀ pre r post, s.log = pre ++ .received r :: post →
    ∀ k, g.stamps[(recvsOf pre).length]? = some k → k ≤ (sendsOf pre).length

theorem orderInv_init : OrderInv {} {} := by
  constructor <;> simp

theorem orderInv_step (P : Params) (s : St) (g : Ghost) (s' : St) (l : Label) (o : Option Obs)
    (hreach : Reachable P s) (hst : StreamInv s g) (hi : OrderInv s g) (hs : step P s l = some (s', o)) :
    OrderInv s' (gstep s l g) := by
  cases step_xkind P s s' l o hs with
  | feed bytes hl hin hbuf hw hlog hrx =>
    subst hl
    refine ⟨?_, by rw [hw]; exact hi.stampLe, by rw [hlog]; exact hi.order⟩
    intro x hx
    simp only [gstep, List.mem_append, List.mem_map] at hx
    rcases hx with hx | ⟨b, _, rfl⟩
    · rw [hw]; exact hi.fedLe x hx
    · rw [hw]; exact Nat.le_refl _
  | split p rest hl hr hsp hbuf hin hrx hw hlog =>
    subst hl
    have hg : gstep s .r g = gsplit g p := by simp [gstep, hr, hsp]
    rw [hg]
    unfold gsplit
    refine ⟨by rw [hw]; exact hi.fedLe, ?_, ?_⟩
    · intro k hk
      simp only [List.mem_append, List.mem_singleton] at hk
      rw [hw]
      rcases hk with hk | rfl
      · exact hi.stampLe k hk
      · cases hf : g.fed[g.taken + p.length + 1]? with
        | none => simp
        | some x => simpa using hi.fedLe x (List.mem_of_getElem? hf)
    · intro pre r post hl k hk
      rw [hlog] at hl
      simp only at hk
      -- the entry is an old one: its index is below the number of lines taken out so far
      obtain ⟨extra, he, _⟩ := receives_faithful P s hreach
      have h1 : (recvsOf pre).length < g.stamps.length := by
        have : logRecvs s = recvsOf pre ++ r :: recvsOf post := by
          rw [logRecvs_eq, hl, recvsOf_decomp]
        have h2 : s.rxLines.length = g.stamps.length := by rw [hst.lines, hst.slen]; simp
        rw [← h2, he, this]; simp
      rw [List.getElem?_append_left h1] at hk
      exact hi.order pre r post hl k hk
  | logRecv t hg hr hlog hbuf hin hrx hw =>
    rw [hg]
    refine ⟨by rw [hw]; exact hi.fedLe, by rw [hw]; exact hi.stampLe, ?_⟩
    intro pre r post hl k hk
    rw [hlog] at hl
    rcases snoc_eq_append_cons _ _ _ _ _ hl with ⟨_, rfl, _⟩ | ⟨post', _, hl'⟩
    · exact Nat.le_trans (hi.stampLe k (List.mem_of_getElem? hk)) (wire_le_sends P s hreach)
    · exact hi.order pre r post' hl' k hk
  | logSend t hg hlog hbuf hin hrx hw =>
    rw [hg]
    refine ⟨by rw [hw]; exact hi.fedLe, by rw [hw]; exact hi.stampLe, ?_⟩
    intro pre r post hl k hk
    rw [hlog] at hl
    rcases snoc_eq_append_cons _ _ _ _ _ hl with ⟨_, _, h3⟩ | ⟨post', _, hl'⟩
    · cases h3
    · exact hi.order pre r post' hl' k hk
  | write e hg hw hlog hbuf hin hrx =>
    rw [hg]
    refine ⟨?_, ?_, by rw [hlog]; exact hi.order⟩
    · intro x hx; have := hi.fedLe x hx; rw [hw]; simp; omega
    · intro k hk; have := hi.stampLe k hk; rw [hw]; simp; omega
  | other hg hpend hw hlog hrx =>
    rw [hg]
    exact ⟨by rw [hw]; exact hi.fedLe, by rw [hw]; exact hi.stampLe, by rw [hlog]; exact hi.order⟩

/-- both invariants hold along every execution of model and ghost from the initial state -/
theorem ghost_invariants (P : Params) (ls : List Label) (s : St) (g : Ghost)
    (h : grun P {} {} ls = some (s, g)) : StreamInv s g ∧ OrderInv s g :=
  grun_invariant P (fun s g => StreamInv s g ∧ OrderInv s g)
    (fun s g s' l o hr hi hs => ⟨streamInv_step P s g s' l o hi.1 hs, orderInv_step P s g s' l o hr hi.1 hi.2 hs⟩)
    ls {} s {} g ⟨[], rfl⟩ ⟨streamInv_init, orderInv_init⟩ h

/-! ### what happens after an intermediate state -/

/-- relative to an intermediate state with wire `w0` and `n0` fed bytes: the wire has only grown and every
    byte fed since carries a stamp of at least `w0.length` -/
def LateInv (w0 : List (Nat × String × Option Nat)) (n0 : Nat) (s : St) (g : Ghost) : Prop :=
  (∃ ext, s.wire = w0 ++ ext) ∧ ∀ i x, n0 ≤ i → g.fed[i]? = some x → w0.length ≤ x.2

theorem lateInv_step (P : Params) (w0 : List (Nat × String × Option Nat)) (n0 : Nat)
    (s : St) (g : Ghost) (s' : St) (l : Label) (o : Option Obs)
    (hi : LateInv w0 n0 s g) (hs : step P s l = some (s', o)) : LateInv w0 n0 s' (gstep s l g) := by
  obtain ⟨⟨ext, hext⟩, hfed⟩ := hi
  cases step_xkind P s s' l o hs with
  | feed bytes hl hin hbuf hw hlog hrx =>
    subst hl
    refine ⟨⟨ext, by rw [hw]; exact hext⟩, ?_⟩
    intro i x hn hx
    simp only [gstep] at hx
    rcases Nat.lt_or_ge i g.fed.length with hlt | hge
    · rw [List.getElem?_append_left hlt] at hx
      exact hfed i x hn hx
    · rw [List.getElem?_append_right hge] at hx
      have := List.mem_of_getElem? hx
      simp only [List.mem_map] at this
      obtain ⟨b, _, rfl⟩ := this
      rw [hext]; simp
  | split p rest hl hr hsp hbuf hin hrx hw hlog =>
    subst hl
    have hg : gstep s .r g = gsplit g p := by simp [gstep, hr, hsp]
    rw [hg]
    exact ⟨⟨ext, by rw [hw]; exact hext⟩, hfed⟩
  | logRecv t hg hr hlog hbuf hin hrx hw => rw [hg]; exact ⟨⟨ext, by rw [hw]; exact hext⟩, hfed⟩
  | logSend t hg hlog hbuf hin hrx hw => rw [hg]; exact ⟨⟨ext, by rw [hw]; exact hext⟩, hfed⟩
  | write e hg hw hlog hbuf hin hrx =>
    rw [hg]; exact ⟨⟨ext ++ [e], by rw [hw, hext]; simp⟩, hfed⟩
  | other hg hpend hw hlog hrx => rw [hg]; exact ⟨⟨ext, by rw [hw]; exact hext⟩, hfed⟩

theorem late_stamps (P : Params) (ls : List Label) (s1 s : St) (g1 g : Ghost) (hr : Reachable P s1)
    (h : grun P s1 g1 ls = some (s, g)) : LateInv s1.wire g1.fed.length s g := by
  refine grun_invariant P (LateInv s1.wire g1.fed.length)
    (fun s g s' l o _ hi hs => lateInv_step P _ _ s g s' l o hi hs) ls s1 s g1 g hr ⟨⟨[], by simp⟩, ?_⟩ h
  intro i x hn hx
  rw [List.getElem?_eq_none hn] at hx; cases hx

/-- the wire is append-only along every execution -/
theorem wire_grows (P : Params) (ls : List Label) (s1 s : St) (h : run P s1 ls = some s) :
    ∃ ext, s.wire = s1.wire ++ ext := by
  refine run_invariant P (fun s => ∃ ext, s.wire = s1.wire ++ ext) ?_ ls s1 s ⟨[], by simp⟩ h
  intro s s' l o ⟨ext, hext⟩ hs
  cases step_xkind P s s' l o hs with
  | feed bytes hl hin hbuf hw hlog hrx => exact ⟨ext, by rw [hw]; exact hext⟩
  | split p rest hl hr hsp hbuf hin hrx hw hlog => exact ⟨ext, by rw [hw]; exact hext⟩
  | logRecv t hg hr hlog hbuf hin hrx hw => exact ⟨ext, by rw [hw]; exact hext⟩
  | logSend t hg hlog hbuf hin hrx hw => exact ⟨ext, by rw [hw]; exact hext⟩
  | write e hg hw hlog hbuf hin hrx => exact ⟨ext ++ [e], by rw [hw, hext]; simp⟩
  | other hg hpend hw hlog hrx => exact ⟨ext, by rw [hw]; exact hext⟩

/-! ### assembling the causality statement -/

/-- a `Received` entry of the log: the line it records, the stamp of that line, and the `Send` entries
    that precede it -/
theorem received_after_stamped_sends (P : Params) (ls : List Label) (s : St) (g : Ghost)
    (h : grun P {} {} ls = some (s, g))
    (pre post : List LogEntry) (r : String) (hlog : s.log = pre ++ .received r :: post) :
    ∃ p k, g.raw[(recvsOf pre).length]? = some p ∧ decodeLine p = r ∧
      g.stamps[(recvsOf pre).length]? = some k ∧
      g.fed[lineEnd g.raw (recvsOf pre).length]? = some (LF, k) ∧
      k ≤ s.wire.length ∧ (wireTexts s).take k <+: sendsOf pre := by
  have hreach : Reachable P s := grun_reachable P ls {} s {} g ⟨[], rfl⟩ h
  obtain ⟨hst, hord⟩ := ghost_invariants P ls s g h
  obtain ⟨extra, he, _⟩ := receives_faithful P s hreach
  have hrecv : logRecvs s = recvsOf pre ++ r :: recvsOf post := by rw [logRecvs_eq, hlog, recvsOf_decomp]
  -- the entry is the record of line number `j`
  have hj : (s.rxLines)[(recvsOf pre).length]? = some r := by
    rw [he, hrecv, List.append_assoc]; simp
  rw [hst.lines, List.getElem?_map] at hj
  cases hp : g.raw[(recvsOf pre).length]? with
  | none => rw [hp] at hj; cases hj
  | some p =>
    rw [hp] at hj
    simp only [Option.map_some, Option.some.injEq] at hj
    have hlt : (recvsOf pre).length < g.stamps.length := by
      rw [hst.slen]
      rcases Nat.lt_or_ge (recvsOf pre).length g.raw.length with h' | h'
      · exact h'
      · rw [List.getElem?_eq_none h'] at hp; cases hp
    have hk : g.stamps[(recvsOf pre).length]? = some (g.stamps[(recvsOf pre).length]) :=
      List.getElem?_eq_getElem hlt
    refine ⟨p, _, rfl, hj, hk, hst.ends _ _ hk, hord.stampLe _ (List.getElem_mem hlt), ?_⟩
    have hk1 := hord.order pre r post hlog _ hk
    have hk2 := hord.stampLe _ (List.getElem_mem hlt)
    obtain ⟨ex, hs1, _⟩ := sends_faithful P s hreach
    rw [logSends_eq, hlog, sendsOf_decomp] at hs1
    generalize g.stamps[(recvsOf pre).length] = k at hk1 hk2
    have e1 : (wireTexts s).take k = (wireTexts s ++ ex).take k := by
      rw [List.take_append_of_le_length (by simpa [wireTexts] using hk2)]
    have e2 : (sendsOf pre ++ sendsOf post).take k = (sendsOf pre).take k := by
      rw [List.take_append_of_le_length hk1]
    rw [e1, ← hs1, e2]
    exact List.take_prefix _ _

end Ynca.L4
