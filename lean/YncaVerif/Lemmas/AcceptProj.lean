import YncaVerif.Lemmas.AcceptSound
import YncaVerif.Lemmas.C08
import YncaVerif.Lemmas.C15
/-! Projection of an explained trace onto the model's ghost history: what the acceptor's verdict implies about the
OBSERVED events themselves (times and texts of writes, number of disconnect-callback invocations). -/
namespace Ynca.L4

def obsWrites (now : Nat) : Option Obs → List (Nat × String)
  | some (.write t) => [(now, t)]
  | _ => []

def wireTT (s : St) : List (Nat × String) := s.wire.map (fun e => (e.1, e.2.1))

@[simp] theorem wireTT_setUpc (s : St) (t : Tid) (p : UPc) : wireTT (setUpc s t p) = wireTT s := by simp [wireTT]

/-- the ghost `wire` grows exactly by the observed writes, stamped with the model's clock -/
theorem step_wire (P : Params) (s s' : St) (l : Label) (o : Option Obs) (h : step P s l = some (s', o)) :
    wireTT s' = wireTT s ++ obsWrites s.now o := by
  l4_step_cases h <;> simp [wireTT, obsWrites]

def obsDisc : Option Obs → Nat
  | some .discCb => 1
  | _ => 0

@[simp] theorem discCalls_setUpc' (s : St) (t : Tid) (p : UPc) : (setUpc s t p).discCalls = s.discCalls := by
  unfold setUpc; split <;> rfl

theorem step_disc (P : Params) (s s' : St) (l : Label) (o : Option Obs) (h : step P s l = some (s', o)) :
    s'.discCalls = s.discCalls + obsDisc o := by
  l4_step_cases h <;> simp [obsDisc]

/-- writes listed in an observed trace: (time, text) -/
def traceWrites : List (Nat × Ev) → List (Nat × String)
  | [] => []
  | (t, .output (.write x)) :: r => (t, x) :: traceWrites r
  | _ :: r => traceWrites r

/-- disconnect-callback invocations listed in an observed trace -/
def traceDiscs : List (Nat × Ev) → Nat
  | [] => 0
  | (_, .output .discCb) :: r => 1 + traceDiscs r
  | _ :: r => traceDiscs r

theorem traceWrites_append (a b : List (Nat × Ev)) : traceWrites (a ++ b) = traceWrites a ++ traceWrites b := by
  induction a with
  | nil => rfl
  | cons e a ih =>
    obtain ⟨t, e⟩ := e
    cases e with
    | output o => cases o <;> simp [traceWrites, ih]
    | _ => simp [traceWrites, ih]

theorem traceDiscs_append (a b : List (Nat × Ev)) : traceDiscs (a ++ b) = traceDiscs a + traceDiscs b := by
  induction a with
  | nil => simp [traceDiscs]
  | cons e a ih =>
    obtain ⟨t, e⟩ := e
    cases e with
    | output o => cases o <;> simp [traceDiscs, ih] <;> omega
    | _ => simp [traceDiscs, ih]

theorem input_no_write (P : Params) (s s' : St) (l : Label) (o : Option Obs) (hl : isThreadLabel l = false)
    (h : step P s l = some (s', o)) : obsWrites s.now o = [] ∧ obsDisc o = 0 := by
  cases l <;> simp [isThreadLabel] at hl <;> l4_step_cases h <;> simp [obsWrites, obsDisc]

/-- with writes visible, the writes of an explained trace are exactly the model's ghost wire (times and texts) -/
theorem Expl.writes {P : Params} {hidden : List String} {pre : List (Nat × Ev)} {s : St} (h : Expl P hidden pre s)
    (hv : hidden.contains "write" = false) : traceWrites pre = wireTT s := by
  induction h with
  | init => rfl
  | @tau pre s s' l o _ _ hs ho ih =>
    rw [step_wire _ _ _ _ _ hs, ← ih]
    cases o with
    | none => simp [obsWrites]
    | some o =>
      cases o <;> simp [obsWrites]
      simp [hiddenObs, obsKind] at ho
      simp at hv
      exact absurd ho hv
  | input _ hl hs ih =>
    rw [step_wire _ _ _ _ _ hs, ← ih, traceWrites_append, (input_no_write _ _ _ _ _ hl hs).1]
    simp [traceWrites]
  | @output pre s s' l o _ _ hs _ ih =>
    rw [step_wire _ _ _ _ _ hs, ← ih, traceWrites_append]
    cases o <;> simp [traceWrites, obsWrites]
  | @hiddenOutput pre s o _ ho ih =>
    rw [← ih, traceWrites_append]
    cases o <;> simp [traceWrites]
    simp [obsKind] at ho
    simp at hv
    exact absurd ho hv
  | snapshot _ _ ih => rw [← ih, traceWrites_append]; simp [traceWrites]
  | stop _ ih => rw [← ih, traceWrites_append]; simp [traceWrites]

theorem Expl.discs {P : Params} {hidden : List String} {pre : List (Nat × Ev)} {s : St} (h : Expl P hidden pre s)
    (hv : hidden.contains "disc" = false) : traceDiscs pre = s.discCalls := by
  induction h with
  | init => rfl
  | @tau pre s s' l o _ _ hs ho ih =>
    rw [step_disc _ _ _ _ _ hs, ← ih]
    cases o with
    | none => simp [obsDisc]
    | some o =>
      cases o <;> simp [obsDisc]
      simp [hiddenObs, obsKind] at ho
      simp at hv
      exact absurd ho hv
  | input _ hl hs ih =>
    rw [step_disc _ _ _ _ _ hs, ← ih, traceDiscs_append, (input_no_write _ _ _ _ _ hl hs).2]
    simp [traceDiscs]
  | @output pre s s' l o _ _ hs _ ih =>
    rw [step_disc _ _ _ _ _ hs, ← ih, traceDiscs_append]
    cases o <;> simp [traceDiscs, obsDisc]
  | @hiddenOutput pre s o _ ho ih =>
    rw [← ih, traceDiscs_append]
    cases o <;> simp [traceDiscs]
    simp [obsKind] at ho
    simp at hv
    exact absurd ho hv
  | snapshot _ _ ih => rw [← ih, traceDiscs_append]; simp [traceDiscs]
  | stop _ ih => rw [← ih, traceDiscs_append]; simp [traceDiscs]

end Ynca.L4
