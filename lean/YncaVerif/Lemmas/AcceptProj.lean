import YncaVerif.Lemmas.AcceptSound
import YncaVerif.Lemmas.C08
import YncaVerif.Lemmas.C15
import YncaVerif.Lemmas.C12
import YncaVerif.Lemmas.C01
/-! Projection of an explained trace onto the model's ghost history: what the acceptor's verdict implies about the
OBSERVED events themselves (times and texts of writes, number of disconnect-callback invocations). -/
namespace Ynca.L4

def obsWrites (now : Nat) : Option Obs → List (Nat × String)
  | some (.write t) => [(now, t)]
  | _ => []

def wireTT (s : St) : List (Nat × String) := s.wire.map (fun e => (e.1, e.2.1))

@[simp] theorem wireTT_setUpc (s : St) (t : Tid) (p : UPc) : wireTT (setUpc s t p) = wireTT s := by simp [wireTT]

/-- the ghost `wire` grows exactly by the observed writes, stamped with the model's clock -/
theorem step_wire (P : Params) (s s' : St) (l : Label) (o : Option Obs) (h : step P s l = some (s', o)) :
    wireTT s' = wireTT s ++ obsWrites s.now o := by
  l4_step_cases h <;> simp [wireTT, obsWrites]

def obsDisc : Option Obs → Nat
  | some .discCb => 1
  | _ => 0

@[simp] theorem discCalls_setUpc' (s : St) (t : Tid) (p : UPc) : (setUpc s t p).discCalls = s.discCalls := by
  unfold setUpc; split <;> rfl

theorem step_disc (P : Params) (s s' : St) (l : Label) (o : Option Obs) (h : step P s l = some (s', o)) :
    s'.discCalls = s.discCalls + obsDisc o := by
  l4_step_cases h <;> simp [obsDisc]

/-- writes listed in an observed trace: (time, text) -/
def traceWrites : List (Nat × Ev) → List (Nat × String)
  | [] => []
  | (t, .output (.write x)) :: r => (t, x) :: traceWrites r
  | _ :: r => traceWrites r

/-- disconnect-callback invocations listed in an observed trace -/
def traceDiscs : List (Nat × Ev) → Nat
  | [] => 0
  | (_, .output .discCb) :: r => 1 + traceDiscs r
  | _ :: r => traceDiscs r

theorem traceWrites_append (a b : List (Nat × Ev)) : traceWrites (a ++ b) = traceWrites a ++ traceWrites b := by
  induction a with
  | nil => rfl
  | cons e a ih =>
    obtain ⟨t, e⟩ := e
    cases e with
    | output o => cases o <;> simp [traceWrites, ih]
    | _ => simp [traceWrites, ih]

theorem traceDiscs_append (a b : List (Nat × Ev)) : traceDiscs (a ++ b) = traceDiscs a + traceDiscs b := by
  induction a with
  | nil => simp [traceDiscs]
  | cons e a ih =>
    obtain ⟨t, e⟩ := e
    cases e with
    | output o => cases o <;> simp [traceDiscs, ih] <;> omega
    | _ => simp [traceDiscs, ih]

theorem input_no_write (P : Params) (s s' : St) (l : Label) (o : Option Obs) (hl : isThreadLabel l = false)
    (h : step P s l = some (s', o)) : obsWrites s.now o = [] ∧ obsDisc o = 0 := by
  cases l <;> simp [isThreadLabel] at hl <;> l4_step_cases h <;> simp [obsWrites, obsDisc]

/-- with writes visible, the writes of an explained trace are exactly the model's ghost wire (times and texts) -/
theorem Expl.writes {P : Params} {hidden : List String} {pre : List (Nat × Ev)} {s : St} (h : Expl P hidden pre s)
    (hv : hidden.contains "write" = false) : traceWrites pre = wireTT s := by
  induction h with
  | init => rfl
  | @tau pre s s' l o _ _ hs ho ih =>
    rw [step_wire _ _ _ _ _ hs, ← ih]
    cases o with
    | none => simp [obsWrites]
    | some o =>
      cases o <;> simp [obsWrites]
      simp [hiddenObs, obsKind] at ho
      simp at hv
      exact absurd ho hv
  | input _ hl hs ih =>
    rw [step_wire _ _ _ _ _ hs, ← ih, traceWrites_append, (input_no_write _ _ _ _ _ hl hs).1]
    simp [traceWrites]
  | @output pre s s' l o _ _ hs _ ih =>
    rw [step_wire _ _ _ _ _ hs, ← ih, traceWrites_append]
    cases o <;> simp [traceWrites, obsWrites]
  | @hiddenOutput pre s o _ ho ih =>
    rw [← ih, traceWrites_append]
    cases o <;> simp [traceWrites]
    simp [obsKind] at ho
    simp at hv
    exact absurd ho hv
  | snapshot _ _ ih => rw [← ih, traceWrites_append]; simp [traceWrites]
  | stop _ ih => rw [← ih, traceWrites_append]; simp [traceWrites]

theorem Expl.discs {P : Params} {hidden : List String} {pre : List (Nat × Ev)} {s : St} (h : Expl P hidden pre s)
    (hv : hidden.contains "disc" = false) : traceDiscs pre = s.discCalls := by
  induction h with
  | init => rfl
  | @tau pre s s' l o _ _ hs ho ih =>
    rw [step_disc _ _ _ _ _ hs, ← ih]
    cases o with
    | none => simp [obsDisc]
    | some o =>
      cases o <;> simp [obsDisc]
      simp [hiddenObs, obsKind] at ho
      simp at hv
      exact absurd ho hv
  | input _ hl hs ih =>
    rw [step_disc _ _ _ _ _ hs, ← ih, traceDiscs_append, (input_no_write _ _ _ _ _ hl hs).2]
    simp [traceDiscs]
  | @output pre s s' l o _ _ hs _ ih =>
    rw [step_disc _ _ _ _ _ hs, ← ih, traceDiscs_append]
    cases o <;> simp [traceDiscs, obsDisc]
  | @hiddenOutput pre s o _ ho ih =>
    rw [← ih, traceDiscs_append]
    cases o <;> simp [traceDiscs]
    simp [obsKind] at ho
    simp at hv
    exact absurd ho hv
  | snapshot _ _ ih => rw [← ih, traceDiscs_append]; simp [traceDiscs]
  | stop _ ih => rw [← ih, traceDiscs_append]; simp [traceDiscs]

end Ynca.L4

/-! ### C01 on the observed trace: every written line is the probe or the unchanged text of an earlier call -/
namespace Ynca.L4
open Ynca.L4.C12L

/-- command texts handed to put / get / raw, in the order the calls began -/
def traceCalls : List (Nat × Ev) → List String
  | [] => []
  | (_, .input (.call _ x)) :: r => x :: traceCalls r
  | _ :: r => traceCalls r

theorem traceCalls_append (a b : List (Nat × Ev)) : traceCalls (a ++ b) = traceCalls a ++ traceCalls b := by
  induction a with
  | nil => rfl
  | cons e a ih =>
    obtain ⟨t, e⟩ := e
    cases e with
    | input l => cases l <;> simp [traceCalls, ih]
    | _ => simp [traceCalls, ih]

/-- every submission recorded by the model, and every submission a thread is about to make, carries a text some call was given -/
def SubmInv (texts : List String) (s : St) : Prop :=
  (∀ e ∈ s.submitted, e.2.2 ∈ texts) ∧ (∀ t x, upcOf s t = .submitting x → x ∈ texts)

theorem SubmInv.mono {a b : List String} {s : St} (h : SubmInv a s) (hab : ∀ x ∈ a, x ∈ b) : SubmInv b s :=
  ⟨fun e he => hab _ (h.1 e he), fun t x hx => hab _ (h.2 t x hx)⟩

@[simp] theorem submitted_setUpc' (s : St) (t : Tid) (p : UPc) : (setUpc s t p).submitted = s.submitted := by
  unfold setUpc; split <;> rfl

/-- steps other than the start of a call keep the invariant -/
theorem submInv_step (P : Params) (texts : List String) (s s' : St) (l : Label) (o : Option Obs) (hi : SubmInv texts s)
    (hl : ∀ t x, l ≠ .call t x) (hs : step P s l = some (s', o)) : SubmInv texts s' := by
  obtain ⟨h1, h2⟩ := hi
  cases l <;> simp only [step] at hs
  case call t x => exact absurd rfl (hl t x)
  case s => l4_split_s hs <;> exact ⟨h1, h2⟩
  case r => l4_split_r hs <;> exact ⟨h1, h2⟩
  case u t =>
    l4_split_u hs
    all_goals
      refine ⟨?_, ?_⟩
      · intro e he
        simp only [submitted_setUpc'] at he
        first
          | exact h1 e he
          | (simp only [List.mem_append, List.mem_cons, List.not_mem_nil, or_false] at he
             rcases he with he | he
             · exact h1 e he
             · subst he; exact h2 _ _ ‹_›)
      · intro t' x hx
        rw [upcOf_setUpc] at hx
        split at hx
        · simp at hx
        · exact h2 t' x hx
  case callClose t =>
    (repeat' split at hs) <;> simp at hs <;> obtain ⟨rfl, rfl⟩ := hs <;>
      (refine ⟨by intro e he; simp only [submitted_setUpc'] at he; exact h1 e he, ?_⟩
       intro t' x hx
       rw [upcOf_setUpc] at hx
       split at hx
       · simp at hx
       · exact h2 t' x hx)
  all_goals (l4_split_other hs <;> exact ⟨h1, h2⟩)

theorem Expl.submInv {P : Params} {hidden : List String} {pre : List (Nat × Ev)} {s : St} (h : Expl P hidden pre s) :
    SubmInv (traceCalls pre) s := by
  induction h with
  | init => exact ⟨by simp, by intro t x hx; simp [upcOf, lookup] at hx⟩
  | @tau pre s s' l o _ hl hs _ ih =>
    exact submInv_step P _ s s' l o ih (by intro t x e; subst e; simp [isThreadLabel] at hl) hs
  | @input pre s s' l o _ hl hs ih =>
    rw [traceCalls_append]
    by_cases hc : ∃ t x, l = .call t x
    · obtain ⟨t, x, rfl⟩ := hc
      simp only [step] at hs
      split at hs
      · simp at hs; obtain ⟨rfl, rfl⟩ := hs
        refine ⟨fun e he => ?_, fun t' y hy => ?_⟩
        · simp only [submitted_setUpc'] at he
          exact List.mem_append_left _ (ih.1 e he)
        · rw [upcOf_setUpc] at hy
          split at hy
          · simp at hy; subst hy; simp [traceCalls]
          · exact List.mem_append_left _ (ih.2 t' y hy)
      · simp at hs
    · have hc' : ∀ t x, l ≠ .call t x := fun t x e => hc ⟨t, x, e⟩
      exact (submInv_step P _ s s' l o ih hc' hs).mono (fun x hx => List.mem_append_left _ hx)
  | @output pre s s' l o _ hl hs _ ih =>
    rw [traceCalls_append]
    exact (submInv_step P _ s s' l _ ih (by intro t x e; subst e; simp [isThreadLabel] at hl) hs).mono
      (fun x hx => List.mem_append_left _ hx)
  | hiddenOutput _ _ ih => rw [traceCalls_append]; exact ih.mono (fun x hx => List.mem_append_left _ hx)
  | snapshot _ _ ih => rw [traceCalls_append]; exact ih.mono (fun x hx => List.mem_append_left _ hx)
  | stop _ ih => rw [traceCalls_append]; exact ih.mono (fun x hx => List.mem_append_left _ hx)

end Ynca.L4
