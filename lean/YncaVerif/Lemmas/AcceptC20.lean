import YncaVerif.Lemmas.AcceptC12
import YncaVerif.Lemmas.C20
/-! C20 on the observed trace: what a log snapshot taken at some moment may contain. -/
namespace Ynca.L4

theorem logEntry_eq_of_beq (a b : LogEntry) (h : (a == b) = true) : a = b := by
  cases a with
  | send x => cases b with
    | send y => have h' : (x == y) = true := h
                simp at h'; rw [h']
    | received y => cases h
  | received x => cases b with
    | send y => cases h
    | received y => have h' : (x == y) = true := h
                    simp at h'; rw [h']

theorem logList_eq_of_beq : ∀ (a b : List LogEntry), (a == b) = true → a = b
  | [], [], _ => rfl
  | [], _ :: _, h => by cases h
  | _ :: _, [], h => by cases h
  | x :: xs, y :: ys, h => by
    have h' : ((x == y) && (xs == ys)) = true := h
    simp only [Bool.and_eq_true] at h'
    rw [logEntry_eq_of_beq x y h'.1, logList_eq_of_beq xs ys h'.2]

/-- an explained trace that ends with a snapshot: the snapshot is the log ring of a state explaining what came before -/
theorem Expl.last_snapshot {P : Params} {hidden : List String} {evs : List (Nat × Ev)} {s : St} (h : Expl P hidden evs s) :
    ∀ pre tm es, evs = pre ++ [(tm, Ev.snapshot es)] → ∃ s0, Expl P hidden pre s0 ∧ logRing P s0 = es := by
  induction h with
  | init => intro pre tm es h; simp at h
  | tau _ _ _ _ ih => exact ih
  | @input pre0 s s' l o he hl hs ih => intro pre tm es h; have := List.append_inj_right' h rfl; simp at this
  | @output pre0 s s' l o he hl hs hvis ih => intro pre tm es h; have := List.append_inj_right' h rfl; simp at this
  | @hiddenOutput pre0 s o he ho ih => intro pre tm es h; have := List.append_inj_right' h rfl; simp at this
  | @snapshot pre0 s es0 he hq ih =>
    intro pre tm es h
    have h1 := List.append_inj_left' h rfl
    have h2 := List.append_inj_right' h rfl
    simp at h2
    subst h1
    obtain ⟨_, rfl⟩ := h2
    exact ⟨s, he, logList_eq_of_beq _ _ hq⟩
  | @stop pre0 s he ih => intro pre tm es h; have := List.append_inj_right' h rfl; simp at this

def snapshotSends (es : List LogEntry) : List String := es.filterMap (fun e => match e with | .send t => some t | _ => none)

theorem ring_suffix {α : Type} (N : Nat) (l : List α) : ring N l <:+ l := by
  unfold ring; exact List.drop_suffix _ _

theorem ring_length {α : Type} (N : Nat) (l : List α) : (ring N l).length ≤ N := by
  unfold ring; simp; omega

end Ynca.L4
