import YncaVerif.Model.Framing
/-! Helper lemmas for C02 (framing, UTF-8, line parser). -/
namespace Ynca

/-! ### framing -/
section
variable {α : Type} [DecidableEq α]

theorem splitFirst_append_some (a b : α) (l m p r : List α)
    (h : splitFirst a b l = some (p, r)) : splitFirst a b (l ++ m) = some (p, r ++ m) := by
  fun_induction splitFirst a b l generalizing p r with
  | case1 => simp at h
  | case2 => simp at h
  | case3 x y rest hxy => simp at h; obtain ⟨rfl, rfl⟩ := h; simp [splitFirst, hxy]
  | case4 x y rest hxy p' r' heq ih =>
    simp at h; obtain ⟨rfl, rfl⟩ := h
    have := ih p' r' heq
    simp only [List.cons_append] at this ⊢
    simp [splitFirst, hxy, this]
  | case5 x y rest hxy heq => simp at h

theorem splitAll_none (a b : α) (l : List α) (h : splitFirst a b l = none) :
    splitAll a b l = ([], l) := by
  rw [splitAll]; split
  · rfl
  · rename_i p r h'; simp [h] at h'

theorem splitAll_some (a b : α) (l p r : List α) (h : splitFirst a b l = some (p, r)) :
    splitAll a b l = (p :: (splitAll a b r).1, (splitAll a b r).2) := by
  rw [splitAll]; split
  · rename_i h'; simp [h] at h'
  · rename_i p' r' h'; simp [h] at h'; obtain ⟨rfl, rfl⟩ := h'; rfl

/-- feeding a stream in two pieces = feeding it whole -/
theorem splitAll_append (a b : α) (l m : List α) :
    splitAll a b (l ++ m) =
      ((splitAll a b l).1 ++ (splitAll a b ((splitAll a b l).2 ++ m)).1,
       (splitAll a b ((splitAll a b l).2 ++ m)).2) := by
  induction hn : l.length using Nat.strongRecOn generalizing l with
  | ind n ih =>
    cases h : splitFirst a b l with
    | none => simp [splitAll_none a b l h]
    | some pr =>
      obtain ⟨p, r⟩ := pr
      have hlen := splitFirst_length a b l p r h
      have h2 := splitFirst_append_some a b l m p r h
      rw [splitAll_some a b (l ++ m) p (r ++ m) h2, splitAll_some a b l p r h]
      have := ih r.length (by omega) r rfl
      simp [this]

/-- the remainder of `splitAll` never holds a complete packet -/
theorem splitAll_rem_none (a b : α) (l : List α) : splitFirst a b (splitAll a b l).2 = none := by
  induction hn : l.length using Nat.strongRecOn generalizing l with
  | ind n ih =>
    cases h : splitFirst a b l with
    | none => simpa [splitAll_none a b l h] using h
    | some pr =>
      obtain ⟨p, r⟩ := pr
      have hlen := splitFirst_length a b l p r h
      rw [splitAll_some a b l p r h]
      exact ih r.length (by omega) r rfl

/-- reading in any partition into chunks = reading the undivided stream, provided the initial
    buffer holds no complete packet (true of every buffer `feed` leaves behind) -/
theorem feedAll_eq_splitAll (a b : α) (buf : List α) (chunks : List (List α))
    (hbuf : splitFirst a b buf = none) :
    feedAll a b buf chunks = splitAll a b (buf ++ chunks.flatten) := by
  induction chunks generalizing buf with
  | nil => simp [feedAll, splitAll_none a b buf hbuf]
  | cons c cs ih =>
    have h1 := ih (splitAll a b (buf ++ c)).2 (splitAll_rem_none a b (buf ++ c))
    have h2 := splitAll_append a b (buf ++ c) cs.flatten
    simp only [feedAll, feed, List.flatten_cons, ← List.append_assoc]
    rw [h1, h2]

/-- a packet-free prefix followed by the terminator is split exactly there -/
theorem splitFirst_append_term (a b : α) (hab : a ≠ b) (l rest : List α)
    (h : splitFirst a b l = none) : splitFirst a b (l ++ a :: b :: rest) = some (l, rest) := by
  fun_induction splitFirst a b l with
  | case1 => simp [splitFirst]
  | case2 x =>
    have : ¬ (x = a ∧ a = b) := fun h => hab h.2
    simp [splitFirst, this]
  | case3 x y rest' hxy => simp at h
  | case4 x y rest' hxy p' r' heq => simp at h
  | case5 x y rest' hxy heq ih =>
    have := ih heq
    simp only [List.cons_append] at this ⊢
    simp [splitFirst, hxy, this]
end

/-- a byte string that does not contain the terminator CR LF -/
def NoCRLF (l : List UInt8) : Prop := splitFirst CR LF l = none

/-- wire image of a list of lines followed by an unterminated tail -/
def wire (lines : List (List UInt8)) (tail : List UInt8) : List UInt8 :=
  (lines.map (· ++ [CR, LF])).flatten ++ tail

theorem splitAll_wire (lines : List (List UInt8)) (tail : List UInt8)
    (hl : ∀ l ∈ lines, NoCRLF l) (ht : NoCRLF tail) :
    splitAll CR LF (wire lines tail) = (lines, tail) := by
  induction lines with
  | nil => simpa [wire] using splitAll_none CR LF tail ht
  | cons l ls ih =>
    have hl' : NoCRLF l := hl l (by simp)
    have ih' := ih (fun x hx => hl x (by simp [hx]))
    have h := splitFirst_append_term CR LF (by decide) l (wire ls tail) hl'
    have e : wire (l :: ls) tail = l ++ CR :: LF :: wire ls tail := by simp [wire]
    rw [e, splitAll_some CR LF _ l (wire ls tail) h, ih']

/-! ### UTF-8 -/

theorem byteArray_toList_loop (bs : ByteArray) (i : Nat) (r : List UInt8) :
    ByteArray.toList.loop bs i r = r.reverse ++ bs.data.toList.drop i := by
  fun_induction ByteArray.toList.loop bs i r with
  | case1 i r h ih =>
    rw [ih]
    have h' : i < bs.data.toList.length := by simpa using h
    rw [List.drop_eq_getElem_cons h']
    simp [ByteArray.get!, getElem!_pos, h]
  | case2 i r h =>
    have : bs.data.toList.length ≤ i := by simpa using h
    simp [List.drop_eq_nil_of_le this]

theorem byteArray_toList (bs : ByteArray) : bs.toList = bs.data.toList := by
  simp [ByteArray.toList, byteArray_toList_loop]

theorem toUTF8_toList (s : String) : s.toUTF8.toList = s.toList.flatMap String.utf8EncodeChar := by
  rw [byteArray_toList, String.toUTF8_eq_toByteArray, ← String.utf8Encode_toList, List.utf8Encode,
    List.toList_data_toByteArray]

theorem utf8EncodeChar_bytes (c : Char) :
    (c.val.toNat ≤ 127 ∧ String.utf8EncodeChar c = [UInt8.ofNat c.val.toNat]) ∨
    (∀ b ∈ String.utf8EncodeChar c, 128 ≤ b.toNat) := by
  unfold String.utf8EncodeChar
  simp only []
  split
  · left; exact ⟨by assumption, rfl⟩
  · right
    split
    · intro b hb; simp at hb; rcases hb with rfl | rfl <;> simp <;> omega
    · split
      · intro b hb; simp at hb; rcases hb with rfl | rfl | rfl <;> simp <;> omega
      · intro b hb; simp at hb; rcases hb with rfl | rfl | rfl | rfl <;> simp <;> omega

theorem splitFirst_cons_none {α : Type} [DecidableEq α] (a b x : α) (m : List α)
    (h : x ≠ a ∨ m.head? ≠ some b) (hm : splitFirst a b m = none) :
    splitFirst a b (x :: m) = none := by
  cases m with
  | nil => simp [splitFirst]
  | cons y rest =>
    have : ¬ (x = a ∧ y = b) := by
      rintro ⟨rfl, rfl⟩; simp at h
    simp [splitFirst, this, hm]

theorem splitFirst_append_none {α : Type} [DecidableEq α] (a b : α) (w m : List α)
    (h : ∀ x ∈ w, x ≠ a) (hm : splitFirst a b m = none) :
    splitFirst a b (w ++ m) = none := by
  induction w with
  | nil => simpa using hm
  | cons x w ih =>
    exact splitFirst_cons_none a b x (w ++ m) (Or.inl (h x (by simp)))
      (ih (fun y hy => h y (by simp [hy])))

theorem char_eq_of_val_toNat (c : Char) (n : Nat) (h : c.val.toNat = n) (hn : n.isValidChar) :
    c = Char.ofNat n := by
  apply Char.ext
  apply UInt32.toNat_inj.1
  rw [h]
  simp [Char.ofNat, hn, Char.ofNatAux]

theorem ofNat_toNat_of_le (v : Nat) (hv : v ≤ 127) : (UInt8.ofNat v).toNat = v := by
  simp; omega

/-- first byte of the encoding is LF only for '\n' -/
theorem head_enc_ne_LF (cs : List Char) (h : cs.head? ≠ some '\n') :
    (cs.flatMap String.utf8EncodeChar).head? ≠ some LF := by
  cases cs with
  | nil => simp
  | cons c cs =>
    rcases utf8EncodeChar_bytes c with ⟨hle, he⟩ | hb
    · simp only [List.flatMap_cons, he, List.singleton_append, List.head?_cons]
      intro heq
      have h10 : c.val.toNat = 10 := by
        have := congrArg UInt8.toNat (Option.some.inj heq)
        rwa [ofNat_toNat_of_le _ hle] at this
      exact h (by rw [char_eq_of_val_toNat c 10 h10 (by decide)]; rfl)
    · have hne := @String.utf8EncodeChar_ne_nil c
      cases he : String.utf8EncodeChar c with
      | nil => exact absurd he hne
      | cons x w =>
        have := hb x (by simp [he])
        simp only [List.flatMap_cons, he, List.cons_append, List.head?_cons]
        intro heq
        rw [Option.some.inj heq] at this
        revert this; decide

theorem enc_noCRLF (cs : List Char) (h : ∀ pre post : List Char, cs ≠ pre ++ '\r' :: '\n' :: post) :
    splitFirst CR LF (cs.flatMap String.utf8EncodeChar) = none := by
  induction cs with
  | nil => simp [splitFirst]
  | cons c cs ih =>
    have ih' := ih (fun pre post e => h (c :: pre) post (by rw [e]; rfl))
    rw [List.flatMap_cons]
    rcases utf8EncodeChar_bytes c with ⟨hle, he⟩ | hb
    · rw [he]
      apply splitFirst_cons_none _ _ _ _ _ ih'
      by_cases h13 : c.val.toNat = 13
      · right
        apply head_enc_ne_LF
        have hc := char_eq_of_val_toNat c 13 h13 (by decide)
        cases cs with
        | nil => simp
        | cons d post =>
          simp only [List.head?_cons]
          intro hd
          apply h [] post
          rw [hc, Option.some.inj hd]; rfl
      · left
        intro heq
        have := congrArg UInt8.toNat heq
        rw [ofNat_toNat_of_le _ hle] at this
        exact h13 this
    · apply splitFirst_append_none _ _ _ _ _ ih'
      intro x hx heq
      have := hb x hx
      rw [heq] at this
      revert this; decide

theorem utf8_noCRLF (s : String)
    (h : ∀ pre post : List Char, s.toList ≠ pre ++ '\r' :: '\n' :: post) :
    NoCRLF s.toUTF8.toList := by
  rw [NoCRLF, toUTF8_toList]
  exact enc_noCRLF s.toList h

/-! ### line parser -/

theorem splitAt1_mem (c : Char) (S rest : List Char) (hS : S ≠ []) (hc : c ∉ S) :
    splitAt1 c (S ++ c :: rest) = some (S, rest) := by
  cases S with
  | nil => exact absurd rfl hS
  | cons x xs =>
    have hxs : ∀ y ∈ xs, (decide (y ≠ c)) = true := by
      intro y hy; simp; rintro rfl; exact hc (by simp [hy])
    simp only [splitAt1, List.cons_append]
    rw [List.dropWhile_append_of_pos hxs, List.takeWhile_append_of_pos hxs]
    simp

theorem matchLine_fields (S F V : List Char) (hS : S ≠ []) (hS' : ':' ∉ S) (hF : F ≠ []) (hF' : '=' ∉ F) :
    matchLine ('@' :: S ++ ':' :: F ++ '=' :: V) = some (S, F, V) := by
  have e : '@' :: S ++ ':' :: F ++ '=' :: V = '@' :: (S ++ ':' :: (F ++ '=' :: V)) := by simp
  rw [e, matchLine]
  simp [splitAt1_mem ':' S _ hS hS', splitAt1_mem '=' F V hF hF']

theorem parseLine_fields (S F V : List Char) (hS : S ≠ []) (hS' : ':' ∉ S) (hF : F ≠ []) (hF' : '=' ∉ F) :
    parseLine (String.ofList ('@' :: S ++ ':' :: F ++ '=' :: V)) =
      ⟨.ok, some (String.ofList S), some (String.ofList F), some (String.ofList V)⟩ := by
  have hmem : ':' ∈ ('@' :: S ++ ':' :: F ++ '=' :: V) := by simp
  have h1 : String.ofList ('@' :: S ++ ':' :: F ++ '=' :: V) ≠ "@UNDEFINED" := by
    intro h
    have := congrArg String.toList h
    rw [String.toList_ofList] at this
    rw [this] at hmem
    revert hmem; decide
  have h2 : String.ofList ('@' :: S ++ ':' :: F ++ '=' :: V) ≠ "@RESTRICTED" := by
    intro h
    have := congrArg String.toList h
    rw [String.toList_ofList] at this
    rw [this] at hmem
    revert hmem; decide
  have hm := matchLine_fields S F V hS hS' hF hF'
  generalize '@' :: S ++ ':' :: F ++ '=' :: V = L at *
  simp only [parseLine, String.toList_ofList, hm, beq_iff_eq, if_neg h1, if_neg h2]

end Ynca
