import YncaVerif.Lemmas.C15x
/-! Helper lemmas for C09x (message-level exactly-once delivery under concurrent and re-entrant
(un)registration, on the L4 model).

The model keeps, for the delivery of one line, only the callbacks of the snapshot that are still to do
(`RPc.deliver l todo`, `RPc.inCb l cb todo`); it keeps no record of the invocations.  `Ghost` is that
record.  It is computed by replaying a label sequence next to the model (`grun`): `gupd` looks at one
step `s --l/o--> s'` of the model and updates the record; it never influences the model. -/
namespace Ynca.L4.D9

/-- ghost record of the current (if `active`) or the most recent delivery -/
structure Ghost where
  seq : Nat := 0                  -- number of snapshots taken so far (identifies the delivery)
  line : String := ""             -- the line being delivered
  snap : List Nat := []           -- the snapshot `tuple(self._message_callbacks)`
  invoked : List Nat := []        -- callbacks invoked for this line, in invocation order
  skipped : List Nat := []        -- callbacks of the snapshot found unregistered when their turn came
  active : Bool := false          -- between the snapshot step and the step that finishes the line
deriving Repr, DecidableEq

/-- what the reader still has to do for the line it is delivering -/
def delivering : RPc → Option (String × List Nat)
  | .deliver l todo => some (l, todo)
  | .inCb l _ todo => some (l, todo)
  | _ => none

/-- ghost update for one model step `s --l/o--> s'`:
* the reader step from `line2` to `deliver ln todo` takes the snapshot `todo`: a new delivery begins;
* a `rCb` step that shows `msgCb c _` at the boundary is an invocation of `c`;
* a `rCb cb` step that shows nothing found `cb` unregistered and skipped it;
* the reader step from `deliver` to `split` finishes the line. -/
def gupd (s : St) (l : Label) (s' : St) (o : Option Obs) (g : Ghost) : Ghost :=
  match l with
  | .rCb cb =>
    match o with
    | some (.msgCb c _) => { g with invoked := g.invoked ++ [c] }
    | _ => { g with skipped := g.skipped ++ [cb] }
  | .r =>
    match s.rpc, s'.rpc with
    | .line2 _ _, .deliver ln todo => { seq := g.seq + 1, line := ln, snap := todo, invoked := [], skipped := [], active := true }
    | .deliver _ _, .split => { g with active := false }
    | _, _ => g
  | _ => g

/-- one step of the model with the ghost record next to it -/
def gstep (P : Params) (sg : St × Ghost) (l : Label) : Option (St × Ghost) :=
  match step P sg.1 l with
  | some (s', o) => some (s', gupd sg.1 l s' o sg.2)
  | none => none

/-- replay of a label sequence -/
def grun (P : Params) : St × Ghost → List Label → Option (St × Ghost)
  | sg, [] => some sg
  | sg, l :: ls => match gstep P sg l with
    | some sg' => grun P sg' ls
    | none => none

/-- reachable from the initial state with the empty record -/
def GReachable (P : Params) (sg : St × Ghost) : Prop := ∃ ls, grun P ({}, {}) ls = some sg

/-! ### the ghost run is the model's run with a passenger -/

theorem grun_fst (P : Params) (ls : List Label) : ∀ (s : St) (g : Ghost),
    (grun P (s, g) ls).map (·.1) = run P s ls := by
  induction ls with
  | nil => intro s g; rfl
  | cons l ls ih =>
    intro s g
    simp only [grun, gstep, run]
    cases step P s l with
    | none => rfl
    | some r => obtain ⟨s', o⟩ := r; exact ih s' _

theorem grun_run {P : Params} {s s' : St} {g g' : Ghost} {ls : List Label}
    (h : grun P (s, g) ls = some (s', g')) : run P s ls = some s' := by
  rw [← grun_fst P ls s g, h]; rfl

theorem run_grun {P : Params} {s s' : St} {ls : List Label} (g : Ghost)
    (h : run P s ls = some s') : ∃ g', grun P (s, g) ls = some (s', g') := by
  have := grun_fst P ls s g
  rw [h] at this
  cases hg : grun P (s, g) ls with
  | none => rw [hg] at this; cases this
  | some sg =>
    obtain ⟨s1, g1⟩ := sg
    rw [hg] at this
    simp only [Option.map_some, Option.some.injEq] at this
    subst this
    exact ⟨g1, rfl⟩

theorem grun_append (P : Params) (sg : St × Ghost) (a b : List Label) :
    grun P sg (a ++ b) = (grun P sg a).bind (fun sg' => grun P sg' b) := by
  induction a generalizing sg with
  | nil => simp [grun]
  | cons l ls ih =>
    simp only [List.cons_append, grun]
    cases gstep P sg l with
    | none => simp
    | some r => simp [ih]

theorem GReachable.reachable {P : Params} {s : St} {g : Ghost} (h : GReachable P (s, g)) : Reachable P s := by
  obtain ⟨ls, h⟩ := h
  exact ⟨ls, grun_run h⟩

theorem Reachable.ghost {P : Params} {s : St} (h : Reachable P s) : ∃ g, GReachable P (s, g) := by
  obtain ⟨ls, h⟩ := h
  obtain ⟨g, hg⟩ := run_grun {} h
  exact ⟨g, ls, hg⟩

theorem GReachable.grun {P : Params} {sg sg' : St × Ghost} {ls : List Label}
    (h : GReachable P sg) (hr : grun P sg ls = some sg') : GReachable P sg' := by
  obtain ⟨ls0, h0⟩ := h
  exact ⟨ls0 ++ ls, by rw [grun_append, h0]; simpa using hr⟩

/-- a step invariant of model + record holds along every replay -/
theorem grun_invariant (P : Params) (Inv : St → Ghost → Prop)
    (hstep : ∀ s g s' l o, Inv s g → step P s l = some (s', o) → Inv s' (gupd s l s' o g)) :
    ∀ (ls : List Label) (s0 : St) (g0 : Ghost) (s : St) (g : Ghost),
      Inv s0 g0 → grun P (s0, g0) ls = some (s, g) → Inv s g := by
  intro ls
  induction ls with
  | nil =>
    intro s0 g0 s g h hr
    simp only [grun, Option.some.injEq, Prod.mk.injEq] at hr
    obtain ⟨rfl, rfl⟩ := hr; exact h
  | cons l ls ih =>
    intro s0 g0 s g h hr
    simp only [grun, gstep] at hr
    cases hst : step P s0 l with
    | none => simp [hst] at hr
    | some r =>
      obtain ⟨s1, o⟩ := r
      simp only [hst] at hr
      exact ih s1 _ s g (hstep s0 g0 s1 l o h hst) hr

theorem greachable_induction (P : Params) (Inv : St → Ghost → Prop) (h0 : Inv {} {})
    (hstep : ∀ s g s' l o, Inv s g → step P s l = some (s', o) → Inv s' (gupd s l s' o g)) :
    ∀ s g, GReachable P (s, g) → Inv s g := by
  intro s g ⟨ls, hr⟩
  exact grun_invariant P Inv hstep ls {} {} s g h0 hr

/-! ### classification of the steps as seen from a delivery -/

/-- every step of the model is of one of these kinds -/
inductive DKind (s : St) (l : Label) (s' : St) (o : Option Obs) : Prop
  /-- the reader takes the snapshot of the registered callbacks -/
  | snapshot (ln : String) :
      l = .r → s.rpc = .line2 ln false →
      s' = { s with rpc := .deliver ln s.msgCbs, kaPending := false, probesAtClear := s.probesStarted } →
      o = none → DKind s l s' o
  /-- the reader takes `cb` out of the snapshot, finds it registered and invokes it -/
  | invoke (ln : String) (todo : List Nat) (cb : Nat) :
      l = .rCb cb → s.rpc = .deliver ln todo → cb ∈ todo → cb ∈ s.msgCbs →
      s' = { s with rpc := .inCb ln cb (todo.filter (· != cb)) } →
      o = some (.msgCb cb (parseLine ln)) → DKind s l s' o
  /-- the reader takes `cb` out of the snapshot, finds it no longer registered and skips it -/
  | skip (ln : String) (todo : List Nat) (cb : Nat) :
      l = .rCb cb → s.rpc = .deliver ln todo → cb ∈ todo → cb ∉ s.msgCbs →
      s' = { s with rpc := .deliver ln (todo.filter (· != cb)) } →
      o = none → DKind s l s' o
  /-- the callback returns -/
  | ret (ln : String) (cb : Nat) (todo : List Nat) :
      l = .cbRet → s.rpc = .inCb ln cb todo → s.rcall = .idle →
      s' = { s with rpc := .deliver ln todo } → o = some (.cbRet cb) → DKind s l s' o
  /-- nothing left to do: the line is finished -/
  | finish (ln : String) :
      l = .r → s.rpc = .deliver ln [] → s' = { s with rpc := .split } → o = none → DKind s l s' o
  /-- a reader step outside any delivery -/
  | outside :
      delivering s.rpc = none → delivering s'.rpc = none → s'.msgCbs = s.msgCbs →
      (∀ g, gupd s l s' o g = g) → (∀ c m, o ≠ some (.msgCb c m)) → DKind s l s' o
  /-- a step of another thread, of the environment, or of an API call running on the reader thread -/
  | bystander :
      s'.rpc = s.rpc → (∀ g, gupd s l s' o g = g) → (∀ c m, o ≠ some (.msgCb c m)) → DKind s l s' o

theorem stepS_rpc (P : Params) (s s' : St) (o : Option Obs) (h : stepS P s = some (s', o)) :
    s'.rpc = s.rpc ∧ s'.msgCbs = s.msgCbs ∧ ∀ c m, o ≠ some (.msgCb c m) := by
  cases stepS_kind P s s' o h <;> subst_vars <;> simp [enqueue]

theorem stepU_rpc (P : Params) (s s' : St) (t : Tid) (o : Option Obs) (h : stepU P s t = some (s', o)) :
    s'.rpc = s.rpc ∧ ∀ c m, o ≠ some (.msgCb c m) := by
  simp only [stepU, stepClose] at h
  (repeat' split at h) <;> simp at h <;> obtain ⟨rfl, rfl⟩ := h <;> simp

theorem dkind_r (P : Params) (s s' : St) (o : Option Obs) (h : stepR P s = some (s', o)) :
    DKind s .r s' o := by
  unfold stepR at h
  split at h
  case h_10 ln ig hr =>
    simp only [Option.some.injEq, Prod.mk.injEq] at h
    obtain ⟨rfl, rfl⟩ := h
    cases ig with
    | false => exact .snapshot ln rfl hr rfl rfl
    | true => exact .outside (by simp [hr, delivering]) (by simp [delivering]) rfl (fun g => by simp [gupd, hr]) (by simp)
  case h_11 ln hr =>
    simp only [Option.some.injEq, Prod.mk.injEq] at h
    obtain ⟨rfl, rfl⟩ := h
    exact .finish ln rfl hr rfl rfl
  all_goals
    rename_i hr
    (repeat' split at h) <;> simp at h <;> obtain ⟨rfl, rfl⟩ := h <;>
      exact .outside (by simp [hr, delivering]) (by simp [hr, delivering]) (by simp [enqueue]) (fun g => by simp [gupd, hr]) (by simp)

theorem dkind (P : Params) (s s' : St) (l : Label) (o : Option Obs)
    (h : step P s l = some (s', o)) : DKind s l s' o := by
  cases l
  case r => exact dkind_r P s s' o h
  case s =>
    have := stepS_rpc P s s' o h
    exact .bystander this.1 (fun _ => rfl) this.2.2
  case u t =>
    have := stepU_rpc P s s' t o h
    exact .bystander this.1 (fun _ => rfl) this.2
  case rCb cb =>
    simp only [step] at h
    split at h
    · rename_i ln todo hr
      split at h
      · rename_i hc
        split at h
        · rename_i hm
          simp only [Option.some.injEq, Prod.mk.injEq] at h
          obtain ⟨rfl, rfl⟩ := h
          exact .invoke ln todo cb rfl hr (by simpa using hc) (by simpa using hm) rfl rfl
        · rename_i hm
          simp only [Option.some.injEq, Prod.mk.injEq] at h
          obtain ⟨rfl, rfl⟩ := h
          exact .skip ln todo cb rfl hr (by simpa using hc) (by simpa using hm) rfl rfl
      · simp at h
    · simp at h
  case cbRet =>
    simp only [step] at h
    split at h
    · rename_i ln cb todo hr
      split at h
      · rename_i hi
        simp only [Option.some.injEq, Prod.mk.injEq] at h
        obtain ⟨rfl, rfl⟩ := h
        exact .ret ln cb todo rfl hr hi rfl rfl
      · simp at h
    · rename_i hr
      split at h
      · simp only [Option.some.injEq, Prod.mk.injEq] at h
        obtain ⟨rfl, rfl⟩ := h
        exact .outside (by simp [hr, delivering]) (by simp [delivering]) rfl (fun _ => rfl) (by simp)
      · simp at h
    · simp at h
  case rGet to =>
    simp only [step] at h
    split at h
    · rename_i n dl hr
      (repeat' split at h) <;> simp at h <;> obtain ⟨rfl, rfl⟩ := h <;>
        exact .outside (by simp [hr, delivering]) (by simp [delivering]) rfl (fun _ => rfl) (by simp)
    · simp at h
  case startR =>
    simp only [step] at h
    split at h
    · rename_i hr
      simp only [Option.some.injEq, Prod.mk.injEq] at h
      obtain ⟨rfl, rfl⟩ := h
      exact .outside (by simp [hr, delivering]) (by simp [delivering]) rfl (fun _ => rfl) (by simp)
    · simp at h
  all_goals
    simp only [step] at h
    (repeat' split at h) <;> simp at h <;> obtain ⟨rfl, rfl⟩ := h <;>
      exact .bystander (by simp) (fun _ => rfl) (by simp)

/-- the only step that invokes a message callback is the reader's turn for a callback of the snapshot
    that is registered in that very state -/
theorem msgCb_step (P : Params) (s s' : St) (l : Label) (cb : Nat) (m : Msg)
    (h : step P s l = some (s', some (.msgCb cb m))) :
    ∃ ln todo, l = .rCb cb ∧ s.rpc = .deliver ln todo ∧ cb ∈ todo ∧ cb ∈ s.msgCbs ∧ m = parseLine ln ∧
      s' = { s with rpc := .inCb ln cb (todo.filter (· != cb)) } := by
  cases dkind P s s' l _ h with
  | invoke ln todo c h1 h2 h3 h4 h5 h6 =>
    simp only [Option.some.injEq, Obs.msgCb.injEq] at h6
    obtain ⟨rfl, rfl⟩ := h6
    exact ⟨ln, todo, h1, h2, h3, h4, rfl, h5⟩
  | snapshot ln _ _ _ h4 => cases h4
  | skip ln todo c _ _ _ _ _ h6 => cases h6
  | ret ln c todo _ _ _ _ h5 => cases h5
  | finish ln _ _ _ h4 => cases h4
  | outside _ _ _ _ h5 => exact absurd rfl (h5 cb m)
  | bystander _ _ h3 => exact absurd rfl (h3 cb m)

/-- a turn of the reader that shows nothing at the boundary found the callback unregistered -/
theorem skip_step (P : Params) (s s' : St) (cb : Nat) (h : step P s (.rCb cb) = some (s', none)) :
    ∃ ln todo, s.rpc = .deliver ln todo ∧ cb ∈ todo ∧ cb ∉ s.msgCbs ∧
      s' = { s with rpc := .deliver ln (todo.filter (· != cb)) } := by
  simp only [step] at h
  split at h
  · rename_i ln todo hr
    split at h
    · rename_i hc
      split at h
      · simp at h
      · rename_i hm
        simp only [Option.some.injEq, Prod.mk.injEq, and_true] at h
        exact ⟨ln, todo, hr, by simpa using hc, by simpa using hm, h.symm⟩
    · simp at h
  · simp at h

/-! ### how the registry changes -/

/-- the registry is changed only by `register` (appends an absent id), `unregister` (removes the id) and
    the first step of a `close()` that runs on the reader thread's own path (forgets everything) -/
theorem msgCbs_step (P : Params) (s s' : St) (l : Label) (o : Option Obs)
    (h : step P s l = some (s', o)) :
    s'.msgCbs = s.msgCbs ∨
    (∃ t cb, l = .reg t cb ∧ cb ∉ s.msgCbs ∧ s'.msgCbs = s.msgCbs ++ [cb]) ∨
    (∃ t cb, l = .unreg t cb ∧ s'.msgCbs = s.msgCbs.filter (· != cb)) ∨
    (∃ t, l = .u t ∧ upcOf s t = .closing .r1 ∧ s'.msgCbs = []) := by
  cases l
  case reg t cb =>
    simp only [step, Option.some.injEq, Prod.mk.injEq] at h
    obtain ⟨rfl, rfl⟩ := h
    by_cases hc : cb ∈ s.msgCbs
    · exact .inl (by simp [hc])
    · exact .inr (.inl ⟨t, cb, rfl, hc, by simp [hc]⟩)
  case unreg t cb =>
    simp only [step, Option.some.injEq, Prod.mk.injEq] at h
    obtain ⟨rfl, rfl⟩ := h
    exact .inr (.inr (.inl ⟨t, cb, rfl, rfl⟩))
  case u t =>
    simp only [step, stepU] at h
    split at h
    · simp at h
    · split at h <;> simp at h <;> obtain ⟨rfl, rfl⟩ := h <;> exact .inl (by simp)
    · simp at h; obtain ⟨rfl, rfl⟩ := h; exact .inl (by simp)
    · rename_i pc hpc
      cases pc <;> simp only [stepClose] at h
      case r1 =>
        simp at h; obtain ⟨rfl, rfl⟩ := h
        exact .inr (.inr (.inr ⟨t, rfl, hpc, by simp⟩))
      all_goals
        (repeat' split at h) <;> simp at h <;> obtain ⟨rfl, rfl⟩ := h <;> exact .inl (by simp)
  case s => exact .inl (stepS_rpc P s s' o h).2.1
  all_goals
    cases dkind P s s' _ o h with
    | snapshot ln _ _ h3 _ => subst h3; exact .inl rfl
    | invoke ln todo cb _ _ _ _ h5 _ => subst h5; exact .inl rfl
    | skip ln todo cb _ _ _ _ h5 _ => subst h5; exact .inl rfl
    | ret ln cb todo _ _ _ h4 _ => subst h4; exact .inl rfl
    | finish ln _ _ h3 _ => subst h3; exact .inl rfl
    | outside _ _ h3 _ _ => exact .inl h3
    | bystander _ _ _ =>
      simp only [step, stepR, enqueue] at h
      (repeat' split at h) <;> simp at h <;> obtain ⟨rfl, rfl⟩ := h <;> exact .inl (by simp)

theorem filter_ne_nodup {l : List Nat} (c : Nat) (h : l.Nodup) : (l.filter (· != c)).Nodup :=
  h.sublist List.filter_sublist

theorem msgCbs_nodup_step (P : Params) (s s' : St) (l : Label) (o : Option Obs)
    (hn : s.msgCbs.Nodup) (h : step P s l = some (s', o)) : s'.msgCbs.Nodup := by
  rcases msgCbs_step P s s' l o h with e | ⟨_, cb, _, hc, e⟩ | ⟨_, cb, _, e⟩ | ⟨_, _, _, e⟩
  · rw [e]; exact hn
  · rw [e]; exact List.nodup_append.2 ⟨hn, by simp, by intro a ha b hb; simp at hb; subst hb; intro e; exact hc (e ▸ ha)⟩
  · rw [e]; exact filter_ne_nodup cb hn
  · rw [e]; exact List.nodup_nil

/-! ### the delivery invariant -/

/-- the callbacks of the snapshot the reader still has to look at -/
def todoL (r : RPc) : List Nat := match delivering r with
  | some (_, todo) => todo
  | none => []

structure GInv (s : St) (g : Ghost) : Prop where
  /-- no callback has been invoked twice for this line -/
  nodup : g.invoked.Nodup
  skipNodup : g.skipped.Nodup
  /-- invoked and skipped callbacks come from the snapshot, and none is both -/
  invSnap : ∀ c ∈ g.invoked, c ∈ g.snap
  skipSnap : ∀ c ∈ g.skipped, c ∈ g.snap
  disjoint : ∀ c ∈ g.invoked, c ∉ g.skipped
  /-- while the reader delivers, the record is about that line, and what is still to do is part of the
      snapshot and has been neither invoked nor skipped -/
  deliv : ∀ l todo, delivering s.rpc = some (l, todo) →
    g.active = true ∧ g.line = l ∧ ∀ c ∈ todo, c ∈ g.snap ∧ c ∉ g.invoked ∧ c ∉ g.skipped
  /-- every callback of the snapshot is invoked, skipped, or still to do -/
  cover : ∀ c ∈ g.snap, c ∈ g.invoked ∨ c ∈ g.skipped ∨ c ∈ todoL s.rpc
  idle : delivering s.rpc = none → g.active = false
  /-- inside a callback: it is the one invoked last -/
  inCb : ∀ l cb todo, s.rpc = .inCb l cb todo → g.invoked.getLast? = some cb
  regNodup : s.msgCbs.Nodup
  snapNodup : g.snap.Nodup

theorem mem_filter_ne {l : List Nat} {a c : Nat} : a ∈ l.filter (· != c) ↔ a ∈ l ∧ a ≠ c := by
  simp

theorem ginv_step (P : Params) (s : St) (g : Ghost) (s' : St) (l : Label) (o : Option Obs)
    (hi : GInv s g) (hs : step P s l = some (s', o)) : GInv s' (gupd s l s' o g) := by
  have hreg := msgCbs_nodup_step P s s' l o hi.regNodup hs
  cases dkind P s s' l o hs with
  | snapshot ln h1 h2 h3 h4 =>
    subst h1 h3 h4
    simp only [gupd, h2]
    exact {
      nodup := List.nodup_nil, skipNodup := List.nodup_nil
      invSnap := by simp, skipSnap := by simp, disjoint := by simp
      deliv := by
        intro l todo hd
        simp only [delivering, Option.some.injEq, Prod.mk.injEq] at hd
        obtain ⟨rfl, rfl⟩ := hd
        simp
      cover := by intro c hc; simp [todoL, delivering, hc]
      idle := by simp [delivering]
      inCb := by simp
      regNodup := hreg
      snapNodup := hi.regNodup }
  | invoke ln todo cb h1 h2 h3 h4 h5 h6 =>
    subst h1 h5 h6
    obtain ⟨ha, hl, ht⟩ := hi.deliv ln todo (by simp [h2, delivering])
    simp only [gupd]
    exact {
      nodup := List.nodup_append.2 ⟨hi.nodup, by simp, by
        intro a ha' b hb; simp at hb; subst hb; intro e; exact (ht _ h3).2.1 (e ▸ ha')⟩
      skipNodup := hi.skipNodup
      invSnap := by
        intro c hc; simp at hc
        rcases hc with hc | rfl
        · exact hi.invSnap c hc
        · exact (ht _ h3).1
      skipSnap := hi.skipSnap
      disjoint := by
        intro c hc; simp at hc
        rcases hc with hc | rfl
        · exact hi.disjoint c hc
        · exact (ht _ h3).2.2
      deliv := by
        intro l todo' hd
        simp only [delivering, Option.some.injEq, Prod.mk.injEq] at hd
        obtain ⟨rfl, rfl⟩ := hd
        refine ⟨ha, hl, fun c hc => ?_⟩
        obtain ⟨hc1, hc2⟩ := mem_filter_ne.1 hc
        have := ht c hc1
        exact ⟨this.1, by simp [this.2.1, hc2], this.2.2⟩
      cover := by
        intro c hc
        rcases hi.cover c hc with h | h | h
        · exact .inl (by simp [h])
        · exact .inr (.inl h)
        · by_cases e : c = cb
          · exact .inl (by simp [e])
          · refine .inr (.inr ?_)
            simp only [todoL, h2, delivering] at h
            simp only [todoL, delivering]
            exact mem_filter_ne.2 ⟨h, e⟩
      idle := by simp [delivering]
      inCb := by
        intro l c t e
        simp only [RPc.inCb.injEq] at e
        simp [e.2.1]
      regNodup := hreg
      snapNodup := hi.snapNodup }
  | skip ln todo cb h1 h2 h3 h4 h5 h6 =>
    subst h1 h5 h6
    obtain ⟨ha, hl, ht⟩ := hi.deliv ln todo (by simp [h2, delivering])
    simp only [gupd]
    exact {
      nodup := hi.nodup
      skipNodup := List.nodup_append.2 ⟨hi.skipNodup, by simp, by
        intro a ha' b hb; simp at hb; subst hb; intro e; exact (ht _ h3).2.2 (e ▸ ha')⟩
      invSnap := hi.invSnap
      skipSnap := by
        intro c hc; simp at hc
        rcases hc with hc | rfl
        · exact hi.skipSnap c hc
        · exact (ht _ h3).1
      disjoint := by
        intro c hc hc'; simp at hc'
        rcases hc' with hc' | rfl
        · exact hi.disjoint c hc hc'
        · exact (ht _ h3).2.1 hc
      deliv := by
        intro l todo' hd
        simp only [delivering, Option.some.injEq, Prod.mk.injEq] at hd
        obtain ⟨rfl, rfl⟩ := hd
        refine ⟨ha, hl, fun c hc => ?_⟩
        obtain ⟨hc1, hc2⟩ := mem_filter_ne.1 hc
        have := ht c hc1
        exact ⟨this.1, this.2.1, by simp [this.2.2, hc2]⟩
      cover := by
        intro c hc
        rcases hi.cover c hc with h | h | h
        · exact .inl h
        · exact .inr (.inl (by simp [h]))
        · by_cases e : c = cb
          · exact .inr (.inl (by simp [e]))
          · refine .inr (.inr ?_)
            simp only [todoL, h2, delivering] at h
            simp only [todoL, delivering]
            exact mem_filter_ne.2 ⟨h, e⟩
      idle := by simp [delivering]
      inCb := by simp
      regNodup := hreg
      snapNodup := hi.snapNodup }
  | ret ln cb todo h1 h2 h3 h4 h5 =>
    subst h1 h4 h5
    have hd := hi.deliv ln todo (by simp [h2, delivering])
    simp only [gupd]
    exact {
      nodup := hi.nodup, skipNodup := hi.skipNodup, invSnap := hi.invSnap, skipSnap := hi.skipSnap
      disjoint := hi.disjoint
      deliv := by
        intro l todo' e
        simp only [delivering, Option.some.injEq, Prod.mk.injEq] at e
        obtain ⟨rfl, rfl⟩ := e
        exact hd
      cover := by
        intro c hc
        have := hi.cover c hc
        simpa [todoL, h2, delivering] using this
      idle := by simp [delivering]
      inCb := by simp
      regNodup := hreg
      snapNodup := hi.snapNodup }
  | finish ln h1 h2 h3 h4 =>
    subst h1 h3 h4
    simp only [gupd, h2]
    exact {
      nodup := hi.nodup, skipNodup := hi.skipNodup, invSnap := hi.invSnap, skipSnap := hi.skipSnap
      disjoint := hi.disjoint
      deliv := by simp [delivering]
      cover := by
        intro c hc
        have := hi.cover c hc
        simpa [todoL, h2, delivering] using this
      idle := by simp
      inCb := by simp
      regNodup := hreg
      snapNodup := hi.snapNodup }
  | outside h1 h2 h3 h4 _ =>
    rw [h4]
    exact {
      nodup := hi.nodup, skipNodup := hi.skipNodup, invSnap := hi.invSnap, skipSnap := hi.skipSnap
      disjoint := hi.disjoint
      deliv := by simp [h2]
      cover := by
        intro c hc
        have := hi.cover c hc
        simpa [todoL, h1, h2] using this
      idle := fun _ => hi.idle h1
      inCb := by intro l cb todo e; simp [e, delivering] at h2
      regNodup := hreg
      snapNodup := hi.snapNodup }
  | bystander h1 h2 _ =>
    rw [h2]
    exact {
      nodup := hi.nodup, skipNodup := hi.skipNodup, invSnap := hi.invSnap, skipSnap := hi.skipSnap
      disjoint := hi.disjoint
      deliv := by rw [h1]; exact hi.deliv
      cover := by rw [h1]; exact hi.cover
      idle := by rw [h1]; exact hi.idle
      inCb := by rw [h1]; exact hi.inCb
      regNodup := hreg
      snapNodup := hi.snapNodup }

theorem ginv_init : GInv {} {} := by
  constructor <;> simp [delivering, todoL]

theorem ginv (P : Params) (s : St) (g : Ghost) (h : GReachable P (s, g)) : GInv s g :=
  greachable_induction P GInv ginv_init (ginv_step P) s g h

/-! ### nothing is lost for a callback that stays registered -/

/-- `cb` has been invoked for the current line or is still to do -/
def Served (cb : Nat) (s : St) (g : Ghost) : Prop := cb ∈ g.invoked ∨ cb ∈ todoL s.rpc

/-- a step taken from a state in which `cb` is registered keeps `cb` served — whatever the step does to
    the other callbacks, and also across the end of the line and the snapshot for the next one -/
theorem served_step (P : Params) (cb : Nat) (s : St) (g : Ghost) (s' : St) (l : Label) (o : Option Obs)
    (hreg : cb ∈ s.msgCbs) (hi : Served cb s g) (hs : step P s l = some (s', o)) :
    Served cb s' (gupd s l s' o g) := by
  cases dkind P s s' l o hs with
  | snapshot ln h1 h2 h3 h4 =>
    subst h1 h3 h4
    exact .inr (by simpa [todoL, delivering] using hreg)
  | invoke ln todo c h1 h2 h3 h4 h5 h6 =>
    subst h1 h5 h6
    simp only [Served, gupd, todoL, delivering, h2] at hi ⊢
    rcases hi with hi | hi
    · exact .inl (by simp [hi])
    · by_cases e : cb = c
      · exact .inl (by simp [e])
      · exact .inr (mem_filter_ne.2 ⟨hi, e⟩)
  | skip ln todo c h1 h2 h3 h4 h5 h6 =>
    subst h1 h5 h6
    simp only [Served, gupd, todoL, delivering, h2] at hi ⊢
    rcases hi with hi | hi
    · exact .inl hi
    · refine .inr (mem_filter_ne.2 ⟨hi, ?_⟩)
      intro e; subst e; exact h4 hreg
  | ret ln c todo h1 h2 h3 h4 h5 =>
    subst h1 h4 h5
    simpa [Served, gupd, todoL, delivering, h2] using hi
  | finish ln h1 h2 h3 h4 =>
    subst h1 h3 h4
    simpa [Served, gupd, todoL, delivering, h2] using hi
  | outside h1 h2 h3 h4 _ =>
    rw [h4]
    simpa [Served, todoL, h1, h2] using hi
  | bystander h1 h2 _ =>
    rw [h2]
    simpa [Served, h1] using hi

/-- a step invariant that needs a side condition `C` on the source state of each step holds along every
    replay all of whose source states satisfy `C` -/
theorem grun_invariant_where (P : Params) (Inv : St → Ghost → Prop) (C : St → Prop)
    (hstep : ∀ s g s' l o, C s → Inv s g → step P s l = some (s', o) → Inv s' (gupd s l s' o g)) :
    ∀ (ls : List Label) (s0 : St) (g0 : Ghost) (s : St) (g : Ghost),
      Inv s0 g0 →
      (∀ pre l post s1, ls = pre ++ l :: post → run P s0 pre = some s1 → C s1) →
      grun P (s0, g0) ls = some (s, g) → Inv s g := by
  intro ls
  induction ls with
  | nil =>
    intro s0 g0 s g h _ hr
    simp only [grun, Option.some.injEq, Prod.mk.injEq] at hr
    obtain ⟨rfl, rfl⟩ := hr; exact h
  | cons l ls ih =>
    intro s0 g0 s g h hc hr
    simp only [grun, gstep] at hr
    cases hst : step P s0 l with
    | none => simp [hst] at hr
    | some r =>
      obtain ⟨s1, o⟩ := r
      simp only [hst] at hr
      refine ih s1 _ s g (hstep s0 g0 s1 l o (hc [] l ls s0 rfl rfl) h hst) ?_ hr
      intro pre l' post s2 e hr'
      exact hc (l :: pre) l' post s2 (by rw [e]; rfl) (by simp only [run, hst]; exact hr')

/-! ### which delivery the record is about -/

/-- relative to a base record `b`: no snapshot has been forgotten, and as long as no new snapshot has
    been taken the record is about the same line and the same snapshot -/
def SameDelivery (b : Ghost) (g : Ghost) : Prop :=
  b.seq ≤ g.seq ∧ (g.seq = b.seq → g.line = b.line ∧ g.snap = b.snap)

theorem sameDelivery_step (P : Params) (b : Ghost) (s : St) (g : Ghost) (s' : St) (l : Label) (o : Option Obs)
    (hi : SameDelivery b g) (hs : step P s l = some (s', o)) : SameDelivery b (gupd s l s' o g) := by
  cases dkind P s s' l o hs with
  | snapshot ln h1 h2 h3 h4 =>
    subst h1 h3 h4
    simp only [gupd, h2]
    exact ⟨Nat.le_succ_of_le hi.1, fun e => by have := hi.1; simp at e; omega⟩
  | invoke ln todo c h1 h2 h3 h4 h5 h6 => subst h1 h5 h6; exact hi
  | skip ln todo c h1 h2 h3 h4 h5 h6 => subst h1 h5 h6; exact hi
  | ret ln c todo h1 h2 h3 h4 h5 => subst h1 h4 h5; exact hi
  | finish ln h1 h2 h3 h4 => subst h1 h3 h4; simp only [gupd, h2]; exact hi
  | outside h1 h2 h3 h4 _ => rw [h4]; exact hi
  | bystander h1 h2 _ => rw [h2]; exact hi

theorem sameDelivery_run (P : Params) (ls : List Label) (s0 : St) (g0 : Ghost) (s : St) (g : Ghost)
    (hr : grun P (s0, g0) ls = some (s, g)) : SameDelivery g0 g :=
  grun_invariant P (fun _ g => SameDelivery g0 g) (fun s g s' l o hi hs => sameDelivery_step P g0 s g s' l o hi hs)
    ls s0 g0 s g ⟨Nat.le_refl _, fun _ => ⟨rfl, rfl⟩⟩ hr

/-! ### counting -/

theorem nodup_subset_length {α : Type} [DecidableEq α] : ∀ (l l' : List α), l.Nodup → (∀ a ∈ l, a ∈ l') →
    l.length ≤ l'.length := by
  intro l
  induction l with
  | nil => intro l' _ _; simp
  | cons a l ih =>
    intro l' hn hs
    rw [List.nodup_cons] at hn
    have ha : a ∈ l' := hs a (by simp)
    have := ih (l'.erase a) hn.2 (by
      intro x hx
      have hne : x ≠ a := by intro e; subst e; exact hn.1 hx
      exact (List.mem_erase_of_ne hne).2 (hs x (by simp [hx])))
    rw [List.length_erase_of_mem ha] at this
    have hpos : 0 < l'.length := List.length_pos_of_mem ha
    simp only [List.length_cons]
    omega

/-! ### API calls made from inside a callback (on the reader thread) -/

theorem setUpc_rcall (s : St) (t : Tid) (p : UPc) : (setUpc s t p).rcall = if t = tidR then p else s.rcall := by
  unfold setUpc; split <;> simp [*]

/-- the close() program points that a close() running on the reader thread never visits
    (it takes the branch without lock and join) -/
def readerPathOk : UPc → Bool
  | .closing .c1 => false
  | .closing .c2 => false
  | .closing (.c3 _) => false
  | .closing .c4 => false
  | .closing .c5 => false
  | _ => true

structure RcInv (s : St) : Prop where
  /-- an API call is pending on the reader thread only while the reader is inside a callback -/
  idleOutside : readerInCallback s.rpc = false → s.rcall = .idle
  path : readerPathOk s.rcall = true

theorem rcInv_step (P : Params) (s s' : St) (l : Label) (o : Option Obs)
    (hi : RcInv s) (hs : step P s l = some (s', o)) : RcInv s' := by
  obtain ⟨h1, h2⟩ := hi
  cases l with
  | u t =>
    by_cases ht : t = tidR
    · subst ht
      l4_step_cases hs <;> constructor <;> simp_all [setUpc_rcall, upcOf, readerPathOk]
    · l4_step_cases hs <;> constructor <;> simp_all [setUpc_rcall, upcOf, readerPathOk]
  | call t text =>
    by_cases ht : t = tidR
    · subst ht
      l4_step_cases hs <;> constructor <;> simp_all [setUpc_rcall, readerPathOk, mayCall]
    · l4_step_cases hs <;> constructor <;> simp_all [setUpc_rcall, readerPathOk]
  | callClose t =>
    by_cases ht : t = tidR
    · subst ht
      l4_step_cases hs <;> constructor <;> simp_all [setUpc_rcall, readerPathOk, mayCall]
    · l4_step_cases hs <;> constructor <;> simp_all [setUpc_rcall, readerPathOk]
  | _ =>
    l4_step_cases hs <;> constructor <;> simp_all [readerInCallback]

theorem rcInv (P : Params) (s : St) (h : Reachable P s) : RcInv s :=
  reachable_induction P RcInv (by constructor <;> simp [readerInCallback, readerPathOk]) (rcInv_step P) s h

/-- only the reader thread's own close() visits `r1` ("forget all message callbacks") -/
def NoR1 (s : St) : Prop := ∀ t, t ≠ tidR → upcOf s t ≠ .closing .r1

theorem noR1_setUpc (s s1 : St) (t0 : Tid) (p : UPc)
    (hrc : s1.rcall = s.rcall) (hcs : s1.callers = s.callers) (hi : NoR1 s)
    (hp : t0 ≠ tidR → p ≠ .closing .r1) : NoR1 (setUpc s1 t0 p) := by
  have hu : ∀ t, upcOf s1 t = upcOf s t := by intro t; simp [upcOf, hrc, hcs]
  intro t ht
  by_cases e : t = t0
  · subst e; simp; exact hp ht
  · rw [upcOf_setUpc_other _ _ _ _ e, hu]; exact hi t ht

theorem noR1_step (P : Params) (s s' : St) (l : Label) (o : Option Obs)
    (hi : NoR1 s) (hs : step P s l = some (s', o)) : NoR1 s' := by
  cases l with
  | u t0 => l4_step_cases hs <;> (apply noR1_setUpc s (hi := hi) <;> simp_all)
  | call t0 text => l4_step_cases hs <;> (apply noR1_setUpc s (hi := hi) <;> simp_all)
  | callClose t0 => l4_step_cases hs <;> (apply noR1_setUpc s (hi := hi) <;> simp_all)
  | _ => l4_step_cases hs <;> exact hi

theorem noR1 (P : Params) (s : St) (h : Reachable P s) : NoR1 s :=
  reachable_induction P NoR1 (by intro t _; simp [upcOf, lookup]) (noR1_step P) s h

/-- no close() is in progress on the reader thread -/
def NoRClose (s : St) : Prop := ∀ pc, s.rcall ≠ .closing pc

/-- without a `close()` started from inside a callback, none gets in progress on the reader thread -/
theorem noRClose_step (P : Params) (s s' : St) (l : Label) (o : Option Obs)
    (hi : NoRClose s) (hl : l ≠ .callClose tidR) (hs : step P s l = some (s', o)) : NoRClose s' := by
  unfold NoRClose at hi ⊢
  cases l with
  | u t =>
    by_cases ht : t = tidR
    · subst ht
      l4_step_cases hs <;> simp_all [setUpc_rcall, upcOf]
    · l4_step_cases hs <;> simp_all [setUpc_rcall]
  | call t text =>
    by_cases ht : t = tidR
    · subst ht
      l4_step_cases hs <;> simp_all [setUpc_rcall]
    · l4_step_cases hs <;> simp_all [setUpc_rcall]
  | callClose t =>
    have ht : t ≠ tidR := fun e => hl (by rw [e])
    l4_step_cases hs <;> simp_all [setUpc_rcall]
  | _ =>
    l4_step_cases hs <;> simp_all

/-- `cb` is registered, and nothing is under way that could forget it without an `unregister` -/
structure Keeps (cb : Nat) (s : St) : Prop where
  reg : cb ∈ s.msgCbs
  noClose : NoRClose s
  noR1 : NoR1 s

theorem keeps_step (P : Params) (cb : Nat) (s s' : St) (l : Label) (o : Option Obs)
    (hi : Keeps cb s) (hu : ∀ t, l ≠ .unreg t cb) (hl : l ≠ .callClose tidR)
    (hs : step P s l = some (s', o)) : Keeps cb s' := by
  refine ⟨?_, noRClose_step P s s' l o hi.noClose hl hs, noR1_step P s s' l o hi.noR1 hs⟩
  rcases msgCbs_step P s s' l o hs with e | ⟨_, c, _, _, e⟩ | ⟨t, c, hlab, e⟩ | ⟨t, hlab, hpc, _⟩
  · rw [e]; exact hi.reg
  · rw [e]; exact List.mem_append_left _ hi.reg
  · rw [e]
    refine mem_filter_ne.2 ⟨hi.reg, ?_⟩
    intro e'; subst e'; exact hu t hlab
  · exfalso
    by_cases ht : t = tidR
    · subst ht
      exact hi.noClose .r1 (by simpa [upcOf] using hpc)
    · exact hi.noR1 t ht hpc

/-- an invariant preserved by the steps whose label satisfies `ok` holds along every run with such labels -/
theorem run_invariant_labels (P : Params) (Inv : St → Prop) (ok : Label → Prop)
    (hstep : ∀ s s' l o, ok l → Inv s → step P s l = some (s', o) → Inv s') :
    ∀ (ls : List Label) (s0 s : St), Inv s0 → (∀ l ∈ ls, ok l) → run P s0 ls = some s → Inv s := by
  intro ls
  induction ls with
  | nil => intro s0 s h _ hr; simp [run] at hr; subst hr; exact h
  | cons l ls ih =>
    intro s0 s h hok hr
    simp only [run] at hr
    cases hst : step P s0 l with
    | none => simp [hst] at hr
    | some r =>
      obtain ⟨s1, o⟩ := r
      simp [hst] at hr
      exact ih s1 s (hstep s0 s1 l o (hok l (by simp)) h hst) (fun l' hl' => hok l' (by simp [hl'])) hr

/-- with no `unregister(cb)` and no `close()` from inside a callback among the labels, a registered `cb`
    is registered in every state of the run -/
theorem keeps_run (P : Params) (cb : Nat) (ls : List Label) (s0 s : St) (h0 : Keeps cb s0)
    (hu : ∀ t, Label.unreg t cb ∉ ls) (hc : Label.callClose tidR ∉ ls)
    (hr : run P s0 ls = some s) : Keeps cb s :=
  run_invariant_labels P (Keeps cb) (fun l => (∀ t, l ≠ .unreg t cb) ∧ l ≠ .callClose tidR)
    (fun s s' l o hok hi hs => keeps_step P cb s s' l o hi hok.1 hok.2 hs) ls s0 s h0
    (fun _ hl => ⟨fun t e => hu t (e ▸ hl), fun e => hc (e ▸ hl)⟩) hr

/-! ### the reader can always go on with a delivery -/

/-- labels of steps executed by the reader thread (its own code, the return of a callback running on it,
    and the next step of an API call a callback made on it) -/
def readerLabel : Label → Bool
  | .r => true
  | .rCb _ => true
  | .cbRet => true
  | .u t => t == tidR
  | _ => false

theorem deliver_nil_enabled (P : Params) (s : St) (ln : String) (h : s.rpc = .deliver ln []) :
    step P s .r = some ({ s with rpc := .split }, none) := by
  simp [step, stepR, h]

theorem deliver_cons_enabled (P : Params) (s : St) (ln : String) (todo : List Nat) (c : Nat)
    (h : s.rpc = .deliver ln todo) (hc : c ∈ todo) : (step P s (.rCb c)).isSome = true := by
  simp only [step, h]
  have : todo.contains c = true := by simpa using hc
  simp only [this, if_true]
  split <;> rfl

theorem inCb_idle_enabled (P : Params) (s : St) (ln : String) (cb : Nat) (todo : List Nat)
    (h : s.rpc = .inCb ln cb todo) (hi : s.rcall = .idle) :
    step P s .cbRet = some ({ s with rpc := .deliver ln todo }, some (.cbRet cb)) := by
  simp [step, h, hi]

theorem rcall_enabled (P : Params) (s : St) (hp : readerPathOk s.rcall = true) (hi : s.rcall ≠ .idle) :
    (step P s (.u tidR)).isSome = true := by
  have e : upcOf s tidR = s.rcall := by simp [upcOf]
  simp only [step, stepU, e]
  cases hrc : s.rcall with
  | idle => exact absurd hrc hi
  | submitting text => simp only []; split <;> rfl
  | returning => rfl
  | closing pc =>
    rw [hrc] at hp
    cases pc <;> simp [readerPathOk] at hp <;> simp [stepClose]

theorem delivery_enabled (P : Params) (s : St) (hi : RcInv s) (hd : delivering s.rpc ≠ none) :
    ∃ lab, readerLabel lab = true ∧ (step P s lab).isSome = true := by
  cases hr : s.rpc with
  | deliver ln todo =>
    cases todo with
    | nil => exact ⟨.r, rfl, by rw [deliver_nil_enabled P s ln hr]; rfl⟩
    | cons c rest => exact ⟨.rCb c, rfl, deliver_cons_enabled P s ln _ c hr (by simp)⟩
  | inCb ln cb todo =>
    by_cases hc : s.rcall = .idle
    · exact ⟨.cbRet, rfl, by rw [inCb_idle_enabled P s ln cb todo hr hc]; rfl⟩
    · exact ⟨.u tidR, by simp [readerLabel], rcall_enabled P s hi.path hc⟩
  | _ => simp [hr, delivering] at hd

/-- used by the concrete examples: name the result of a successful replay -/
theorem getD_of_isSome {α : Type} (o : Option α) (d : α) (h : o.isSome = true) : o = some (o.getD d) := by
  cases o with
  | none => cases h
  | some x => rfl

end Ynca.L4.D9

