import YncaVerif.Lemmas.L4Step
/-! Helper lemmas for C15. -/
namespace Ynca.L4

/-- the C15 invariant -/
structure DiscInv (s : St) : Prop where
  once : s.discCalls = 0 ∨ (s.discCalls = 1 ∧ (s.rpc = .inDiscCb ∨ s.rpc = .lost 5 ∨ s.rpc = .done))
  cbSet : s.closeStarted = false → s.discCbSet = true
  called : (s.rpc = .inDiscCb ∨ s.rpc = .lost 5 ∨ s.rpc = .done) → s.discCalls = 1 ∨ s.closeStarted = true
  down : lossBegun s.rpc = true → s.rpc ≠ .lost 0 → s.connected = false ∧ s.alive = false

theorem discInv_step (P : Params) (s s' : St) (l : Label) (o : Option Obs)
    (hi : DiscInv s) (hs : step P s l = some (s', o)) : DiscInv s' := by
  obtain ⟨h1, h2, h3, h4⟩ := hi
  cases l <;> l4_step_cases hs
  all_goals
    constructor <;> simp_all [lossBegun]

theorem discInv_reachable (P : Params) (s : St) (h : Reachable P s) : DiscInv s :=
  reachable_induction P DiscInv (by constructor <;> simp [lossBegun]) (discInv_step P) s h

theorem disc_at_most_once (P : Params) (s : St) (h : Reachable P s) : s.discCalls ≤ 1 := by
  have := (discInv_reachable P s h).once
  omega

theorem disc_exactly_once (P : Params) (s : St) (h : Reachable P s) (hd : s.rpc = .done)
    (hc : s.closeStarted = false) : s.discCalls = 1 := by
  have := (discInv_reachable P s h).called (Or.inr (Or.inr hd))
  simpa [hc] using this

theorem lost_not_connected (P : Params) (s : St) (h : Reachable P s)
    (hl : lossBegun s.rpc = true) (h0 : s.rpc ≠ .lost 0) : s.connected = false ∧ s.alive = false :=
  (discInv_reachable P s h).down hl h0

theorem no_msgcb_after_loss (P : Params) (s s' : St) (l : Label) (cb : Nat) (m : Msg)
    (hl : lossBegun s.rpc = true) (h : step P s l = some (s', some (.msgCb cb m))) : False := by
  cases l <;> simp only [step, stepS, stepR, stepU, stepClose, enqueue] at h
  all_goals (repeat' split at h) <;> simp_all [lossBegun]

theorem loss_final (P : Params) (s s' : St) (l : Label) (o : Option Obs)
    (hl : lossBegun s.rpc = true) (h : step P s l = some (s', o)) : lossBegun s'.rpc = true := by
  cases l <;> l4_step_cases h
  all_goals simp_all [lossBegun]

theorem drain_done (P : Params) (s s' : St) (o : Option Obs) (h2 : s.rpc = .lost 1) (hq : s.queue = [])
    (h : step P s .r = some (s', o)) : s'.rpc = .lost 2 ∧ s'.queue = [] := by
  simp only [step, stepR, h2, hq] at h
  simp at h
  obtain ⟨rfl, rfl⟩ := h
  simp

end Ynca.L4
