import YncaVerif.Lemmas.AcceptC16
import YncaVerif.Lemmas.C12
/-! C12 on the observed trace: while nothing went wrong (no link fault, no write fault, no close() so far), every observed event lies
within one keep-alive interval plus one command spacing of the last observed write. -/
namespace Ynca.L4
open Ynca.L4.C12L

/-- the observed prefix contains no link fault, no write fault and no close() -/
def quietEv : Ev → Bool
  | .input .fault => false
  | .input .wfault => false
  | .input (.callClose _) => false
  | _ => true

def quiet (pre : List (Nat × Ev)) : Bool := pre.all (fun e => quietEv e.2)

/-- what stays true of the model as long as the environment does none of these -/
structure Healthy (s : St) : Prop where
  faultPending : s.faultPending = false
  writeFault : s.writeFault = false
  closeStarted : s.closeStarted = false
  closeUnpub : s.closeUnpub = false
  portOpen : s.portOpen = true
  alive : s.alive = true
  loss : lossBegun s.rpc = false
  notDone : s.spc ≠ .done
  notDead : s.spc ≠ .dead
  noExit : (∀ m ∈ s.queue, m ≠ Item.exit) ∧ s.spc ≠ .got .exit
  noClosing : ∀ t pc, upcOf s t ≠ .closing pc

@[simp] theorem setUpc_faultPending' (s : St) (t : Tid) (p : UPc) : (setUpc s t p).faultPending = s.faultPending := by
  unfold setUpc; split <;> rfl

def quietLabel : Label → Bool
  | .fault => false
  | .wfault => false
  | .callClose _ => false
  | _ => true

theorem healthy_step (P : Params) (s s' : St) (l : Label) (o : Option Obs) (hi : Healthy s) (hl : quietLabel l = true)
    (hs : step P s l = some (s', o)) : Healthy s' := by
  obtain ⟨h1, h2, h3, h4, h5, h6, h7, h8, h9, ⟨h10, h11⟩, h12⟩ := hi
  cases l <;> simp only [step] at hs
  case fault => simp [quietLabel] at hl
  case wfault => simp [quietLabel] at hl
  case callClose t => simp [quietLabel] at hl
  case s =>
    l4_split_s hs
    all_goals (refine ⟨?_, ?_, ?_, ?_, ?_, ?_, ?_, ?_, ?_, ⟨?_, ?_⟩, ?_⟩ <;> (try simp_all [enqueue, upcOf, setUpc_faultPending']))
    all_goals (try (intro m hm; rcases hm with hm | rfl <;> first | exact h10 m hm | simp))
  case r =>
    l4_split_r hs
    all_goals (refine ⟨?_, ?_, ?_, ?_, ?_, ?_, ?_, ?_, ?_, ⟨?_, ?_⟩, ?_⟩ <;> (try simp_all [enqueue, upcOf, setUpc_faultPending']))
    all_goals (try (intro m hm; rcases hm with hm | rfl <;> first | exact h10 m hm | simp))
  case u t =>
    l4_split_u hs
    all_goals (first | (exact absurd ‹upcOf s t = _› (h12 t _)) | skip)
    all_goals (refine ⟨?_, ?_, ?_, ?_, ?_, ?_, ?_, ?_, ?_, ⟨?_, ?_⟩, ?_⟩ <;> (try simp_all [setUpc_faultPending']))
    all_goals (first
      | (intro t' pc; rw [upcOf_setUpc]; split <;> simp_all [upcOf])
      | (intro m hm; rcases hm with hm | rfl <;> first | exact h10 m hm | simp))
  case call t x =>
    split at hs
    · simp at hs; obtain ⟨rfl, rfl⟩ := hs
      refine ⟨?_, ?_, ?_, ?_, ?_, ?_, ?_, ?_, ?_, ⟨?_, ?_⟩, ?_⟩ <;> (try simp_all [setUpc_faultPending'])
      intro t' pc; rw [upcOf_setUpc]; split <;> simp_all
    · simp at hs
  all_goals (l4_split_other hs <;> (refine ⟨?_, ?_, ?_, ?_, ?_, ?_, ?_, ?_, ?_, ⟨?_, ?_⟩, ?_⟩ <;> (try simp_all [upcOf, setUpc_faultPending'])))

theorem quiet_append (a b : List (Nat × Ev)) : quiet (a ++ b) = (quiet a && quiet b) := by simp [quiet, List.all_append]

theorem healthy_init : Healthy ({} : St) := by
  refine ⟨rfl, rfl, rfl, rfl, rfl, rfl, rfl, by simp, by simp, ⟨by simp, by simp⟩, ?_⟩
  intro t pc; simp [upcOf, lookup]

theorem Expl.healthy {P : Params} {hidden : List String} {pre : List (Nat × Ev)} {s : St} (h : Expl P hidden pre s)
    (hq : quiet pre = true) : Healthy s := by
  induction h with
  | init => exact healthy_init
  | @tau pre s s' l o _ hl hs _ ih =>
    refine healthy_step P s s' l o (ih hq) ?_ hs
    cases l <;> simp [isThreadLabel] at hl <;> rfl
  | @input pre s s' l o _ hl hs ih =>
    rw [quiet_append] at hq
    simp only [Bool.and_eq_true] at hq
    refine healthy_step P s s' l o (ih hq.1) ?_ hs
    have := hq.2
    simp only [quiet, List.all_cons, List.all_nil, Bool.and_true] at this
    cases l <;> first | rfl | (simp [quietEv] at this)
  | @output pre s s' l o _ hl hs _ ih =>
    rw [quiet_append] at hq
    simp only [Bool.and_eq_true] at hq
    refine healthy_step P s s' l _ (ih hq.1) ?_ hs
    cases l <;> simp [isThreadLabel] at hl <;> rfl
  | hiddenOutput _ _ ih => rw [quiet_append] at hq; simp only [Bool.and_eq_true] at hq; exact ih hq.1
  | snapshot _ _ ih => rw [quiet_append] at hq; simp only [Bool.and_eq_true] at hq; exact ih hq.1
  | stop _ ih => rw [quiet_append] at hq; simp only [Bool.and_eq_true] at hq; exact ih hq.1

/-- every observed event is stamped with the model's clock: an explained trace that ends with an event at time `tm` has a state
    explaining everything before it whose clock shows `tm` -/
theorem Expl.last_time {P : Params} {hidden : List String} {evs : List (Nat × Ev)} {s : St} (h : Expl P hidden evs s) :
    ∀ pre tm e, evs = pre ++ [(tm, e)] → ∃ s0, Expl P hidden pre s0 ∧ s0.now = tm := by
  induction h with
  | init => intro pre tm e h; simp at h
  | tau _ _ _ _ ih => exact ih
  | @input pre0 s s' l o he hl hs ih =>
    intro pre tm e h
    have h1 := List.append_inj_left' h rfl
    have h2 := List.append_inj_right' h rfl
    simp at h2; subst h1; exact ⟨s, he, h2.1⟩
  | @output pre0 s s' l o he hl hs hvis ih =>
    intro pre tm e h
    have h1 := List.append_inj_left' h rfl
    have h2 := List.append_inj_right' h rfl
    simp at h2; subst h1; exact ⟨s, he, h2.1⟩
  | @hiddenOutput pre0 s o he ho ih =>
    intro pre tm e h
    have h1 := List.append_inj_left' h rfl
    have h2 := List.append_inj_right' h rfl
    simp at h2; subst h1; exact ⟨s, he, h2.1⟩
  | @snapshot pre0 s es he hq ih =>
    intro pre tm e h
    have h1 := List.append_inj_left' h rfl
    have h2 := List.append_inj_right' h rfl
    simp at h2; subst h1; exact ⟨s, he, h2.1⟩
  | @stop pre0 s he ih =>
    intro pre tm e h
    have h1 := List.append_inj_left' h rfl
    have h2 := List.append_inj_right' h rfl
    simp at h2; subst h1; exact ⟨s, he, h2.1⟩

theorem lastTx_of_wire (s : St) (h : s.wire ≠ []) : lastTx s = ((wireTT s).getLast (by simpa [wireTT] using h)).1 := by
  unfold lastTx wireTT
  have : s.wire.getLast? = some (s.wire.getLast h) := List.getLast?_eq_some_getLast h
  rw [this]
  simp [List.getLast_map]

end Ynca.L4
