import YncaVerif.Lemmas.L4Step
/-! Helper lemmas for C16. -/
namespace Ynca.L4

theorem close_never_raises (P : Params) (s s' : St) (l : Label) (o : Obs) (t : Tid)
    (h : step P s l = some (s', some o)) : o ≠ .closeRaised t := by
  cases l <;> l4_step_cases h
  all_goals simp

theorem close_accepted (P : Params) (s : St) (t : Tid) (h : mayCall s t = true) :
    (step P s (.callClose t)).isSome = true := by
  simp only [step, h, if_true]; repeat' split
  all_goals rfl

theorem cleared_step (P : Params) (s s' : St) (l : Label) (o : Option Obs)
    (hi : s.closeStarted = true → s.discCbSet = false) (hs : step P s l = some (s', o)) :
    s'.closeStarted = true → s'.discCbSet = false := by
  cases l <;> l4_step_cases hs
  all_goals simp_all

theorem close_clears_callback (P : Params) (s : St) (h : Reachable P s) (hc : s.closeStarted = true) :
    s.discCbSet = false :=
  reachable_induction P (fun s => s.closeStarted = true → s.discCbSet = false) (by simp) (cleared_step P) s h hc

theorem no_disc_when_cleared (P : Params) (s s' : St) (l : Label) (o : Obs) (hc : s.discCbSet = false)
    (h : step P s l = some (s', some o)) : o ≠ .discCb := by
  cases l <;> l4_step_cases h
  all_goals simp_all

theorem no_write_when_closed (P : Params) (s s' : St) (l : Label) (o : Obs) (t : String)
    (hp : s.portOpen = false) (h : step P s l = some (s', some o)) : o ≠ .write t := by
  cases l <;> l4_step_cases h
  all_goals simp_all

theorem port_stays_closed (P : Params) (s s' : St) (l : Label) (o : Option Obs)
    (hp : s.portOpen = false) (h : step P s l = some (s', o)) : s'.portOpen = false := by
  cases l <;> l4_step_cases h
  all_goals simp_all

theorem no_msgcb_without_callbacks (P : Params) (s s' : St) (l : Label) (cb : Nat) (m : Msg)
    (hc : s.msgCbs = []) (h : step P s l = some (s', some (.msgCb cb m))) : False := by
  cases l <;> simp only [step, stepS, stepR, stepU, stepClose, enqueue] at h
  all_goals (repeat' split at h) <;> simp_all

/-- close() program points past `alive := false` -/
def needsDead : UPc → Bool
  | .closing (.c3 _) => true
  | .closing .c4 => true
  | .closing .c5 => true
  | .closing .c6 => true
  | .closing .r3 => true
  | _ => false

/-- close() program points past `serial.close()` -/
def needsClosed : UPc → Bool
  | .closing .c5 => true
  | .closing .c6 => true
  | _ => false

/-- the C16 invariant -/
structure CloseInv (s : St) : Prop where
  ret : s.closeReturned = true → s.portOpen = false ∧ s.alive = false
  dead : ∀ t, needsDead (upcOf s t) = true → s.alive = false
  closed : ∀ t, needsClosed (upcOf s t) = true → s.portOpen = false

theorem closeInv_setUpc (s s1 : St) (t0 : Tid) (p : UPc)
    (hrc : s1.rcall = s.rcall) (hcs : s1.callers = s.callers)
    (hi : CloseInv s)
    (hret : s1.closeReturned = true → s1.portOpen = false ∧ s1.alive = false)
    (ha : s.alive = false → s1.alive = false) (hp : s.portOpen = false → s1.portOpen = false)
    (hd : needsDead p = true → s1.alive = false) (hc : needsClosed p = true → s1.portOpen = false) :
    CloseInv (setUpc s1 t0 p) := by
  have hu : ∀ t, upcOf s1 t = upcOf s t := by intro t; simp [upcOf, hrc, hcs]
  refine ⟨by simpa using hret, fun t h => ?_, fun t h => ?_⟩
  · by_cases ht : t = t0
    · subst ht; simp at h ⊢; exact hd h
    · rw [upcOf_setUpc_other _ _ _ _ ht, hu] at h; simp; exact ha (hi.dead t h)
  · by_cases ht : t = t0
    · subst ht; simp at h ⊢; exact hc h
    · rw [upcOf_setUpc_other _ _ _ _ ht, hu] at h; simp; exact hp (hi.closed t h)

theorem closeInv_step (P : Params) (s s' : St) (l : Label) (o : Option Obs)
    (hi : CloseInv s) (hs : step P s l = some (s', o)) : CloseInv s' := by
  have hr := hi.ret
  cases l with
  | u t0 =>
    have hd0 := hi.dead t0
    have hc0 := hi.closed t0
    l4_step_cases hs <;>
      (apply closeInv_setUpc s (hi := hi) <;> simp_all [needsDead, needsClosed])
  | call t0 text =>
    l4_step_cases hs <;>
      (apply closeInv_setUpc s (hi := hi) <;> simp_all [needsDead, needsClosed])
  | callClose t0 =>
    l4_step_cases hs <;>
      (apply closeInv_setUpc s (hi := hi) <;> simp_all [needsDead, needsClosed])
  | connectFailed =>
    l4_step_cases hs <;>
      first
      | exact ⟨fun h => ⟨rfl, (hi.ret h).2⟩, hi.dead, fun _ _ => rfl⟩
      | exact ⟨hi.ret, hi.dead, hi.closed⟩
  | _ =>
    l4_step_cases hs <;>
      first
      | exact ⟨hi.ret, hi.dead, hi.closed⟩
      | exact ⟨fun h => ⟨(hi.ret h).1, rfl⟩, fun _ _ => rfl, hi.closed⟩

theorem after_close_return (P : Params) (s : St) (h : Reachable P s) (hr : s.closeReturned = true) :
    s.portOpen = false ∧ s.alive = false :=
  (reachable_induction P CloseInv (by constructor <;> simp [upcOf, lookup, needsDead, needsClosed])
    (closeInv_step P) s h).ret hr

end Ynca.L4
