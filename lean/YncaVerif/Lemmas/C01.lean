import YncaVerif.Lemmas.L4Basic
/-! Helper lemmas for C01. -/
namespace Ynca.L4

/-- what is on the wire, in the sender's hands and still queued, in this order -/
def held (s : St) : List (Nat × String) := wireCmds s.wire ++ inflight s.spc ++ queueCmds s.queue

theorem held_congr {s s' : St} (hw : s'.wire = s.wire) (hp : s'.spc = s.spc) (hq : s'.queue = s.queue) :
    held s' = held s := by
  unfold held; rw [hw, hp, hq]

theorem queueCmds_cons_inflight (m : Item) (q : List Item) :
    inflight (.got m) ++ queueCmds q = queueCmds (m :: q) := by
  cases m <;> simp [inflight, queueCmds]

theorem queueCmds_append_nonCmd (q : List Item) (it : Item) (h : ∀ i t, it ≠ .cmd i t) :
    queueCmds (q ++ [it]) = queueCmds q := by
  cases it with
  | cmd i t => exact absurd rfl (h i t)
  | keepAlive => simp [queueCmds]
  | exit => simp [queueCmds]

theorem wireCmds_append (w : List (Nat × String × Option Nat)) (n : Nat) (t : String) (i : Option Nat) :
    wireCmds (w ++ [(n, t, i)]) = wireCmds w ++ inflight (.writing t i) := by
  cases i <;> simp [wireCmds, inflight]

/-- effect of one step on the FIFO bookkeeping -/
theorem fifo_delta (P : Params) (s s' : St) (l : Label) (o : Option Obs)
    (hs : step P s l = some (s', o)) :
    (held s' = held s ∧ submittedCmds s' = submittedCmds s ∧
        (lossBegun s'.rpc = false → lossBegun s.rpc = false) ∧ (s'.spc ≠ .dead → s.spc ≠ .dead))
    ∨ (∃ x, held s' = held s ++ [x] ∧ submittedCmds s' = submittedCmds s ++ [x] ∧
        s'.rpc = s.rpc ∧ s'.spc = s.spc)
    ∨ (List.Sublist (held s') (held s) ∧ submittedCmds s' = submittedCmds s ∧
        (lossBegun s'.rpc = true ∨ s'.spc = .dead ∨ early s.rpc)) := by
  cases step_kind P s s' l o hs with
  | tick d h => subst h; exact .inl ⟨rfl, rfl, id, id⟩
  | sender o h =>
    cases stepS_kind P s s' o h with
    | get dl m q hp hq h _ =>
      subst h; refine .inl ⟨?_, rfl, id, by simp [hp]⟩
      show wireCmds s.wire ++ inflight (.got m) ++ queueCmds q
        = wireCmds s.wire ++ inflight s.spc ++ queueCmds s.queue
      rw [hp, hq, List.append_assoc, queueCmds_cons_inflight]; simp [inflight]
    | timeout dl hp hq hd h _ =>
      subst h; exact .inl ⟨by simp [held, hp, inflight], rfl, id, by simp [hp]⟩
    | putKA hp h _ =>
      subst h; refine .inl ⟨?_, rfl, id, by simp [hp]⟩
      simp [held, hp, inflight, enqueue, queueCmds_append_nonCmd]
    | exit hp h _ => subst h; exact .inl ⟨by simp [held, hp, inflight], rfl, id, by simp [hp]⟩
    | flag hp h _ => subst h; exact .inl ⟨by simp [held, hp, inflight], rfl, id, by simp [hp]⟩
    | classify i t hp h _ => subst h; exact .inl ⟨by simp [held, hp, inflight], rfl, id, by simp [hp]⟩
    | log t i hp h _ =>
      subst h; refine .inl ⟨?_, rfl, id, by simp [hp]⟩
      cases i <;> simp [held, hp, inflight]
    | lock t i hp h _ =>
      subst h; refine .inl ⟨?_, rfl, id, by simp [hp]⟩
      cases i <;> simp [held, hp, inflight]
    | die t i hp h _ =>
      subst h; refine .inr (.inr ⟨?_, rfl, .inr (.inl rfl)⟩)
      simp only [held, inflight, List.append_nil]
      exact List.Sublist.append (List.sublist_append_left _ _) (List.Sublist.refl _)
    | write t i hp h _ =>
      subst h; refine .inl ⟨?_, rfl, id, by simp [hp]⟩
      simp only [held, hp, wireCmds_append, inflight, List.append_nil]
    | unlock hp h _ => subst h; exact .inl ⟨by simp [held, hp, inflight], rfl, id, by simp [hp]⟩
    | wake u hp hu h _ => subst h; exact .inl ⟨by simp [held, hp, inflight], rfl, id, by simp [hp]⟩
  | submit t text hq h =>
    subst h
    refine .inr (.inl ⟨(s.nextId, text), ?_, ?_, by simp, by simp⟩)
    · simp [held, queueCmds]
    · simp [submittedCmds]
  | made0 hr0 h =>
    subst h
    refine .inr (.inr ⟨?_, rfl, .inr (.inr (.inr hr0))⟩)
    simp only [held, inflight, queueCmds, List.filterMap_nil, List.append_nil]
    exact List.Sublist.trans (List.sublist_append_left _ _) (List.sublist_append_left _ _)
  | enq it r' hit hre _ h =>
    subst h
    exact .inl ⟨by simp [held, enqueue, queueCmds_append_nonCmd _ _ hit], rfl, hre.loss_mono, id⟩
  | drain x q hr hq h =>
    subst h
    refine .inr (.inr ⟨?_, rfl, .inl (by simp [hr, lossBegun])⟩)
    simp only [held, hq]
    refine List.Sublist.append (List.Sublist.refl _) ?_
    rw [← queueCmds_cons_inflight]
    exact List.sublist_append_right _ _
  | split l rest hr h => subst h; exact .inl ⟨rfl, rfl, by simp [hr, lossBegun], id⟩
  | logRecv l hr h => subst h; exact .inl ⟨rfl, rfl, by simp [hr, lossBegun], id⟩
  | env hc hre =>
    exact .inl ⟨held_congr hc.wire hc.spc hc.queue, hc.submittedCmds, hre.loss_mono, by rw [hc.spc]; exact id⟩

theorem fifo_sublist (P : Params) (s : St) (h : Reachable P s) :
    List.Sublist (wireCmds s.wire ++ inflight s.spc ++ queueCmds s.queue) (submittedCmds s) := by
  refine reachable_induction P (fun s => List.Sublist (held s) (submittedCmds s)) ?_ ?_ s h
  · simp [held, submittedCmds, wireCmds, inflight, queueCmds]
  · intro s s' l o hi hs
    rcases fifo_delta P s s' l o hs with ⟨h1, h2, _⟩ | ⟨x, h1, h2, _⟩ | ⟨h1, h2, _⟩
    · rw [h1, h2]; exact hi
    · rw [h1, h2]; exact List.Sublist.append hi (List.Sublist.refl _)
    · rw [h2]; exact h1.trans hi

theorem fifo_exact_while_up (P : Params) (s : St) (h : Reachable P s)
    (hup : lossBegun s.rpc = false) (hs : s.spc ≠ .dead) :
    wireCmds s.wire ++ inflight s.spc ++ queueCmds s.queue = submittedCmds s := by
  refine reachable_induction' P
    (fun s => lossBegun s.rpc = false → s.spc ≠ .dead → held s = submittedCmds s) ?_ ?_ s h hup hs
  · intro _ _; simp [held, submittedCmds, wireCmds, inflight, queueCmds]
  · intro s s' l o hr hi hs hup' hs'
    rcases fifo_delta P s s' l o hs with ⟨h1, h2, h3, h4⟩ | ⟨x, h1, h2, h3, h4⟩ | ⟨h1, h2, h3⟩
    · rw [h1, h2]; exact hi (h3 hup') (h4 hs')
    · rw [h1, h2, hi (h3 ▸ hup') (h4 ▸ hs')]
    · rcases h3 with h3 | h3 | h3
      · rw [h3] at hup'; cases hup'
      · exact absurd h3 hs'
      · have he := earlyInv P s hr h3
        have : held s = [] := by
          simp [held, he.1, he.2.2.1, he.2.2.2.2.1, wireCmds, inflight, queueCmds]
        rw [this] at h1
        rw [h2, List.eq_nil_of_sublist_nil h1]
        simp [submittedCmds, he.2.2.2.1]

/-- ids are handed out in increasing order -/
def IdsInv (s : St) : Prop :=
  (∀ e ∈ s.submitted, e.2.1 < s.nextId) ∧ ((submittedCmds s).map (·.1)).Nodup

theorem IdsInv.congr {s s' : St} (hi : IdsInv s) (h1 : s'.submitted = s.submitted) (h2 : s'.nextId = s.nextId) :
    IdsInv s' := by
  unfold IdsInv submittedCmds at *
  rw [h1, h2]; exact hi

theorem idsInv_step (P : Params) (s s' : St) (l : Label) (o : Option Obs) (hi : IdsInv s)
    (hs : step P s l = some (s', o)) : IdsInv s' := by
  cases step_kind P s s' l o hs with
  | tick d h => subst h; exact hi
  | sender o h => cases stepS_kind P s s' o h <;> subst_vars <;> exact hi
  | submit t text hq h =>
    subst h
    obtain ⟨h1, h2⟩ := hi
    constructor
    · intro e he
      simp only [setUpc_submitted, List.mem_append, List.mem_singleton, setUpc_nextId] at he ⊢
      rcases he with he | rfl
      · exact Nat.lt_succ_of_lt (h1 e he)
      · exact Nat.lt_succ_self _
    · simp only [submittedCmds, setUpc_submitted, List.map_append, List.map_cons, List.map_nil,
        List.map_map] at h2 ⊢
      rw [List.nodup_append]
      refine ⟨h2, by simp, ?_⟩
      intro a ha b hb
      simp only [List.mem_map, Function.comp] at ha
      obtain ⟨e, he, rfl⟩ := ha
      simp only [List.mem_singleton] at hb
      subst hb
      exact Nat.ne_of_lt (h1 e he)
  | made0 hr0 h => subst h; exact hi
  | enq it r' _ _ _ h => subst h; exact hi
  | drain x q _ _ h => subst h; exact hi
  | split l rest _ h => subst h; exact hi
  | logRecv l _ h => subst h; exact hi
  | env hc hre => exact hi.congr hc.submitted hc.nextId

theorem submitted_ids_nodup (P : Params) (s : St) (h : Reachable P s) : ((submittedCmds s).map (·.1)).Nodup :=
  (reachable_induction P IdsInv (by simp [IdsInv, submittedCmds]) (idsInv_step P) s h).2

/-- whatever the sender holds without a user id is the probe -/
def probePc : SPc → Prop
  | .logging t none => t = probe
  | .lockWait t none => t = probe
  | .writing t none => t = probe
  | _ => True

def ProbeInv (s : St) : Prop := (∀ e ∈ s.wire, e.2.2 = none → e.2.1 = probe) ∧ probePc s.spc

theorem probeInv_step (P : Params) (s s' : St) (l : Label) (o : Option Obs) (hi : ProbeInv s)
    (hs : step P s l = some (s', o)) : ProbeInv s' := by
  have ⟨h1, h2⟩ := hi
  cases step_kind P s s' l o hs with
  | tick d h => subst h; exact hi
  | sender o h =>
    cases stepS_kind P s s' o h with
    | get dl m q hp hq h _ => subst h; exact ⟨h1, trivial⟩
    | timeout dl hp hq hd h _ => subst h; exact ⟨h1, trivial⟩
    | putKA hp h _ => subst h; exact ⟨h1, trivial⟩
    | exit hp h _ => subst h; exact ⟨h1, trivial⟩
    | flag hp h _ => subst h; exact ⟨h1, rfl⟩
    | classify i t hp h _ => subst h; exact ⟨h1, trivial⟩
    | log t i hp h _ => subst h; rw [hp] at h2; exact ⟨h1, by cases i <;> exact h2⟩
    | lock t i hp h _ => subst h; rw [hp] at h2; exact ⟨h1, by cases i <;> exact h2⟩
    | die t i hp h _ => subst h; exact ⟨h1, trivial⟩
    | write t i hp h _ =>
      subst h; rw [hp] at h2
      refine ⟨?_, trivial⟩
      intro e he hn
      simp only [List.mem_append, List.mem_singleton] at he
      rcases he with he | rfl
      · exact h1 e he hn
      · simp only at hn; subst hn; exact h2
    | unlock hp h _ => subst h; exact ⟨h1, trivial⟩
    | wake u hp hu h _ => subst h; exact ⟨h1, trivial⟩
  | submit t text hq h => subst h; exact ⟨by simpa using h1, by simpa using h2⟩
  | made0 hr0 h => subst h; exact ⟨h1, trivial⟩
  | enq it r' _ _ _ h => subst h; exact hi
  | drain x q _ _ h => subst h; exact hi
  | split l rest _ h => subst h; exact hi
  | logRecv l _ h => subst h; exact hi
  | env hc hre => unfold ProbeInv; rw [hc.wire, hc.spc]; exact hi

theorem wire_non_user_is_probe (P : Params) (s : St) (h : Reachable P s) :
    ∀ e ∈ s.wire, e.2.2 = none → e.2.1 = probe :=
  (reachable_induction P ProbeInv (by simp [ProbeInv, probePc]) (probeInv_step P) s h).1

end Ynca.L4
