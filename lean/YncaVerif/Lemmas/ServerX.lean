import YncaVerif.Lemmas.Server
/-! L6: the answer to a multi-name query (INPNAME, SCENENAME) is member lines only, or one error line — never both. -/
namespace Ynca.Srv

theorem valueLine_ne_lit (s f v : String) (lit : String) (hl : ':' ∉ lit.toList) (h : valueLine s f v = lit) : False := by
  have := congrArg String.toList h
  simp only [valueLine, String.toList_append] at this
  have hm : ':' ∈ lit.toList := by rw [← this]; simp
  exact hl hm

theorem valueLine_not_error (s f v : String) : isError (valueLine s f v) = false := by
  unfold isError
  have h1 : (valueLine s f v == UNDEFINED) = false :=
    beq_false_of_ne (fun h => valueLine_ne_lit s f v UNDEFINED (by decide) h)
  have h2 : (valueLine s f v == RESTRICTED) = false :=
    beq_false_of_ne (fun h => valueLine_ne_lit s f v RESTRICTED (by decide) h)
  simp [h1, h2]

theorem sendStored_skip_no_error (st : Store) (s f : String) : ∀ l ∈ (sendStored st s f true).1, isError l = false := by
  intro l hl
  unfold sendStored at hl
  simp only at hl
  split at hl
  · simp at hl
  · simp at hl; subst hl; exact valueLine_not_error _ _ _

/-- members only, or exactly one error line -/
def MembersXorError (out : List String) : Prop :=
  out = [UNDEFINED] ∨ (out ≠ [] ∧ ∀ l ∈ out, isError l = false)

theorem names_members_xor_error (st : Store) (s : String) (keys : List (String × String)) :
    MembersXorError (let out := keys.flatMap (fun e => (sendStored st s e.1 true).1); if out.isEmpty then [UNDEFINED] else out) := by
  simp only
  split
  · exact Or.inl rfl
  · rename_i hne
    right
    refine ⟨by intro h; simp [h] at hne, ?_⟩
    intro l hl
    simp only [List.mem_flatMap] at hl
    obtain ⟨e, _, hle⟩ := hl
    exact sendStored_skip_no_error st s e.1 l hle

theorem handleGet1_inpname (st : Store) (sup : Bool) (fuel : Nat) : MembersXorError (handleGet1 st "SYS" "INPNAME" sup (fuel + 1)) := by
  have : handleGet1 st "SYS" "INPNAME" sup (fuel + 1) =
      (let out := (((subOf st "SYS").getD []).filter (fun e => e.1.startsWith "INPNAME" && e.1 != "INPNAME")).flatMap (fun e => (sendStored st "SYS" e.1 true).1)
       if out.isEmpty then [UNDEFINED] else out) := by
    simp [handleGet1]
  rw [this]; exact names_members_xor_error st "SYS" _

theorem handleGet1_scenename (st : Store) (s : String) (sup : Bool) (fuel : Nat) :
    MembersXorError (handleGet1 st s "SCENENAME" sup (fuel + 1)) := by
  have : handleGet1 st s "SCENENAME" sup (fuel + 1) =
      (let out := (((subOf st s).getD []).filter (fun e => e.1.startsWith "SCENE" && e.1.endsWith "NAME" && e.1 != "SCENENAME")).flatMap (fun e => (sendStored st s e.1 true).1)
       if out.isEmpty then [UNDEFINED] else out) := by
    simp [handleGet1]
  rw [this]; exact names_members_xor_error st s _

end Ynca.Srv
