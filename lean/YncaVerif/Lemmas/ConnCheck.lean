import YncaVerif.Model.ConnCheck
/-! Lemmas for the message-level model of `connection_check()` (L5c). -/
namespace Ynca.CC

/-- the part of the state the protocol logic lives in -/
structure D where
  flag : Bool
  listening : Bool
  event : Bool
  modelname : String
  zones : List String
  outcome : Option Outcome
deriving DecidableEq, Repr

def dOf (s : St) : D := ⟨s.flag, s.listening, s.event, s.modelname, s.zones, s.outcome⟩
def d0 : D := ⟨false, true, false, "", [], none⟩

def dMsg (d : D) (m : Msg) : D :=
  let d1 := if m.subunit == some "SYS" && m.fn == some "MODELNAME" && m.value.isSome
            then { d with modelname := m.value.getD "", event := true } else d
  if m.fn == some "AVAIL" && m.subunit.isSome then { d1 with zones := d1.zones ++ [m.subunit.getD ""] } else d1

/-- effect of one label on the protocol part (waiting and the clock do not touch it) -/
def dStep (d : D) : Label → D
  | .probe => { d with flag := true }
  | .line l =>
    let r := handleLine d.flag l
    let e := { d with flag := false }
    if r.2 || !d.listening then e else dMsg e r.1
  | .wake => if d.outcome.isNone && d.event then { d with listening := false, outcome := some (.ok d.modelname d.zones) } else d
  | .timeout => if d.outcome.isNone then { d with listening := false, outcome := some .error } else d
  | _ => d

theorem dOf_step (T : Nat) (s s' : St) (l : Label) (h : step T s l = some s') : dOf s' = dStep (dOf s) l := by
  cases l with
  | probe => simp [step] at h; subst h; rfl
  | line x =>
    simp [step] at h; subst h
    by_cases hc : ((handleLine s.flag x).2 || !s.listening) = true
    · simp only [onLine, dOf, dStep, hc, if_true]
    · simp only [onLine, dOf, dStep, hc]
      simp only [onMsg, dMsg]; (repeat' split) <;> simp_all
  | wait => simp [step] at h; obtain ⟨_, rfl⟩ := h; rfl
  | wake =>
    simp only [step] at h
    split at h
    · rename_i dl hd ho
      split at h
      · rename_i he
        simp at h; subst h
        simp [dOf, dStep, ho, he]
      · simp at h
    · simp at h
  | timeout =>
    simp only [step] at h
    split at h
    · rename_i dl hd ho
      split at h
      · simp at h; subst h
        simp [dOf, dStep, ho]
      · simp at h
    · simp at h
  | tick d =>
    simp only [step] at h
    split at h
    · simp at h
    · split at h
      · (repeat' split at h) <;> simp at h <;> subst h <;> rfl
      · simp at h; subst h; rfl

theorem dOf_run (T : Nat) (s s' : St) (ls : List Label) (h : run T s ls = some s') : dOf s' = ls.foldl dStep (dOf s) := by
  induction ls generalizing s with
  | nil => simp [run] at h; subst h; rfl
  | cons l ls ih =>
    simp only [run] at h
    cases hs : step T s l with
    | none => simp [hs] at h
    | some s1 =>
      rw [hs] at h
      simp only [List.foldl_cons, ← dOf_step T s s1 l hs]
      exact ih s1 h

/-! ### the protocol part, as a fold -/

def isMn (l : String) : Bool := (parseLine l).subunit == some "SYS" && (parseLine l).fn == some "MODELNAME"

/-- zones a list of received lines reports: the subunit of every `AVAIL` message -/
def zonesOf (ls : List String) : List String :=
  ls.filterMap (fun l => if (parseLine l).fn == some "AVAIL" then (parseLine l).subunit else none)

theorem event_mono (d : D) (l : Label) (h : d.event = true) : (dStep d l).event = true := by
  cases l <;> simp only [dStep] <;> (repeat' split) <;> simp_all [dMsg] <;> (repeat' split) <;> simp_all

theorem event_mono_fold (d : D) (ls : List Label) (h : d.event = true) : (ls.foldl dStep d).event = true := by
  induction ls generalizing d with
  | nil => exact h
  | cons l ls ih => exact ih _ (event_mono d l h)

/-- a listening check handles lines that are not model-name messages: the event stays as it is, the zones grow by what the lines
    report, the flag ends cleared -/
theorem fold_nonMn (d : D) (ans : List String) (hl : d.listening = true) (hn : ∀ a ∈ ans, isMn a = false) :
    (ans.map Label.line).foldl dStep d =
      { d with flag := if ans = [] then d.flag else false, zones := d.zones ++ zonesOf ans } := by
  induction ans generalizing d with
  | nil => simp [zonesOf]
  | cons a ans ih =>
    have ha : isMn a = false := hn a (by simp)
    simp only [List.map_cons, List.foldl_cons]
    have hstep : dStep d (.line a) =
        { d with flag := false, zones := d.zones ++ zonesOf [a] } := by
      simp only [isMn] at ha
      simp only [dStep, handleLine, hl, dMsg, zonesOf, List.filterMap_cons, List.filterMap_nil]
      have h1 : ((parseLine a).subunit == some "SYS" && (parseLine a).fn == some "MODELNAME") = false := ha
      simp only [Bool.and_assoc, h1, Bool.and_false, Bool.false_and, Bool.not_true, Bool.or_self, Bool.false_eq_true, ↓reduceIte]
      by_cases hf : ((parseLine a).fn == some "AVAIL") = true
      · cases hsu : (parseLine a).subunit with
        | none => simp [hf, hsu]
        | some z => simp [hf, hsu]
      · simp [hf]
    rw [hstep, ih { d with flag := false, zones := d.zones ++ zonesOf [a] } hl (fun x hx => hn x (by simp [hx]))]
    have hz : zonesOf [a] ++ zonesOf ans = zonesOf (a :: ans) := by
      simp only [zonesOf]; rw [← List.filterMap_append]; rfl
    simp [List.append_assoc, hz]

/-- `l` is a `SYS:MODELNAME` message carrying `name` -/
def IsMnLine (name : String) (l : String) : Prop := parseLine l = ⟨.ok, some "SYS", some "MODELNAME", some name⟩

theorem step_withheld (d : D) (l name : String) (hf : d.flag = true) (hm : IsMnLine name l) :
    dStep d (.line l) = { d with flag := false } := by
  simp [dStep, handleLine, hf, show parseLine l = _ from hm]

theorem step_delivered_mn (d : D) (l name : String) (hf : d.flag = false) (hl : d.listening = true) (hm : IsMnLine name l) :
    dStep d (.line l) = { d with modelname := name, event := true } := by
  cases d
  simp_all [dStep, handleLine, dMsg, show parseLine l = _ from hm]

theorem step_not_listening (d : D) (l : String) (hl : d.listening = false) : dStep d (.line l) = { d with flag := false } := by
  simp [dStep, hl]

/-- the sequence of protocol events when every reply is handled before the next command is taken out of the queue
    (reply latency below the command spacing); the first probe may be swallowed by a sleeping receiver -/
def fastHead (mn1 : Option String) (mn2 : String) (ans : List String) : List Label :=
  [Label.probe] ++ (mn1.map Label.line).toList ++ [Label.probe, Label.line mn2] ++ ans.map Label.line

def fastCore (mn1 : Option String) (mn2 : String) (ans : List String) (mn3 : String) : List Label :=
  fastHead mn1 mn2 ans ++ [Label.line mn3]

theorem fold_fastHead (mn1 : Option String) (mn2 : String) (ans : List String) (n1 n2 : String)
    (h1 : ∀ l, mn1 = some l → IsMnLine n1 l) (h2 : IsMnLine n2 mn2) (hn : ∀ a ∈ ans, isMn a = false) :
    (fastHead mn1 mn2 ans).foldl dStep d0 = ⟨false, true, false, "", zonesOf ans, none⟩ := by
  unfold fastHead
  rw [List.foldl_append, List.foldl_append, List.foldl_append]
  have e1 : ((mn1.map Label.line).toList).foldl dStep ([Label.probe].foldl dStep d0) = ⟨mn1.isNone, true, false, "", [], none⟩ := by
    cases mn1 with
    | none => rfl
    | some l => simp only [Option.map_some, Option.toList_some, List.foldl_cons, List.foldl_nil]
                rw [step_withheld _ l n1 rfl (h1 l rfl)]; rfl
  rw [e1]
  have e2 : [Label.probe, Label.line mn2].foldl dStep ⟨mn1.isNone, true, false, "", [], none⟩ = ⟨false, true, false, "", [], none⟩ := by
    simp only [List.foldl_cons, List.foldl_nil]
    rw [step_withheld _ mn2 n2 rfl h2]; rfl
  rw [e2, fold_nonMn _ ans rfl hn]
  simp

theorem fold_fastCore (mn1 : Option String) (mn2 : String) (ans : List String) (mn3 n1 n2 n3 : String)
    (h1 : ∀ l, mn1 = some l → IsMnLine n1 l) (h2 : IsMnLine n2 mn2) (hn : ∀ a ∈ ans, isMn a = false) (h3 : IsMnLine n3 mn3) :
    (fastCore mn1 mn2 ans mn3).foldl dStep d0 = ⟨false, true, true, n3, zonesOf ans, none⟩ := by
  unfold fastCore
  rw [List.foldl_append, fold_fastHead mn1 mn2 ans n1 n2 h1 h2 hn]
  simp only [List.foldl_cons, List.foldl_nil]
  rw [step_delivered_mn _ mn3 n3 rfl rfl h3]

def noWake : Label → Bool
  | .wake => false
  | .timeout => false
  | _ => true

theorem outcome_noWake (d : D) (ls : List Label) (h : ∀ l ∈ ls, noWake l = true) : (ls.foldl dStep d).outcome = d.outcome := by
  induction ls generalizing d with
  | nil => rfl
  | cons l ls ih =>
    simp only [List.foldl_cons]
    rw [ih _ (fun x hx => h x (by simp [hx]))]
    have := h l (by simp)
    cases l <;> simp only [dStep, noWake] at * <;> (repeat' split) <;> simp_all [dMsg] <;> (repeat' split) <;> simp_all

theorem fastCore_noWake (mn1 : Option String) (mn2 : String) (ans : List String) (mn3 : String) :
    ∀ l ∈ fastCore mn1 mn2 ans mn3, noWake l = true := by
  intro l hl
  simp only [fastCore, fastHead, List.mem_append, List.mem_cons, List.mem_map, List.not_mem_nil, or_false] at hl
  rcases hl with (((hl | hl) | hl) | hl) | hl
  · subst hl; rfl
  · cases mn1 <;> simp at hl; subst hl; rfl
  · rcases hl with rfl | rfl <;> rfl
  · obtain ⟨a, _, rfl⟩ := hl; rfl
  · subst hl; rfl

/-- in the fast scenario the event is not set before the reply to the check's own query has been handled -/
theorem fast_event_needs_all (mn1 : Option String) (mn2 : String) (ans : List String) (mn3 n1 n2 : String)
    (h1 : ∀ l, mn1 = some l → IsMnLine n1 l) (h2 : IsMnLine n2 mn2) (hn : ∀ a ∈ ans, isMn a = false)
    (pre post : List Label) (hE : pre ++ post = fastCore mn1 mn2 ans mn3) (hev : (pre.foldl dStep d0).event = true) :
    post = [] := by
  cases hp : decide (post = []) with
  | true => simpa using hp
  | false =>
    have hp : post ≠ [] := by simpa using hp
    exfalso
    have hlast : post = post.dropLast ++ [Label.line mn3] := by
      have := List.dropLast_concat_getLast hp
      have hg : post.getLast hp = Label.line mn3 := by
        have : (pre ++ post).getLast (by simp [hp]) = Label.line mn3 := by
          simp only [hE, fastCore]; simp
        rw [List.getLast_append_of_ne_nil _ hp] at this
        exact this
      rw [hg] at this; exact this.symm
    have hhead : pre ++ post.dropLast = fastHead mn1 mn2 ans := by
      have : (pre ++ post.dropLast) ++ [Label.line mn3] = fastHead mn1 mn2 ans ++ [Label.line mn3] := by
        rw [List.append_assoc, ← hlast, hE]; rfl
      exact List.append_cancel_right this
    have := event_mono_fold (pre.foldl dStep d0) post.dropLast hev
    rw [← List.foldl_append, hhead, fold_fastHead mn1 mn2 ans n1 n2 h1 h2 hn] at this
    simp at this

/-- **the recorded finding, for every device**: when both start-up probes are taken before either reply is handled (reply latency
    at or above the command spacing), the reply to the second probe is delivered as a model-name message: the event is set while
    not a single zone has been reported -/
theorem fold_slow (mn1 mn2 n1 n2 : String) (h1 : IsMnLine n1 mn1) (h2 : IsMnLine n2 mn2) :
    [Label.probe, Label.probe, Label.line mn1, Label.line mn2].foldl dStep d0 = ⟨false, true, true, n2, [], none⟩ := by
  simp only [List.foldl_cons, List.foldl_nil]
  rw [show dStep (dStep d0 Label.probe) Label.probe = ⟨true, true, false, "", [], none⟩ from rfl,
      step_withheld _ mn1 n1 rfl h1, step_delivered_mn _ mn2 n2 rfl rfl h2]

/-! ### the clock -/

def isCW : Label → Bool
  | .probe | .line _ | .wake | .timeout => true
  | _ => false

theorem fold_filter (d : D) (ls : List Label) : ls.foldl dStep d = (ls.filter isCW).foldl dStep d := by
  induction ls generalizing d with
  | nil => rfl
  | cons l ls ih =>
    cases l <;> simp [List.filter_cons, isCW, ih, dStep]

/-- time invariants of the waiting caller -/
structure TInv (s : St) : Prop where
  error_late : s.outcome = some .error → ∃ dl, s.deadline = some dl ∧ dl ≤ s.now
  urgent : ∀ dl, s.deadline = some dl → s.outcome = none → s.event = false → s.now ≤ dl
  no_outcome_without_wait : s.deadline = none → s.outcome = none

theorem tinv_step (T : Nat) (s s' : St) (l : Label) (hi : TInv s) (h : step T s l = some s') : TInv s' := by
  cases l with
  | probe => simp [step] at h; subst h; exact ⟨hi.error_late, hi.urgent, hi.no_outcome_without_wait⟩
  | line x =>
    simp [step] at h; subst h
    have e1 : (onLine s x).outcome = s.outcome := by simp only [onLine, onMsg]; (repeat' split) <;> rfl
    have e2 : (onLine s x).deadline = s.deadline := by simp only [onLine, onMsg]; (repeat' split) <;> rfl
    have e3 : (onLine s x).now = s.now := by simp only [onLine, onMsg]; (repeat' split) <;> rfl
    have e4 : (onLine s x).event = false → s.event = false := by
      simp only [onLine, onMsg]; (repeat' split) <;> simp_all
    refine ⟨?_, ?_, ?_⟩
    · rw [e1, e2, e3]; exact hi.error_late
    · rw [e1, e2, e3]; intro dl hd ho he; exact hi.urgent dl hd ho (e4 he)
    · rw [e1, e2]; exact hi.no_outcome_without_wait
  | wait =>
    simp [step] at h
    obtain ⟨hd, rfl⟩ := h
    have hn := hi.no_outcome_without_wait hd
    refine ⟨?_, ?_, ?_⟩
    · intro ho; simp [hn] at ho
    · intro dl hdl _ _; simp at hdl; subst hdl; simp
    · intro hdn; simp at hdn
  | wake =>
    simp only [step] at h
    split at h
    · rename_i dl hd ho
      split at h
      · simp at h; subst h
        exact ⟨by simp, by simp, by simp [hd]⟩
      · simp at h
    · simp at h
  | timeout =>
    simp only [step] at h
    split at h
    · rename_i dl hd ho
      split at h
      · rename_i hle
        simp at h; subst h
        exact ⟨fun _ => ⟨dl, hd, hle⟩, by simp, by simp [hd]⟩
      · simp at h
    · simp at h
  | tick d =>
    simp only [step] at h
    split at h
    · simp at h
    · split at h
      · rename_i dl hd ho
        split at h
        · simp at h
        · split at h
          · rename_i hle
            simp at h; subst h
            refine ⟨by simp [ho], ?_, by simp [hd]⟩
            intro dl' hdl' _ _
            simp [hd] at hdl'; subst hdl'; exact hle
          · simp at h
      · rename_i hnot
        simp at h; subst h
        refine ⟨?_, ?_, hi.no_outcome_without_wait⟩
        · intro ho
          obtain ⟨dl, hd, hle⟩ := hi.error_late ho
          exact ⟨dl, hd, by simp; omega⟩
        · intro dl hd ho he
          exact absurd ho (by intro ho; exact hnot dl hd ho)

theorem tinv_run (T : Nat) (s s' : St) (ls : List Label) (hi : TInv s) (h : run T s ls = some s') : TInv s' := by
  induction ls generalizing s with
  | nil => simp [run] at h; subst h; exact hi
  | cons l ls ih =>
    simp only [run] at h
    cases hs : step T s l with
    | none => simp [hs] at h
    | some s1 => rw [hs] at h; exact ih s1 (tinv_step T s s1 l hi hs) h

theorem tinv_init : TInv {} := ⟨by simp, by simp, by simp⟩

theorem run_append (T : Nat) (s : St) (a b : List Label) :
    run T s (a ++ b) = (run T s a).bind (fun s' => run T s' b) := by
  induction a generalizing s with
  | nil => simp [run]
  | cons l ls ih =>
    simp only [List.cons_append, run]
    cases step T s l with
    | none => simp
    | some r => simp [ih]

theorem fold_noCW (d : D) (ls : List Label) (h : ls.filter isCW = []) : ls.foldl dStep d = d := by
  rw [fold_filter, h]; rfl

end Ynca.CC
