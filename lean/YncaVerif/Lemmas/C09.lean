import YncaVerif.Lemmas.Subunit
/-! Helper lemmas for C09 (update callbacks). -/
namespace Ynca

/-- message `m` reports value `val` for modelled function `f` of `st`'s subunit -/
def Reports (tbls : List EnumTbl) (ex : Exotic) (st : SubSt) (m : Msg) (f : String) (val : Val) : Prop :=
  m.status = .ok ∧ m.subunit = some st.cls.id ∧ m.fn = some f ∧
  ∃ v fn, m.value = some v ∧ findFn st.cls f = some fn ∧ decodeFull tbls ex fn.conv v = some val

/-- a callback stays registered during a delivery: no callback's script unregisters it or closes the subunit -/
def StaysRegistered (script : Nat → List CbOp) (snapshot : List Nat) (cb : Nat) : Prop :=
  ∀ c ∈ snapshot, ∀ op ∈ script c, op ≠ .unreg cb ∧ op ≠ .close

/-! ### the synchronisation check -/

theorem recvSync_of_init (st : SubSt) (m : Msg) (h : st.initialized = true) : recvSync st m = st := by
  unfold recvSync; simp [h]

theorem recvSync_initialized (st : SubSt) (m : Msg) : (recvSync st m).initialized = st.initialized := by
  unfold recvSync; split <;> rfl

theorem recvSync_calls (st : SubSt) (m : Msg) : (recvSync st m).calls = st.calls := by
  unfold recvSync; split <;> rfl

theorem recvSync_cbs (st : SubSt) (m : Msg) : (recvSync st m).cbs = st.cbs := by
  unfold recvSync; split <;> rfl

theorem recvSync_closed (st : SubSt) (m : Msg) : (recvSync st m).closed = st.closed := by
  unfold recvSync; split <;> rfl

/-! ### plain delivery -/

theorem recvRest_reported (tbls : List EnumTbl) (ex : Exotic) (st : SubSt) (m : Msg) (f : String) (val : Val)
    (hinit : st.initialized = true) (hr : Reports tbls ex st m f val) :
    recvRest tbls ex st m =
      { st with cache := cacheSet st.cache f val,
                calls := st.calls ++ st.cbs.map (fun cb => ⟨cb, f, val⟩) } := by
  obtain ⟨_, h2, h3, v, fn, h4, h5, h6⟩ := hr
  unfold recvRest
  simp [h2, h3, h4, h5, h6, hinit]

theorem recv_calls_reported (tbls : List EnumTbl) (ex : Exotic) (st : SubSt) (m : Msg) (f : String) (val : Val)
    (hinit : st.initialized = true) (hopen : st.closed = false) (hr : Reports tbls ex st m f val) :
    (recv tbls ex st m).calls = st.calls ++ st.cbs.map (fun cb => ⟨cb, f, val⟩) ∧
    cacheGet (recv tbls ex st m).cache f = some val := by
  have h1 : m.status = .ok := hr.1
  rw [recv_eq, recvSync_of_init st m hinit, recvRest_reported tbls ex st m f val hinit hr]
  simp [hopen, h1, cacheGet_cacheSet_same]

theorem recvRest_cbs (tbls : List EnumTbl) (ex : Exotic) (st : SubSt) (m : Msg) :
    (recvRest tbls ex st m).cbs = st.cbs := by
  unfold recvRest
  dsimp only
  repeat' split
  all_goals rfl

theorem recv_cbs (tbls : List EnumTbl) (ex : Exotic) (st : SubSt) (m : Msg) :
    (recv tbls ex st m).cbs = st.cbs := by
  rw [recv_eq]
  split
  · rfl
  split
  · rfl
  rw [recvRest_cbs, recvSync_cbs]

/-- the calls of `recvRest`: unchanged, or one round over the registered callbacks for a reported value -/
theorem recvRest_calls_cases (tbls : List EnumTbl) (ex : Exotic) (st : SubSt) (m : Msg) :
    (recvRest tbls ex st m).calls = st.calls ∨
    (st.initialized = true ∧ ∃ f val,
      (m.subunit = some st.cls.id ∧ m.fn = some f ∧
        ∃ v fn, m.value = some v ∧ findFn st.cls f = some fn ∧ decodeFull tbls ex fn.conv v = some val) ∧
      (recvRest tbls ex st m).calls = st.calls ++ st.cbs.map (fun cb => ⟨cb, f, val⟩)) := by
  unfold recvRest
  dsimp only
  split
  · exact Or.inl rfl
  rename_i hsub
  split
  · rename_i f v hf hv
    split
    · rename_i fn hfn
      split
      · rename_i val hval
        split
        · rename_i hi
          refine Or.inr ⟨hi, f, val, ⟨?_, hf, v, fn, hv, hfn, hval⟩, rfl⟩
          simpa using hsub
        · exact Or.inl rfl
      · exact Or.inl rfl
    · exact Or.inl rfl
  · exact Or.inl rfl

/-- the calls of `recv`: unchanged, or one round over the registered callbacks for a reported value -/
theorem recv_calls_cases (tbls : List EnumTbl) (ex : Exotic) (st : SubSt) (m : Msg) :
    (recv tbls ex st m).calls = st.calls ∨
    (st.initialized = true ∧ st.closed = false ∧ ∃ f val, Reports tbls ex st m f val ∧
      (recv tbls ex st m).calls = st.calls ++ st.cbs.map (fun cb => ⟨cb, f, val⟩)) := by
  rw [recv_eq]
  split
  · exact Or.inl rfl
  rename_i hcl
  split
  · exact Or.inl rfl
  rename_i hst
  rcases recvRest_calls_cases tbls ex (recvSync st m) m with h | ⟨hi, f, val, ⟨h2, h3, h4⟩, hc⟩
  · left; rw [h, recvSync_calls]
  · right
    rw [recvSync_initialized] at hi
    rw [recvSync_cls] at h2 h4
    rw [recvSync_calls, recvSync_cbs] at hc
    refine ⟨hi, by simpa using hcl, f, val, ⟨?_, h2, h3, h4⟩, hc⟩
    simpa using hst

theorem recv_calls_filtered (tbls : List EnumTbl) (ex : Exotic) (st : SubSt) (m : Msg)
    (h : st.initialized = false ∨ st.closed = true ∨ ¬ ∃ f val, Reports tbls ex st m f val) :
    (recv tbls ex st m).calls = st.calls := by
  rcases recv_calls_cases tbls ex st m with hc | ⟨hi, hcl, f, val, hr, _⟩
  · exact hc
  · exfalso
    rcases h with h | h | h
    · rw [hi] at h; cases h
    · rw [hcl] at h; cases h
    · exact h ⟨f, val, hr⟩

theorem recv_calls_prefix (tbls : List EnumTbl) (ex : Exotic) (st : SubSt) (m : Msg) :
    ∃ more, (recv tbls ex st m).calls = st.calls ++ more ∧ ∀ c ∈ more, c.cb ∈ st.cbs := by
  rcases recv_calls_cases tbls ex st m with hc | ⟨_, _, f, val, _, hc⟩
  · exact ⟨[], by simp [hc], by simp⟩
  · refine ⟨_, hc, ?_⟩
    intro c hcm
    rcases List.mem_map.mp hcm with ⟨cb, hcb, rfl⟩
    exact hcb

theorem foldl_recv_cbs (tbls : List EnumTbl) (ex : Exotic) (st : SubSt) (h : List Msg) :
    (h.foldl (recv tbls ex) st).cbs = st.cbs := by
  induction h generalizing st with
  | nil => rfl
  | cons m h ih => rw [List.foldl_cons, ih, recv_cbs]

theorem foldl_recv_calls_prefix' (tbls : List EnumTbl) (ex : Exotic) (st : SubSt) (h : List Msg) :
    ∃ more, (h.foldl (recv tbls ex) st).calls = st.calls ++ more ∧ ∀ c ∈ more, c.cb ∈ st.cbs := by
  induction h generalizing st with
  | nil => exact ⟨[], by simp, by simp⟩
  | cons m h ih =>
    obtain ⟨more₁, h1, hm1⟩ := recv_calls_prefix tbls ex st m
    obtain ⟨more₂, h2, hm2⟩ := ih (recv tbls ex st m)
    refine ⟨more₁ ++ more₂, ?_, ?_⟩
    · rw [List.foldl_cons, h2, h1, List.append_assoc]
    · intro c hc
      rcases List.mem_append.mp hc with hc | hc
      · exact hm1 c hc
      · have := hm2 c hc
        rwa [recv_cbs] at this

theorem foldl_recv_calls_prefix (tbls : List EnumTbl) (ex : Exotic) (st : SubSt) (h : List Msg) :
    ∃ more, (h.foldl (recv tbls ex) st).calls = st.calls ++ more := by
  obtain ⟨more, hm, _⟩ := foldl_recv_calls_prefix' tbls ex st h
  exact ⟨more, hm⟩

theorem no_calls_after_unregister (tbls : List EnumTbl) (ex : Exotic) (st : SubSt) (cb : Nat) (h : List Msg) :
    ∀ c ∈ ((h.foldl (recv tbls ex) (unregisterCb st cb)).calls.drop st.calls.length), c.cb ≠ cb := by
  obtain ⟨more, hm, hcbs⟩ := foldl_recv_calls_prefix' tbls ex (unregisterCb st cb) h
  have hcalls : (unregisterCb st cb).calls = st.calls := rfl
  rw [hm, hcalls, List.drop_left]
  intro c hc hcc
  have := hcbs c hc
  simp [unregisterCb, hcc] at this

theorem recv_of_closed (tbls : List EnumTbl) (ex : Exotic) (st : SubSt) (m : Msg) (h : st.closed = true) :
    recv tbls ex st m = st := by
  rw [recv_eq]; simp [h]

theorem foldl_recv_of_closed (tbls : List EnumTbl) (ex : Exotic) (st : SubSt) (h : List Msg)
    (hc : st.closed = true) : h.foldl (recv tbls ex) st = st := by
  induction h with
  | nil => rfl
  | cons m h ih => rw [List.foldl_cons, recv_of_closed tbls ex st m hc, ih]

theorem no_calls_after_close (tbls : List EnumTbl) (ex : Exotic) (st : SubSt) (h : List Msg) :
    (h.foldl (recv tbls ex) (closeSub st)).calls = st.calls := by
  rw [foldl_recv_of_closed tbls ex (closeSub st) h rfl]
  rfl

/-! ### scripted (re-entrant) delivery -/

theorem applyCbOp_calls (s : SubSt) (op : CbOp) : (applyCbOp s op).calls = s.calls := by
  cases op with
  | reg cb =>
    simp only [applyCbOp, registerCb]
    split
    · rfl
    · split <;> rfl
  | unreg cb => rfl
  | close => rfl

theorem foldl_applyCbOp_calls (ops : List CbOp) (s : SubSt) : (ops.foldl applyCbOp s).calls = s.calls := by
  induction ops generalizing s with
  | nil => rfl
  | cons op ops ih => rw [List.foldl_cons, ih, applyCbOp_calls]

theorem applyCbOp_keeps (s : SubSt) (op : CbOp) (cb : Nat) (hmem : cb ∈ s.cbs) (hopen : s.closed = false)
    (hop : op ≠ .unreg cb ∧ op ≠ .close) :
    cb ∈ (applyCbOp s op).cbs ∧ (applyCbOp s op).closed = false := by
  cases op with
  | reg c =>
    have e : applyCbOp s (.reg c) = registerCb s c := by simp [applyCbOp, hopen]
    rw [e]
    unfold registerCb
    split
    · exact ⟨hmem, hopen⟩
    · exact ⟨List.mem_append_left _ hmem, hopen⟩
  | unreg c =>
    have hne : cb ≠ c := fun e => hop.1 (by rw [e])
    refine ⟨?_, hopen⟩
    simp [applyCbOp, unregisterCb, hmem, hne]
  | close => exact absurd rfl hop.2

theorem foldl_applyCbOp_keeps (ops : List CbOp) (s : SubSt) (cb : Nat) (hmem : cb ∈ s.cbs)
    (hopen : s.closed = false) (hops : ∀ op ∈ ops, op ≠ .unreg cb ∧ op ≠ .close) :
    cb ∈ (ops.foldl applyCbOp s).cbs ∧ (ops.foldl applyCbOp s).closed = false := by
  induction ops generalizing s with
  | nil => exact ⟨hmem, hopen⟩
  | cons op ops ih =>
    rw [List.foldl_cons]
    obtain ⟨h1, h2⟩ := applyCbOp_keeps s op cb hmem hopen (hops op (List.mem_cons_self ..))
    exact ih _ h1 h2 (fun o ho => hops o (List.mem_cons_of_mem _ ho))

/-- what a walk over a snapshot appends to the invocation record -/
theorem deliverSnapshot_calls (script : Nat → List CbOp) (f : String) (val : Val) (snap : List Nat) (s : SubSt) :
    ∃ extra, (deliverSnapshot script f val snap s).calls = s.calls ++ extra ∧
      (∀ c ∈ extra, c.fn = f ∧ c.val = val) ∧
      (extra.map (·.cb)).Sublist snap ∧
      (∀ cb ∈ snap, cb ∈ s.cbs → s.closed = false → StaysRegistered script snap cb →
        (⟨cb, f, val⟩ : CbCall) ∈ extra) := by
  induction snap generalizing s with
  | nil => exact ⟨[], by simp [deliverSnapshot], by simp, by simp, by simp⟩
  | cons c rest ih =>
    unfold deliverSnapshot
    split
    · rename_i hfire
      obtain ⟨extra, h1, h2, h3, h4⟩ :=
        ih ((script c).foldl applyCbOp { s with calls := s.calls ++ [⟨c, f, val⟩] })
      refine ⟨⟨c, f, val⟩ :: extra, ?_, ?_, ?_, ?_⟩
      · rw [h1, foldl_applyCbOp_calls]; simp
      · intro x hx
        rcases List.mem_cons.mp hx with rfl | hx
        · exact ⟨rfl, rfl⟩
        · exact h2 x hx
      · simpa using h3
      · intro cb hcb hmem hopen hstay
        by_cases hcc : cb = c
        · subst hcc; exact List.mem_cons_self ..
        · have hrest : cb ∈ rest := by
            rcases List.mem_cons.mp hcb with h | h
            · exact absurd h hcc
            · exact h
          obtain ⟨k1, k2⟩ := foldl_applyCbOp_keeps (script c)
            { s with calls := s.calls ++ [⟨c, f, val⟩] } cb hmem hopen
            (hstay c (List.mem_cons_self ..))
          exact List.mem_cons_of_mem _
            (h4 cb hrest k1 k2 (fun x hx => hstay x (List.mem_cons_of_mem _ hx)))
    · rename_i hfire
      obtain ⟨extra, h1, h2, h3, h4⟩ := ih s
      refine ⟨extra, h1, h2, h3.cons _, ?_⟩
      intro cb hcb hmem hopen hstay
      have hcc : cb ≠ c := by
        intro e
        subst e
        apply hfire
        simp [hmem, hopen]
      have hrest : cb ∈ rest := by
        rcases List.mem_cons.mp hcb with h | h
        · exact absurd h hcc
        · exact h
      exact h4 cb hrest hmem hopen (fun x hx => hstay x (List.mem_cons_of_mem _ hx))

/-- the part of `recvScripted` after the synchronisation check -/
def scriptedRest (tbls : List EnumTbl) (ex : Exotic) (script : Nat → List CbOp) (st : SubSt) (m : Msg) : SubSt :=
  if m.subunit ≠ some st.cls.id then st else
  match m.fn, m.value with
  | some f, some v =>
    match findFn st.cls f with
    | some fn =>
      match decodeFull tbls ex fn.conv v with
      | some val =>
        let st := { st with cache := cacheSet st.cache f val }
        if st.initialized then deliverSnapshot script f val st.cbs st else st
      | none => st
    | none => st
  | _, _ => st

theorem recvScripted_eq (tbls : List EnumTbl) (ex : Exotic) (script : Nat → List CbOp) (st : SubSt) (m : Msg) :
    recvScripted tbls ex script st m =
      if st.closed then st else if m.status ≠ .ok then st else
        scriptedRest tbls ex script (recvSync st m) m := rfl

theorem scriptedRest_reported (tbls : List EnumTbl) (ex : Exotic) (script : Nat → List CbOp)
    (st : SubSt) (m : Msg) (f : String) (val : Val)
    (hinit : st.initialized = true) (hr : Reports tbls ex st m f val) :
    scriptedRest tbls ex script st m =
      deliverSnapshot script f val st.cbs { st with cache := cacheSet st.cache f val } := by
  obtain ⟨_, h2, h3, v, fn, h4, h5, h6⟩ := hr
  unfold scriptedRest
  simp [h2, h3, h4, h5, h6, hinit]

theorem recvScripted_safe (tbls : List EnumTbl) (ex : Exotic) (script : Nat → List CbOp)
    (st : SubSt) (m : Msg) (f : String) (val : Val)
    (hinit : st.initialized = true) (hopen : st.closed = false) (hnd : st.cbs.Nodup)
    (hr : Reports tbls ex st m f val) :
    let st' := recvScripted tbls ex script st m
    let new := st'.calls.drop st.calls.length
    st'.calls.take st.calls.length = st.calls ∧
    (∀ c ∈ new, c.fn = f ∧ c.val = val ∧ c.cb ∈ st.cbs) ∧
    (new.map (·.cb)).Nodup ∧
    (∀ cb ∈ st.cbs, StaysRegistered script st.cbs cb → (⟨cb, f, val⟩ : CbCall) ∈ new) := by
  have h1 : m.status = .ok := hr.1
  have heq : recvScripted tbls ex script st m =
      deliverSnapshot script f val st.cbs { st with cache := cacheSet st.cache f val } := by
    rw [recvScripted_eq, recvSync_of_init st m hinit, scriptedRest_reported tbls ex script st m f val hinit hr]
    simp [hopen, h1]
  obtain ⟨extra, e1, e2, e3, e4⟩ :=
    deliverSnapshot_calls script f val st.cbs { st with cache := cacheSet st.cache f val }
  have hcalls : (recvScripted tbls ex script st m).calls = st.calls ++ extra := by rw [heq, e1]
  intro st' new
  have hnew : new = extra := by
    show (recvScripted tbls ex script st m).calls.drop st.calls.length = extra
    rw [hcalls, List.drop_left]
  refine ⟨?_, ?_, ?_, ?_⟩
  · show (recvScripted tbls ex script st m).calls.take st.calls.length = st.calls
    rw [hcalls, List.take_left]
  · rw [hnew]
    intro c hc
    refine ⟨(e2 c hc).1, (e2 c hc).2, ?_⟩
    exact e3.subset (List.mem_map.mpr ⟨c, hc, rfl⟩)
  · rw [hnew]
    exact e3.nodup hnd
  · rw [hnew]
    intro cb hcb hstay
    exact e4 cb hcb hcb hopen hstay

/-- with inert callbacks a walk over registered callbacks of an open subunit invokes each of them -/
theorem deliverSnapshot_inert (f : String) (val : Val) (snap : List Nat) (s : SubSt)
    (hopen : s.closed = false) (hsub : ∀ c ∈ snap, c ∈ s.cbs) :
    deliverSnapshot (fun _ => []) f val snap s =
      { s with calls := s.calls ++ snap.map (fun cb => ⟨cb, f, val⟩) } := by
  induction snap generalizing s with
  | nil => simp [deliverSnapshot]
  | cons c rest ih =>
    have hc : c ∈ s.cbs := hsub c (List.mem_cons_self ..)
    unfold deliverSnapshot
    rw [if_pos (by simp [hc, hopen])]
    simp only [List.foldl_nil]
    rw [ih { s with calls := s.calls ++ [⟨c, f, val⟩] } hopen (fun x hx => hsub x (List.mem_cons_of_mem _ hx))]
    simp [List.append_assoc]

theorem scriptedRest_inert (tbls : List EnumTbl) (ex : Exotic) (st : SubSt) (m : Msg)
    (hopen : st.closed = false) :
    scriptedRest tbls ex (fun _ => []) st m = recvRest tbls ex st m := by
  unfold scriptedRest recvRest
  dsimp only
  by_cases hsub : m.subunit ≠ some st.cls.id
  · rw [if_pos hsub, if_pos hsub]
  rw [if_neg hsub, if_neg hsub]
  cases m.fn with
  | none => rfl
  | some f =>
    cases m.value with
    | none => rfl
    | some v =>
      dsimp only
      cases findFn st.cls f with
      | none => rfl
      | some fn =>
        dsimp only
        cases decodeFull tbls ex fn.conv v with
        | none => rfl
        | some val =>
          dsimp only
          by_cases hi : st.initialized = true
          · rw [if_pos hi, if_pos hi]
            exact deliverSnapshot_inert _ _ _ _ hopen (fun _ h => h)
          · rw [if_neg hi, if_neg hi]

theorem recvScripted_inert (tbls : List EnumTbl) (ex : Exotic) (st : SubSt) (m : Msg) (_hnd : st.cbs.Nodup) :
    recvScripted tbls ex (fun _ => []) st m = recv tbls ex st m := by
  rw [recvScripted_eq, recv_eq]
  split
  · rfl
  rename_i hcl
  split
  · rfl
  apply scriptedRest_inert
  rw [recvSync_closed]
  simpa using hcl

end Ynca
