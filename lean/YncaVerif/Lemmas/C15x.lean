import YncaVerif.Lemmas.C15
import YncaVerif.Lemmas.C01
/-! Helper lemmas for C15x (history-level "queued commands are discarded").

Ids are handed out in increasing order (`IdsInv`), so "submitted by the time of state `s0`" is the same
as "id below `s0.nextId`"; the invariants below are phrased with such a mark `n`. -/
namespace Ynca.L4

/-- the reader is past the drain loop of `connection_lost` (the loop has found the queue empty) -/
def drainDone : RPc → Bool
  | .lost 0 => false
  | .lost 1 => false
  | .lost _ => true
  | .lostJoin _ => true
  | .inDiscCb => true
  | .done => true
  | _ => false

/-- once past the drain, always past the drain -/
theorem drainDone_final (P : Params) (s s' : St) (l : Label) (o : Option Obs)
    (hd : drainDone s.rpc = true) (h : step P s l = some (s', o)) : drainDone s'.rpc = true := by
  cases l <;> l4_step_cases h
  all_goals simp_all [drainDone]

/-- the only way past the drain is the step that finds the queue empty -/
theorem drainDone_enter (P : Params) (s s' : St) (l : Label) (o : Option Obs)
    (hd : drainDone s.rpc = false) (h : step P s l = some (s', o)) (hd' : drainDone s'.rpc = true) :
    s'.queue = [] := by
  cases l <;> l4_step_cases h
  all_goals simp_all [drainDone]

/-- an invariant of single steps holds along every execution -/
theorem run_invariant (P : Params) (Inv : St → Prop)
    (hstep : ∀ s s' l o, Inv s → step P s l = some (s', o) → Inv s') :
    ∀ (ls : List Label) (s0 s : St), Inv s0 → run P s0 ls = some s → Inv s := by
  intro ls
  induction ls with
  | nil => intro s0 s h hr; simp [run] at hr; subst hr; exact h
  | cons l ls ih =>
    intro s0 s h hr
    simp only [run] at hr
    cases hst : step P s0 l with
    | none => simp [hst] at hr
    | some r => obtain ⟨s1, o⟩ := r; simp [hst] at hr; exact ih s1 s (hstep s0 s1 l o h hst) hr

theorem Reachable.run {P : Params} {s s' : St} {ls : List Label}
    (h : Reachable P s) (hr : L4.run P s ls = some s') : Reachable P s' := by
  obtain ⟨ls0, h0⟩ := h
  exact ⟨ls0 ++ ls, by rw [run_append, h0]; simpa using hr⟩

/-- every queued user command has an id at or above the mark `n`, and so will all future ones -/
def QNew (n : Nat) (s : St) : Prop := n ≤ s.nextId ∧ ∀ c ∈ queueCmds s.queue, n ≤ c.1

theorem queueCmds_tail (x : Item) (q : List Item) : ∀ c ∈ queueCmds q, c ∈ queueCmds (x :: q) := by
  intro c hc
  rw [← queueCmds_cons_inflight]
  exact List.mem_append_right _ hc

/-- `QNew n` is preserved by every step of the model -/
theorem qnew_step (P : Params) (n : Nat) (s s' : St) (l : Label) (o : Option Obs)
    (hi : QNew n s) (hs : step P s l = some (s', o)) : QNew n s' := by
  obtain ⟨h1, h2⟩ := hi
  cases step_kind P s s' l o hs with
  | tick d h => subst h; exact ⟨h1, h2⟩
  | sender o h =>
    cases stepS_kind P s s' o h with
    | get dl m q hp hq h _ =>
      subst h; refine ⟨h1, fun c hc => h2 c ?_⟩
      rw [hq]; exact queueCmds_tail m q c hc
    | timeout dl hp hq hd h _ => subst h; exact ⟨h1, h2⟩
    | putKA hp h _ =>
      subst h; refine ⟨h1, ?_⟩
      simpa [enqueue, queueCmds_append_nonCmd] using h2
    | exit hp h _ => subst h; exact ⟨h1, h2⟩
    | flag hp h _ => subst h; exact ⟨h1, h2⟩
    | classify i t hp h _ => subst h; exact ⟨h1, h2⟩
    | log t i hp h _ => subst h; exact ⟨h1, h2⟩
    | lock t i hp h _ => subst h; exact ⟨h1, h2⟩
    | die t i hp h _ => subst h; exact ⟨h1, h2⟩
    | write t i hp h _ => subst h; exact ⟨h1, h2⟩
    | unlock hp h _ => subst h; exact ⟨h1, h2⟩
    | wake u hp hu h _ => subst h; exact ⟨h1, h2⟩
  | submit t text hq h =>
    subst h
    refine ⟨by simp only [setUpc_nextId]; omega, ?_⟩
    intro c hc
    simp only [setUpc_queue, queueCmds, List.filterMap_append, List.filterMap_cons,
      List.filterMap_nil, List.mem_append, List.mem_singleton] at hc
    rcases hc with hc | rfl
    · exact h2 c hc
    · exact h1
  | made0 hr0 h => subst h; exact ⟨h1, by simp [queueCmds]⟩
  | enq it r' hit hre _ h =>
    subst h; refine ⟨h1, ?_⟩
    simpa [enqueue, queueCmds_append_nonCmd _ _ hit] using h2
  | drain x q hr hq h =>
    subst h; refine ⟨h1, fun c hc => h2 c ?_⟩
    rw [hq]; exact queueCmds_tail x q c hc
  | split l rest hr h => subst h; exact ⟨h1, h2⟩
  | logRecv l hr h => subst h; exact ⟨h1, h2⟩
  | env hc hre => exact ⟨by rw [hc.nextId]; exact h1, by rw [hc.queue]; exact h2⟩

/-- ids are never handed back -/
theorem nextId_mono_step (P : Params) (n : Nat) (s s' : St) (l : Label) (o : Option Obs)
    (hi : n ≤ s.nextId) (hs : step P s l = some (s', o)) : n ≤ s'.nextId := by
  cases step_kind P s s' l o hs with
  | tick d h => subst h; exact hi
  | sender o h => cases stepS_kind P s s' o h <;> subst_vars <;> exact hi
  | submit t text hq h => subst h; simp only [setUpc_nextId]; omega
  | made0 hr0 h => subst h; exact hi
  | enq it r' _ _ _ h => subst h; exact hi
  | drain x q _ _ h => subst h; exact hi
  | split l rest _ h => subst h; exact hi
  | logRecv l _ h => subst h; exact hi
  | env hc hre => rw [hc.nextId]; exact hi

/-- the invariant behind `C15_queued_discarded`: from a state that is not yet past the drain, whenever
    the reader is past the drain every queued command carries an id handed out after that state -/
def DrainInv (n : Nat) (s : St) : Prop := n ≤ s.nextId ∧ (drainDone s.rpc = true → QNew n s)

theorem drainInv_step (P : Params) (n : Nat) (s s' : St) (l : Label) (o : Option Obs)
    (hi : DrainInv n s) (hs : step P s l = some (s', o)) : DrainInv n s' := by
  refine ⟨nextId_mono_step P n s s' l o hi.1 hs, fun hd' => ?_⟩
  cases hd : drainDone s.rpc with
  | true => exact qnew_step P n s s' l o (hi.2 hd) hs
  | false =>
    refine ⟨nextId_mono_step P n s s' l o hi.1 hs, ?_⟩
    rw [drainDone_enter P s s' l o hd hs hd']
    simp [queueCmds]

theorem drained_queue_new (P : Params) (s0 s : St) (ls : List Label)
    (hpre : drainDone s0.rpc = false) (hrun : run P s0 ls = some s) (hpost : drainDone s.rpc = true) :
    QNew s0.nextId s :=
  (run_invariant P (DrainInv s0.nextId) (drainInv_step P s0.nextId) ls s0 s
    ⟨Nat.le_refl _, fun h => by rw [hpre] at h; cases h⟩ hrun).2 hpost

theorem idsInv_reachable (P : Params) (s : St) (h : Reachable P s) : IdsInv s :=
  reachable_induction P IdsInv (by simp [IdsInv, submittedCmds]) (idsInv_step P) s h

theorem submittedCmds_id_lt (P : Params) (s : St) (h : Reachable P s) :
    ∀ c ∈ submittedCmds s, c.1 < s.nextId := by
  intro c hc
  simp only [submittedCmds, List.mem_map] at hc
  obtain ⟨e, he, rfl⟩ := hc
  exact (idsInv_reachable P s h).1 e he

/-- whatever is submitted, in the sender's hands, queued or written later than `s` was either
    submitted by `s` or has an id at or above `s.nextId` -/
theorem submitted_mono (P : Params) (s0 s : St) (ls : List Label) (hrun : run P s0 ls = some s) :
    ∀ c ∈ submittedCmds s, c ∈ submittedCmds s0 ∨ s0.nextId ≤ c.1 := by
  refine run_invariant P
    (fun s => s0.nextId ≤ s.nextId ∧ ∀ c ∈ submittedCmds s, c ∈ submittedCmds s0 ∨ s0.nextId ≤ c.1)
    ?_ ls s0 s ⟨Nat.le_refl _, fun c hc => .inl hc⟩ hrun |>.2
  intro s s' l o ⟨h1, h2⟩ hs
  refine ⟨nextId_mono_step P _ s s' l o h1 hs, ?_⟩
  cases step_kind P s s' l o hs with
  | tick d h => subst h; exact h2
  | sender o h => cases stepS_kind P s s' o h <;> subst_vars <;> exact h2
  | submit t text hq h =>
    subst h
    intro c hc
    simp only [submittedCmds_setUpc] at hc
    simp only [submittedCmds, List.map_append, List.map_cons, List.map_nil, List.mem_append,
      List.mem_singleton] at hc
    rcases hc with hc | rfl
    · exact h2 c hc
    · exact .inr h1
  | made0 hr0 h => subst h; exact h2
  | enq it r' _ _ _ h => subst h; exact h2
  | drain x q _ _ h => subst h; exact h2
  | split l rest _ h => subst h; exact h2
  | logRecv l _ h => subst h; exact h2
  | env hc hre => rw [hc.submittedCmds]; exact h2

/-! ### what can still reach the wire -/

/-- the commands of `l` with an id below the mark -/
def oldC (n : Nat) (l : List (Nat × String)) : List (Nat × String) := l.filter (fun c => decide (c.1 < n))

theorem oldC_append (n : Nat) (a b : List (Nat × String)) : oldC n (a ++ b) = oldC n a ++ oldC n b := by
  simp [oldC]

theorem oldC_new (n : Nat) (l : List (Nat × String)) (h : ∀ c ∈ l, n ≤ c.1) : oldC n l = [] := by
  simp only [oldC, List.filter_eq_nil_iff, decide_eq_true_eq]
  intro c hc; have := h c hc; omega

theorem oldC_sublist (n : Nat) {a b : List (Nat × String)} (h : a.Sublist b) : (oldC n a).Sublist (oldC n b) :=
  List.Sublist.filter _ h

theorem filter_sublist_filter {α : Type} (p q : α → Bool) (l : List α)
    (h : ∀ a, p a = true → q a = true) : (l.filter p).Sublist (l.filter q) := by
  induction l with
  | nil => simp
  | cons a l ih =>
    cases hp : p a with
    | true => simp only [List.filter_cons, hp, h a hp, if_true]; exact ih.cons_cons a
    | false =>
      simp only [List.filter_cons, hp, Bool.false_eq_true, if_false]
      split
      · exact ih.cons a
      · exact ih

theorem inflight_length (p : SPc) : (inflight p).length ≤ 1 := by
  unfold inflight; split <;> simp

/-- with base wire `w0` and base in-flight list `f0`: the wire has only grown, and the old commands among
    what was appended and what the sender holds come from `f0` -/
def WireInv (n : Nat) (w0 : List (Nat × String × Option Nat)) (f0 : List (Nat × String)) (s : St) : Prop :=
  QNew n s ∧ ∃ ext, s.wire = w0 ++ ext ∧ (oldC n (wireCmds ext ++ inflight s.spc)).Sublist f0

theorem wireCmds_append' (a b : List (Nat × String × Option Nat)) :
    wireCmds (a ++ b) = wireCmds a ++ wireCmds b := by
  simp [wireCmds]

theorem wireInv_step (P : Params) (n : Nat) (w0 : List (Nat × String × Option Nat)) (f0 : List (Nat × String))
    (s s' : St) (l : Label) (o : Option Obs)
    (hi : WireInv n w0 f0 s) (hs : step P s l = some (s', o)) : WireInv n w0 f0 s' := by
  refine ⟨qnew_step P n s s' l o hi.1 hs, ?_⟩
  obtain ⟨⟨_, hq⟩, ext, hw, hsub⟩ := hi
  -- steps that leave wire and sender alone
  have same : s'.wire = s.wire → s'.spc = s.spc →
      ∃ ext, s'.wire = w0 ++ ext ∧ (oldC n (wireCmds ext ++ inflight s'.spc)).Sublist f0 :=
    fun e1 e2 => ⟨ext, by rw [e1, hw], by rw [e2]; exact hsub⟩
  -- sender steps that keep the wire and change what it holds to something no larger (up to new ids)
  have hold : ∀ p' : SPc, s'.wire = s.wire → s'.spc = p' →
      (oldC n (inflight p')).Sublist (oldC n (inflight s.spc)) →
      ∃ ext, s'.wire = w0 ++ ext ∧ (oldC n (wireCmds ext ++ inflight s'.spc)).Sublist f0 := by
    intro p' e1 e2 h
    refine ⟨ext, by rw [e1, hw], ?_⟩
    rw [e2]
    rw [oldC_append] at hsub ⊢
    exact (List.Sublist.append (List.Sublist.refl _) h).trans hsub
  cases step_kind P s s' l o hs with
  | tick d h => subst h; exact same rfl rfl
  | sender o h =>
    cases stepS_kind P s s' o h with
    | get dl m q hp hqq h _ =>
      subst h
      refine hold (.got m) rfl rfl ?_
      have : oldC n (inflight (.got m)) = [] := by
        apply oldC_new
        intro c hc
        apply hq c
        rw [hqq, ← queueCmds_cons_inflight]
        exact List.mem_append_left _ hc
      rw [this]; exact List.nil_sublist _
    | timeout dl hp hqq hd h _ => subst h; exact hold _ rfl rfl (by simp [inflight, oldC])
    | putKA hp h _ => subst h; exact hold _ rfl rfl (by simp [inflight, oldC])
    | exit hp h _ => subst h; exact hold _ rfl rfl (by simp [inflight, oldC])
    | flag hp h _ => subst h; exact hold _ rfl rfl (by simp [inflight, oldC])
    | classify i t hp h _ => subst h; exact hold _ rfl rfl (by rw [hp]; simp [inflight])
    | log t i hp h _ => subst h; exact hold _ rfl rfl (by rw [hp]; cases i <;> simp [inflight])
    | lock t i hp h _ => subst h; exact hold _ rfl rfl (by rw [hp]; cases i <;> simp [inflight])
    | die t i hp h _ => subst h; exact hold _ rfl rfl (by simp [inflight, oldC])
    | write t i hp h _ =>
      subst h
      refine ⟨ext ++ [(s.now, t, i)], by simp [hw], ?_⟩
      rw [hp] at hsub
      simpa [wireCmds_append, inflight] using hsub
    | unlock hp h _ => subst h; exact hold _ rfl rfl (by simp [inflight, oldC])
    | wake u hp hu h _ => subst h; exact hold _ rfl rfl (by simp [inflight, oldC])
  | submit t text hq' h => subst h; exact same (by simp) (by simp)
  | made0 hr0 h => subst h; exact hold _ rfl rfl (by simp [inflight, oldC])
  | enq it r' _ _ _ h => subst h; exact same rfl rfl
  | drain x q _ _ h => subst h; exact same rfl rfl
  | split l rest _ h => subst h; exact same rfl rfl
  | logRecv l _ h => subst h; exact same rfl rfl
  | env hc hre => exact same hc.wire hc.spc

theorem wire_growth (P : Params) (n : Nat) (s s' : St) (ls : List Label)
    (hq : QNew n s) (hrun : run P s ls = some s') :
    ∃ ext, s'.wire = s.wire ++ ext ∧
      (oldC n (wireCmds ext ++ inflight s'.spc)).Sublist (oldC n (inflight s.spc)) := by
  have := run_invariant P (WireInv n s.wire (oldC n (inflight s.spc)))
    (wireInv_step P n s.wire (oldC n (inflight s.spc))) ls s s'
    ⟨hq, [], by simp, by simp [wireCmds]⟩ hrun
  exact this.2

end Ynca.L4
