import YncaVerif.Lemmas.ApiTimed
/-! The budget invariant of L7t, step by step. -/
set_option linter.unusedSimpArgs false
namespace Ynca.L7

theorem tinv_step (P : Params) (N : Nat) (s s' : T) (l : TLabel) (hI : Inv P s.a) (hT : TInv P N s)
    (h : stepT P N s l = some s') : TInv P N s' := by
  have hph := hI.phase
  unfold PhaseInv at hph
  cases l with
  | construct n =>
    unfold stepT at h
    simp only [] at h
    split at h
    · rename_i i rest hb
      split at h
      · rename_i hc
        simp only [Bool.and_eq_true, Option.isNone_iff_eq_none, decide_eq_true_eq] at hc
        cases h
        unfold TInv at hT ⊢
        simp only [hb] at hT ⊢
        rw [hc.1] at hT
        simp only [] at hT
        refine ⟨hT.1, ?_, ?_, by omega⟩
        · omega
        · have := wait_le_D P N n hc.2
          have := B_succ P N s.t0 s.built
          omega
      · cases h
    · cases h
  | base l0 =>
    cases l0 with
    | start =>
      cases hst : step P s.a .start with
      | none => simp [stepT, hst] at h
      | some a' =>
        simp [stepT, hst] at h
        subst h
        simp only [step] at hst
        split at hst
        · cases hst
          simp [TInv]
        · cases hst
    | connectFails =>
      cases hst : step P s.a .connectFails with
      | none => simp [stepT, hst] at h
      | some a' =>
        simp [stepT, hst] at h
        subst h
        simp only [step] at hst
        split at hst
        · cases hst
          simp only [TInv]
          refine ⟨s.a.now, rfl, ?_⟩
          unfold B; omega
        · cases hst
    | wait n =>
      cases hst : step P s.a (.wait n) with
      | none => simp [stepT, hst] at h
      | some a' =>
        simp [stepT, hst] at h
        obtain ⟨hn, rfl⟩ := h
        simp only [step] at hst
        split at hst
        · rename_i hf
          have hf : s.a.phase = .enqueueing := by simpa using hf
          cases hst
          unfold TInv at hT ⊢
          simp only [hf] at hT
          simp only [isDone, hf, Bool.false_and, Bool.false_eq_true, if_false]
          have := wait_le_D P N n hn
          refine ⟨by omega, by omega, hT.2.1, hT.2.2.1, hT.2.2.2⟩
        · cases hst
    | msg m =>
      cases hst : step P s.a (.msg m) with
      | none => simp [stepT, hst] at h
      | some a' =>
        simp [stepT, hst] at h
        subst h
        simp only [step] at hst
        split at hst
        · -- registered: enqueueing or detecting only
          rename_i hr
          cases hst
          obtain ⟨hp, hn, _, _, _⟩ := onMsg_rest s.a m
          unfold TInv at hT ⊢
          simp only [hp, hn]
          cases hph' : s.a.phase with
          | fresh => trivial
          | enqueueing => simp only [hph'] at hT; simpa [isDone, hph'] using hT
          | detecting dl => simp only [hph'] at hT; simpa [isDone, hph'] using hT
          | building todo => rw [hph'] at hph; simp [hr] at hph
          | ready => rw [hph'] at hph; simp [hr] at hph
          | failed => rw [hph'] at hph; simp [hr] at hph
          | closed => trivial
        · cases hst
          unfold TInv at hT ⊢
          cases hph' : s.a.phase <;> simp only [hph'] at hT ⊢ <;> simpa [isDone, hph'] using hT
    | wake =>
      cases hst : step P s.a .wake with
      | none => simp [stepT, hst] at h
      | some a' =>
        simp [stepT, hst] at h
        subst h
        simp only [step] at hst
        split at hst
        · rename_i dl hd
          split at hst
          · cases hst
            unfold TInv at hT ⊢
            simp only [hd] at hT
            simp only [isDone, hd, Bool.false_and, Bool.false_eq_true, if_false]
            obtain ⟨h1, h2, h3, h4, h5⟩ := hT
            rw [h3]
            simp only []
            refine ⟨h4, by omega, ?_⟩
            rw [h5, B_zero]; omega
          · cases hst
        · cases hst
    | timeout =>
      cases hst : step P s.a .timeout with
      | none => simp [stepT, hst] at h
      | some a' =>
        simp [stepT, hst] at h
        subst h
        simp only [step] at hst
        split at hst
        · rename_i dl hd
          split at hst
          · cases hst
            unfold TInv at hT ⊢
            simp only [hd] at hT
            simp only [isDone, hd, Bool.true_and, Bool.not_false, if_true]
            refine ⟨s.a.now, rfl, ?_⟩
            have h0 := B_zero P N s.t0
            have := B_mono P N s.t0 (Nat.zero_le (plan P.classIds s.a.avail).length)
            omega
          · cases hst
        · cases hst
    | subunitOk =>
      cases hst : step P s.a .subunitOk with
      | none => simp [stepT, hst] at h
      | some a' =>
        simp [stepT, hst] at h
        obtain ⟨hsome, rfl⟩ := h
        simp only [step] at hst
        split at hst
        · rename_i i rest hb
          cases hst
          unfold TInv at hT ⊢
          simp only [hb] at hT
          obtain ⟨dl, hdl⟩ := Option.isSome_iff_exists.mp hsome
          rw [hdl] at hT
          simp only [] at hT
          obtain ⟨hd0, hcnt, hle, hnow⟩ := hT
          cases rest with
          | nil =>
            simp only [List.isEmpty_nil, if_true, isDone, hb, Bool.true_and, Bool.not_false]
            refine ⟨s.a.now, rfl, ?_⟩
            simp at hcnt
            have := B_mono P N s.t0 (show s.built ≤ (plan P.classIds s.a.avail).length by omega)
            omega
          | cons j rest' =>
            simp only [List.isEmpty_cons, Bool.false_eq_true, if_false, isDone, hb, Bool.false_and]
            refine ⟨hd0, ?_, by omega⟩
            simp at hcnt ⊢
            omega
        · cases hst
    | subunitFails =>
      cases hst : step P s.a .subunitFails with
      | none => simp [stepT, hst] at h
      | some a' =>
        simp [stepT, hst] at h
        obtain ⟨hsome, rfl⟩ := h
        simp only [step] at hst
        split at hst
        · rename_i i rest hb
          cases hst
          unfold TInv at hT ⊢
          simp only [hb] at hT
          obtain ⟨dl, hdl⟩ := Option.isSome_iff_exists.mp hsome
          rw [hdl] at hT
          simp only [] at hT
          obtain ⟨hd0, hcnt, hle, hnow⟩ := hT
          simp only [isDone, hb, Bool.true_and, Bool.not_false, if_true]
          refine ⟨s.a.now, rfl, ?_⟩
          simp at hcnt
          have := B_mono P N s.t0 (show s.built ≤ (plan P.classIds s.a.avail).length by omega)
          omega
        · cases hst
    | close =>
      cases hst : step P s.a .close with
      | none => simp [stepT, hst] at h
      | some a' =>
        simp [stepT, hst] at h
        subst h
        simp only [step] at hst
        split at hst
        · cases hst; simp [TInv]
        · cases hst; simp [TInv]
        · rename_i hb; cases hst; unfold TInv; simp [hb]
        · rename_i hb; cases hst; unfold TInv; simp [hb]
        · cases hst
    | tick d =>
      cases hst : step P s.a (.tick d) with
      | none =>
        unfold stepT at h
        simp only [hst, Option.map_none] at h
        split at h <;> (try split at h) <;> cases h
      | some a' =>
        simp only [step] at hst
        cases hp : s.a.phase with
        | enqueueing => simp [stepT, hp] at h
        | detecting dl =>
          simp only [hp] at hst
          split at hst
          · cases hst
          · split at hst
            · rename_i hle
              cases hst
              simp [stepT, hp, step] at h
              obtain ⟨a, ⟨_, _, rfl⟩, rfl⟩ := h
              unfold TInv at hT ⊢
              simp only [hp] at hT ⊢
              simp only [isDone, Bool.false_eq_true, false_and, if_false]
              exact ⟨hT.1, hle, hT.2.2.1, hT.2.2.2.1, hT.2.2.2.2⟩
            · cases hst
        | building todo =>
          have hnd : ∀ dl, s.a.phase ≠ .detecting dl := by intro dl; rw [hp]; simp
          cases hdl : s.objDl with
          | none => simp [stepT, hp, hdl] at h
          | some dl =>
            simp [stepT, hp, hdl, step] at h
            obtain ⟨hle, rfl⟩ := h
            unfold TInv at hT ⊢
            simp only [hp, hdl] at hT ⊢
            exact ⟨by simpa [isDone] using hT.1, hT.2.1, hT.2.2.1, hle⟩
        | fresh =>
          simp [stepT, hp, step] at h; subst h
          unfold TInv; simp [hp]
        | closed =>
          simp [stepT, hp, step] at h; subst h
          unfold TInv; simp [hp]
        | ready =>
          simp [stepT, hp, step] at h; subst h
          unfold TInv at hT ⊢
          simp only [hp] at hT ⊢
          simpa [isDone] using hT
        | failed =>
          simp [stepT, hp, step] at h; subst h
          unfold TInv at hT ⊢
          simp only [hp] at hT ⊢
          simpa [isDone] using hT

end Ynca.L7

namespace Ynca.L7

theorem inv_stepT (P : Params) (N : Nat) (s s' : T) (l : TLabel) (hI : Inv P s.a) (h : stepT P N s l = some s') :
    Inv P s'.a := by
  cases l with
  | base l0 => exact inv_step P s.a s'.a l0 hI (stepT_base_a P N s s' l0 h)
  | construct n => rw [stepT_construct_a P N s s' n h]; exact hI

theorem tinv_run (P : Params) (N : Nat) (ls : List TLabel) (s s' : T) (hI : Inv P s.a) (hT : TInv P N s)
    (h : runT P N s ls = some s') : Inv P s'.a ∧ TInv P N s' := by
  induction ls generalizing s with
  | nil => simp [runT] at h; subst h; exact ⟨hI, hT⟩
  | cons l ls ih =>
    simp only [runT] at h
    split at h
    · rename_i s1 hs
      exact ih s1 (inv_stepT P N s s1 l hI hs) (tinv_step P N s s1 l hI hT hs) h
    · cases h

theorem tinv_reachable (P : Params) (N : Nat) (s : T) (h : ReachableT P N s) : Inv P s.a ∧ TInv P N s := by
  obtain ⟨ls, hr⟩ := h
  exact tinv_run P N ls {} s (inv_init P) (tinv_init P N) hr

/-- at most one object per class, plus `System` -/
theorem plan_length_le (cls av : List String) (h : av.Nodup) : (plan cls av).length ≤ cls.length + 1 := by
  have hn := plan_tail_nodup cls av h
  have hsub : (plan cls av).tail ⊆ cls := by
    intro x hx
    unfold plan at hx
    simp only [List.tail_cons, List.mem_filter] at hx
    simpa using hx.2
  have := List.Nodup.length_le_of_subset hn hsub
  have hl : (plan cls av).length = (plan cls av).tail.length + 1 := by simp [plan]
  omega

end Ynca.L7
