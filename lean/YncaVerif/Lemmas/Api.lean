import YncaVerif.Model.Api
/-! Lemmas about L7 (the `YncaApi` program): sets, the sort, the plan, the invariant of `initialize()`. -/
namespace Ynca.L7

/-! ## `addSet`, `sortStr` -/

theorem mem_addSet (xs : List String) (x y : String) : y ∈ addSet xs x ↔ y ∈ xs ∨ y = x := by
  unfold addSet
  split
  · rename_i h
    have : x ∈ xs := by simpa using h
    constructor
    · intro h; exact Or.inl h
    · rintro (h | h)
      · exact h
      · subst h; exact this
  · simp

theorem mem_addKey (xs : List String) (x y : String) : y ∈ addKey xs x ↔ y ∈ xs ∨ y = x := mem_addSet xs x y

theorem nodup_addSet (xs : List String) (x : String) (h : xs.Nodup) : (addSet xs x).Nodup := by
  unfold addSet
  split
  · exact h
  · rename_i hc
    have : x ∉ xs := by simpa using hc
    rw [List.nodup_append]
    refine ⟨h, by simp, ?_⟩
    intro a ha b hb
    simp at hb
    subst hb
    intro e
    subst e
    exact this ha

theorem mem_insertSorted (x y : String) (ys : List String) : y ∈ insertSorted x ys ↔ y = x ∨ y ∈ ys := by
  induction ys with
  | nil => simp [insertSorted]
  | cons z zs ih =>
    unfold insertSorted
    split
    · simp
    · simp [ih]
      constructor
      · rintro (h | h | h)
        · exact Or.inr (Or.inl h)
        · exact Or.inl h
        · exact Or.inr (Or.inr h)
      · rintro (h | h | h)
        · exact Or.inr (Or.inl h)
        · exact Or.inl h
        · exact Or.inr (Or.inr h)

theorem mem_sortStr (y : String) (xs : List String) : y ∈ sortStr xs ↔ y ∈ xs := by
  induction xs with
  | nil => simp [sortStr]
  | cons x xs ih =>
    have : sortStr (x :: xs) = insertSorted x (sortStr xs) := rfl
    rw [this, mem_insertSorted, ih]
    simp

/-- ascending -/
def Sorted : List String → Prop
  | [] => True
  | x :: xs => (∀ y ∈ xs, x ≤ y) ∧ Sorted xs

theorem String.le_of_not_le' {a b : String} (h : ¬ a ≤ b) : b ≤ a := Std.le_of_not_ge h

theorem sorted_insertSorted (x : String) (ys : List String) (h : Sorted ys) : Sorted (insertSorted x ys) := by
  induction ys with
  | nil => simp [insertSorted, Sorted]
  | cons z zs ih =>
    unfold insertSorted
    split
    · rename_i hle
      refine ⟨?_, h⟩
      intro y hy
      simp at hy
      rcases hy with hy | hy
      · subst hy; exact hle
      · exact String.le_trans hle (h.1 y hy)
    · rename_i hle
      refine ⟨?_, ih h.2⟩
      intro y hy
      rw [mem_insertSorted] at hy
      rcases hy with hy | hy
      · subst hy; exact String.le_of_not_le' hle
      · exact h.1 y hy

theorem sorted_sortStr (xs : List String) : Sorted (sortStr xs) := by
  induction xs with
  | nil => simp [sortStr, Sorted]
  | cons x xs ih => exact sorted_insertSorted x _ ih

theorem sorted_filter (p : String → Bool) (xs : List String) (h : Sorted xs) : Sorted (xs.filter p) := by
  induction xs with
  | nil => simp [Sorted]
  | cons x xs ih =>
    simp only [List.filter_cons]
    split
    · refine ⟨?_, ih h.2⟩
      intro y hy
      exact h.1 y (List.mem_filter.mp hy).1
    · exact ih h.2

theorem count_insertSorted (x y : String) (ys : List String) :
    (insertSorted x ys).count y = (x :: ys).count y := by
  induction ys with
  | nil => simp [insertSorted]
  | cons z zs ih =>
    unfold insertSorted
    split
    · rfl
    · simp only [List.count_cons] at ih ⊢
      rw [ih]; omega

theorem count_sortStr (y : String) (xs : List String) : (sortStr xs).count y = xs.count y := by
  induction xs with
  | nil => simp [sortStr]
  | cons x xs ih =>
    have : sortStr (x :: xs) = insertSorted x (sortStr xs) := rfl
    rw [this, count_insertSorted]
    simp only [List.count_cons, ih]

theorem nodup_sortStr (xs : List String) (h : xs.Nodup) : (sortStr xs).Nodup := by
  rw [List.nodup_iff_count] at *
  intro a
  rw [count_sortStr]
  exact h a

/-! ## the plan -/

theorem mem_plan (cls av : List String) (x : String) :
    x ∈ plan cls av ↔ x = "SYS" ∨ (x ∈ av ∧ x ∈ cls) := by
  unfold plan
  simp [List.mem_filter, mem_sortStr]

theorem plan_tail_sorted (cls av : List String) : Sorted (plan cls av).tail := by
  unfold plan
  simp only [List.tail_cons]
  exact sorted_filter _ _ (sorted_sortStr av)

theorem plan_tail_nodup (cls av : List String) (h : av.Nodup) : (plan cls av).tail.Nodup := by
  unfold plan
  simp only [List.tail_cons]
  exact List.Nodup.sublist List.filter_sublist (nodup_sortStr av h)

/-! ## the callback -/

/-- the ids announced by `AVAIL` messages -/
def availOf (ms : List Msg) : List String :=
  ms.filterMap (fun m => if m.fn == some "AVAIL" then m.subunit else none)

def isVersionMsg (m : Msg) : Bool := m.subunit == some "SYS" && m.fn == some "VERSION"

theorem onMsg_heard (a : A) (m : Msg) : (onMsg a m).heard = a.heard ++ [m] := by
  unfold onMsg
  split <;> split <;> (try split) <;> simp

theorem onMsg_event (a : A) (m : Msg) : (onMsg a m).event = (a.event || isVersionMsg m) := by
  unfold onMsg isVersionMsg
  split <;> split <;> (try split) <;> simp_all

theorem onMsg_avail_mem (a : A) (m : Msg) (x : String) :
    x ∈ (onMsg a m).avail ↔ x ∈ a.avail ∨ (m.fn = some "AVAIL" ∧ m.subunit = some x) := by
  unfold onMsg
  by_cases hf : m.fn = some "AVAIL"
  · cases hs : m.subunit with
    | none =>
      simp only [hf, beq_self_eq_true, if_true]
      split <;> simp
    | some s =>
      simp only [hf, beq_self_eq_true, if_true]
      split <;> (simp only [mem_addSet]; simp [eq_comm])
  · have hf' : (m.fn == some "AVAIL") = false := by simpa using hf
    simp only [hf', Bool.false_eq_true, if_false]
    split <;> simp [hf]

theorem onMsg_avail_nodup (a : A) (m : Msg) (h : a.avail.Nodup) : (onMsg a m).avail.Nodup := by
  unfold onMsg
  by_cases hf : (m.fn == some "AVAIL") = true
  · cases hs : m.subunit with
    | none => simp only [hf, if_true]; split <;> exact h
    | some s =>
      simp only [hf, if_true]
      split <;> exact nodup_addSet _ _ h
  · simp only [hf]
    split <;> exact h

theorem onMsg_rest (a : A) (m : Msg) :
    (onMsg a m).phase = a.phase ∧ (onMsg a m).now = a.now ∧ (onMsg a m).subunits = a.subunits ∧
    (onMsg a m).connection = a.connection ∧ (onMsg a m).registered = a.registered := by
  unfold onMsg
  split <;> split <;> (try split) <;> simp

/-! ## the invariant of `initialize()` -/

/-- the key list of a dict filled by assigning the keys `l` in order -/
def keysOf (l : List String) : List String := l.foldl addKey []

theorem keysOf_snoc (l : List String) (x : String) : keysOf (l ++ [x]) = addKey (keysOf l) x := by
  simp [keysOf, List.foldl_append]

theorem mem_foldl_addKey (l acc : List String) (x : String) : x ∈ l.foldl addKey acc ↔ x ∈ acc ∨ x ∈ l := by
  induction l generalizing acc with
  | nil => simp
  | cons y ys ih =>
    simp only [List.foldl_cons, ih, mem_addKey, List.mem_cons]
    constructor
    · rintro ((h | h) | h)
      · exact Or.inl h
      · exact Or.inr (Or.inl h)
      · exact Or.inr (Or.inr h)
    · rintro (h | h | h)
      · exact Or.inl (Or.inl h)
      · exact Or.inl (Or.inr h)
      · exact Or.inr h

theorem mem_keysOf (l : List String) (x : String) : x ∈ keysOf l ↔ x ∈ l := by
  simp [keysOf, mem_foldl_addKey]

def PhaseInv (P : Params) (a : A) : Prop :=
  match a.phase with
  | .fresh => a.subunits = [] ∧ a.connection = false ∧ a.registered = false ∧ a.avail = [] ∧ a.heard = [] ∧ a.event = false
  | .enqueueing => a.subunits = [] ∧ a.connection = true ∧ a.registered = true
  | .detecting dl => a.subunits = [] ∧ a.connection = true ∧ a.registered = true ∧ a.now ≤ dl
  | .building todo => a.connection = true ∧ a.registered = false ∧ a.event = true ∧ todo ≠ [] ∧
      ∃ done, plan P.classIds a.avail = done ++ todo ∧ a.subunits = keysOf done
  | .ready => a.connection = true ∧ a.registered = false ∧ a.event = true ∧ a.subunits = keysOf (plan P.classIds a.avail)
  | .failed => a.subunits = [] ∧ a.connection = false ∧ a.registered = false
  | .closed => a.subunits = [] ∧ a.connection = false ∧ a.registered = false

structure Inv (P : Params) (a : A) : Prop where
  nodup : a.avail.Nodup
  heard : ∀ x, x ∈ a.avail ↔ x ∈ availOf a.heard
  event : a.event = a.heard.any isVersionMsg
  phase : PhaseInv P a

theorem availOf_snoc (ms : List Msg) (m : Msg) (x : String) :
    x ∈ availOf (ms ++ [m]) ↔ x ∈ availOf ms ∨ (m.fn = some "AVAIL" ∧ m.subunit = some x) := by
  unfold availOf
  rw [List.filterMap_append, List.mem_append]
  simp only [List.filterMap_cons, List.filterMap_nil]
  by_cases hf : m.fn = some "AVAIL"
  · simp [hf]
    cases m.subunit <;> simp [eq_comm]
  · have : (m.fn == some "AVAIL") = false := by simpa using hf
    simp [this, hf]

theorem inv_init (P : Params) : Inv P {} := by
  refine ⟨by simp, by simp [availOf], by simp, ?_⟩
  simp [PhaseInv]

theorem inv_onMsg (P : Params) (a : A) (m : Msg) (h : Inv P a) (hr : a.registered = true) : Inv P (onMsg a m) := by
  obtain ⟨hp, hn, hs, hc, hreg⟩ := onMsg_rest a m
  refine ⟨onMsg_avail_nodup a m h.nodup, ?_, ?_, ?_⟩
  · intro x
    rw [onMsg_avail_mem, onMsg_heard, availOf_snoc, h.heard x]
  · rw [onMsg_event, onMsg_heard, h.event]
    simp
  · have hph := h.phase
    unfold PhaseInv at hph ⊢
    rw [hp]
    cases hph' : a.phase with
    | fresh => rw [hph'] at hph; simp_all
    | enqueueing => rw [hph'] at hph; simp_all
    | detecting dl => rw [hph'] at hph; simp_all
    | building todo => rw [hph'] at hph; simp_all
    | ready => rw [hph'] at hph; simp_all
    | failed => rw [hph'] at hph; simp_all
    | closed => rw [hph'] at hph; simp_all

theorem inv_step (P : Params) (a a' : A) (l : Label) (h : Inv P a) (hs : step P a l = some a') : Inv P a' := by
  have hph := h.phase
  unfold PhaseInv at hph
  cases l with
  | start =>
    simp only [step] at hs
    split at hs
    · rename_i hf
      have hf : a.phase = .fresh := by simpa using hf
      rw [hf] at hph
      cases hs
      refine ⟨by simp, by simp [availOf], by simp, ?_⟩
      simp [PhaseInv, hph.1]
    · cases hs
  | connectFails =>
    simp only [step] at hs
    split at hs
    · rename_i hf
      have hf : a.phase = .fresh := by simpa using hf
      rw [hf] at hph
      cases hs
      exact ⟨h.nodup, h.heard, h.event, by simp [PhaseInv, hph.1, hph.2.1, hph.2.2.1]⟩
    · cases hs
  | wait n =>
    simp only [step] at hs
    split at hs
    · rename_i hf
      have hf : a.phase = .enqueueing := by simpa using hf
      rw [hf] at hph
      cases hs
      refine ⟨h.nodup, h.heard, h.event, ?_⟩
      simp only [PhaseInv]
      exact ⟨hph.1, hph.2.1, hph.2.2, by omega⟩
    · cases hs
  | msg m =>
    simp only [step] at hs
    split at hs
    · cases hs; rename_i hr; exact inv_onMsg P a m h hr
    · cases hs; exact h
  | wake =>
    simp only [step] at hs
    split at hs
    · rename_i dl hd
      rw [hd] at hph
      split at hs
      · rename_i he
        cases hs
        refine ⟨h.nodup, h.heard, h.event, ?_⟩
        simp only [PhaseInv]
        exact ⟨hph.2.1, trivial, he, by simp [plan], [], by simp, by simp [keysOf, hph.1]⟩
      · cases hs
    · cases hs
  | timeout =>
    simp only [step] at hs
    split at hs
    · split at hs
      · cases hs
        exact ⟨h.nodup, h.heard, h.event, by simp [PhaseInv]⟩
      · cases hs
    · cases hs
  | subunitOk =>
    simp only [step] at hs
    split at hs
    · rename_i i rest hb
      rw [hb] at hph
      obtain ⟨hc, hr, he, _, done, hpl, hsub⟩ := hph
      cases hs
      refine ⟨h.nodup, h.heard, h.event, ?_⟩
      cases rest with
      | nil =>
        simp only [PhaseInv, List.isEmpty_nil, if_true]
        refine ⟨hc, hr, he, ?_⟩
        show addKey a.subunits i = keysOf (plan P.classIds a.avail)
        rw [hpl, keysOf_snoc, hsub]
      | cons j rest' =>
        simp only [PhaseInv, List.isEmpty_cons, Bool.false_eq_true, if_false]
        refine ⟨hc, hr, he, by simp, done ++ [i], ?_, ?_⟩
        · show plan P.classIds a.avail = done ++ [i] ++ j :: rest'
          rw [hpl]; simp
        · show addKey a.subunits i = keysOf (done ++ [i])
          rw [keysOf_snoc, hsub]
    · cases hs
  | subunitFails =>
    simp only [step] at hs
    split at hs
    · rename_i i rest hb
      rw [hb] at hph
      cases hs
      exact ⟨h.nodup, h.heard, h.event, by simp [PhaseInv, hph.2.1]⟩
    · cases hs
  | close =>
    simp only [step] at hs
    split at hs
    · rename_i hb; rw [hb] at hph; cases hs
      exact ⟨h.nodup, h.heard, h.event, by simp [PhaseInv, hph.2.1]⟩
    · rename_i hb; rw [hb] at hph; cases hs
      exact ⟨h.nodup, h.heard, h.event, by simp [PhaseInv, hph.2.2]⟩
    · cases hs; exact h
    · cases hs; exact h
    · cases hs
  | tick d =>
    simp only [step] at hs
    split at hs
    · rename_i dl hd
      rw [hd] at hph
      split at hs
      · cases hs
      · split at hs
        · cases hs
          refine ⟨h.nodup, h.heard, h.event, ?_⟩
          simp only [PhaseInv, hd]
          exact ⟨hph.1, hph.2.1, hph.2.2.1, by assumption⟩
        · cases hs
    · rename_i hnd
      cases hs
      refine ⟨h.nodup, h.heard, h.event, ?_⟩
      have := h.phase
      unfold PhaseInv at this ⊢
      cases hp : a.phase with
      | detecting dl => exact absurd hp (hnd dl)
      | fresh => rw [hp] at this; simpa using this
      | enqueueing => rw [hp] at this; simpa using this
      | building todo => rw [hp] at this; simpa using this
      | ready => rw [hp] at this; simpa using this
      | failed => rw [hp] at this; simpa using this
      | closed => rw [hp] at this; simpa using this

theorem inv_run (P : Params) (ls : List Label) (a a' : A) (h : Inv P a) (hr : run P a ls = some a') : Inv P a' := by
  induction ls generalizing a with
  | nil => simp [run] at hr; subst hr; exact h
  | cons l ls ih =>
    simp only [run] at hr
    split at hr
    · rename_i a1 hs; exact ih a1 (inv_step P a a1 l h hs) hr
    · cases hr

theorem inv_reachable (P : Params) (a : A) (h : Reachable P a) : Inv P a := by
  obtain ⟨ls, hr⟩ := h
  exact inv_run P ls {} a (inv_init P) hr

end Ynca.L7
