import YncaVerif.Model.Conv
/-! Generic lemmas about enumeration tables (C04). -/
namespace Ynca

def nodupB : List String → Bool
  | [] => true
  | x :: xs => !xs.contains x && nodupB xs

theorem nodupB_iff (l : List String) : nodupB l = true ↔ l.Nodup := by
  induction l with
  | nil => simp [nodupB]
  | cons x xs ih => simp [nodupB, ih]

/-- decidable well-formedness of an enumeration table: the `_missing_` hook is present, the UNKNOWN
    member exists with the agreed text, member names and wire texts are pairwise distinct -/
def enumOk (t : EnumTbl) : Bool :=
  t.hasMissing &&
  t.members.any (fun m => m.1 == "UNKNOWN" && m.2 == "< UNKNOWN >") &&
  nodupB (t.members.map (·.2)) && nodupB (t.members.map (·.1))

theorem find_text_of_mem {ms : List (String × String)} (hnd : (ms.map (·.2)).Nodup)
    {n txt : String} (hm : (n, txt) ∈ ms) : ms.find? (·.2 == txt) = some (n, txt) := by
  induction ms with
  | nil => simp at hm
  | cons a as ih =>
    simp only [List.map_cons, List.nodup_cons] at hnd
    rcases List.mem_cons.mp hm with h | h
    · subst h; simp
    · have hne : a.2 ≠ txt := by
        intro heq
        apply hnd.1
        rw [heq]
        exact List.mem_map.mpr ⟨(n, txt), h, rfl⟩
      rw [List.find?_cons]
      have : (a.2 == txt) = false := by simpa using hne
      simp only [this]
      exact ih hnd.2 h

theorem find_name_of_mem {ms : List (String × String)} (hnd : (ms.map (·.1)).Nodup)
    {n txt : String} (hm : (n, txt) ∈ ms) : ms.find? (·.1 == n) = some (n, txt) := by
  induction ms with
  | nil => simp at hm
  | cons a as ih =>
    simp only [List.map_cons, List.nodup_cons] at hnd
    rcases List.mem_cons.mp hm with h | h
    · subst h; simp
    · have hne : a.1 ≠ n := by
        intro heq
        apply hnd.1
        rw [heq]
        exact List.mem_map.mpr ⟨(n, txt), h, rfl⟩
      rw [List.find?_cons]
      have : (a.1 == n) = false := by simpa using hne
      simp only [this]
      exact ih hnd.2 h

end Ynca

namespace Ynca
theorem C04_roundtrip_text (t : EnumTbl) (h : enumOk t = true) (n txt : String) (hm : (n, txt) ∈ t.members) :
    memberText t n = some txt := by
  simp only [enumOk, Bool.and_eq_true] at h
  obtain ⟨⟨⟨_, _⟩, _⟩, hnd1⟩ := h
  have h1 := find_name_of_mem ((nodupB_iff _).mp hnd1) hm
  simp [memberText, h1]
end Ynca
