import YncaVerif.Model.Accept
import YncaVerif.Lemmas.L4Step
import YncaVerif.Lemmas.L4Basic
namespace Ynca.L4

def nrm (P : Params) (r : Option (St × Option Obs)) : Option (St × Option Obs) := r.map (fun x => (strip P x.1, x.2))

@[simp] theorem ring_ring {α : Type} (N : Nat) (l : List α) : ring N (ring N l) = ring N l := by
  unfold ring
  have : (l.drop (l.length - N)).length - N = 0 := by simp; omega
  rw [this]; simp

@[simp] theorem ring_snoc {α : Type} (N : Nat) (l : List α) (e : α) : ring N (ring N l ++ [e]) = ring N (l ++ [e]) := by
  unfold ring
  simp only [List.length_append, List.length_drop, List.length_cons, List.length_nil]
  by_cases h : l.length ≤ N
  · have : l.length - N = 0 := by omega
    simp [this]
  · by_cases hN : N = 0
    · subst hN; simp
    have h1 : l.length - (l.length - N) + (0+1) - N = 1 := by omega
    have h2 : l.length + (0+1) - N = (l.length - N) + 1 := by omega
    rw [h1, h2]
    rw [List.drop_append_of_le_length (by simp; omega), List.drop_append_of_le_length (by omega)]
    congr 1
    rw [List.drop_drop]

@[simp] theorem Item.erase_cmd (i : Nat) (t : String) : (Item.cmd i t).erase = .cmd 0 t := rfl
@[simp] theorem Item.erase_keepAlive : Item.keepAlive.erase = .keepAlive := rfl
@[simp] theorem Item.erase_exit : Item.exit.erase = .exit := rfl
@[simp] theorem Item.erase_erase (i : Item) : i.erase.erase = i.erase := by cases i <;> rfl
@[simp] theorem map_erase_erase (q : List Item) : (q.map Item.erase).map Item.erase = q.map Item.erase := by
  simp [Function.comp_def]

@[simp] theorem SPc.erase_notStarted : SPc.notStarted.erase = .notStarted := rfl
@[simp] theorem SPc.erase_waitGet (d : Nat) : (SPc.waitGet d).erase = .waitGet d := rfl
@[simp] theorem SPc.erase_timedOut : SPc.timedOut.erase = .timedOut := rfl
@[simp] theorem SPc.erase_got (m : Item) : (SPc.got m).erase = .got m.erase := rfl
@[simp] theorem SPc.erase_logging (t : String) (i : Option Nat) : (SPc.logging t i).erase = .logging t (i.map (fun _ => 0)) := rfl
@[simp] theorem SPc.erase_lockWait (t : String) (i : Option Nat) : (SPc.lockWait t i).erase = .lockWait t (i.map (fun _ => 0)) := rfl
@[simp] theorem SPc.erase_writing (t : String) (i : Option Nat) : (SPc.writing t i).erase = .writing t (i.map (fun _ => 0)) := rfl
@[simp] theorem SPc.erase_unlock : SPc.unlock.erase = .unlock := rfl
@[simp] theorem SPc.erase_sleeping (u : Nat) : (SPc.sleeping u).erase = .sleeping u := rfl
@[simp] theorem SPc.erase_done : SPc.done.erase = .done := rfl
@[simp] theorem SPc.erase_dead : SPc.dead.erase = .dead := rfl
@[simp] theorem SPc.erase_erase (p : SPc) : p.erase.erase = p.erase := by
  cases p <;> simp [Option.map_map, Function.comp_def]
@[simp] theorem SPc.erase_eq_done (p : SPc) : p.erase = .done ↔ p = .done := by cases p <;> simp
@[simp] theorem SPc.erase_eq_dead (p : SPc) : p.erase = .dead ↔ p = .dead := by cases p <;> simp

@[simp] theorem strip_idem (P : Params) (s : St) : strip P (strip P s) = strip P s := by
  simp [strip]

theorem stepS_strip (P : Params) (s : St) : nrm P (stepS P (strip P s)) = nrm P (stepS P s) := by
  unfold stepS
  cases h : s.spc with
  | waitGet dl =>
    cases hq : s.queue with
    | nil => simp [strip, nrm, h, hq] <;> split <;> simp [h, hq]
    | cons m q => simp [strip, nrm, h, hq]
  | got m => cases m <;> simp [strip, nrm, h]
  | logging t i => cases i <;> simp [strip, nrm, h]
  | lockWait t i => cases i <;> simp [strip, nrm, h] <;> split <;> simp
  | writing t i => cases i <;> simp [strip, nrm, h] <;> (repeat' split) <;> simp_all
  | sleeping u => simp [strip, nrm, h]; split <;> simp
  | _ => simp [strip, nrm, h, enqueue]

theorem stepR_strip (P : Params) (s : St) : nrm P (stepR P (strip P s)) = nrm P (stepR P s) := by
  unfold stepR
  cases h : s.rpc with
  | lost k =>
    cases hq : s.queue with
    | nil => simp [strip, nrm, h, hq, enqueue] <;> (repeat' split) <;> simp_all
    | cons m q => simp [strip, nrm, h, hq, enqueue] <;> (repeat' split) <;> simp_all
  | _ =>
    simp [strip, nrm, h, enqueue]
    all_goals (repeat' split) <;> simp_all

@[simp] theorem strip_setUpc (P : Params) (s : St) (t : Tid) (p : UPc) : strip P (setUpc s t p) = setUpc (strip P s) t p := by
  unfold setUpc; split <;> rfl
@[simp] theorem upcOf_strip (P : Params) (s : St) (t : Tid) : upcOf (strip P s) t = upcOf s t := rfl
@[simp] theorem mayCall_strip (P : Params) (s : St) (t : Tid) : mayCall (strip P s) t = mayCall s t := rfl

theorem stepClose_strip (P : Params) (s : St) (t : Tid) (pc : CPc) :
    nrm P (stepClose P (strip P s) t pc) = nrm P (stepClose P s t pc) := by
  cases pc <;> simp [stepClose, nrm] <;> simp [strip, setUpc] <;> (repeat' split) <;> simp_all


theorem stepU_strip (P : Params) (s : St) (t : Tid) : nrm P (stepU P (strip P s) t) = nrm P (stepU P s t) := by
  unfold stepU
  rw [upcOf_strip]
  cases h : upcOf s t with
  | idle => rfl
  | submitting text => simp [nrm] <;> simp [strip, setUpc] <;> (repeat' split) <;> simp_all
  | returning => simp [nrm] <;> simp [strip, setUpc] <;> (repeat' split) <;> simp_all
  | closing pc => exact stepClose_strip P s t pc

theorem nrm_isSome (P : Params) (r : Option (St × Option Obs)) : (nrm P r).isSome = r.isSome := by
  cases r <;> rfl

theorem isSome_of_nrm_eq {P : Params} {a b : Option (St × Option Obs)} (h : nrm P a = nrm P b) : a.isSome = b.isSome := by
  rw [← nrm_isSome P a, ← nrm_isSome P b, h]

theorem canMove_strip (P : Params) (s : St) : canMove P (strip P s) = canMove P s := by
  unfold canMove
  rw [isSome_of_nrm_eq (stepS_strip P s), isSome_of_nrm_eq (stepR_strip P s), isSome_of_nrm_eq (stepU_strip P s tidR)]
  have : (strip P s).callers.any (fun c => (stepU P (strip P s) c.1).isSome) = s.callers.any (fun c => (stepU P s c.1).isSome) := by
    show s.callers.any _ = _
    congr 1; funext c; exact isSome_of_nrm_eq (stepU_strip P s c.1)
  rw [this]
  rfl

theorem deadlines_strip (P : Params) (s : St) : deadlines (strip P s) = deadlines s := by
  unfold deadlines
  cases h : s.spc <;> simp [strip, h]

theorem step_tick_strip (P : Params) (s : St) (d : Nat) : step P (strip P s) (.tick d) =
    (if d = 0 ∨ canMove P s then none
     else if (deadlines s).all (fun dl => s.now + d ≤ dl ∨ dl ≤ s.now) then some ({ strip P s with now := s.now + d }, none) else none) := by
  simp only [step, canMove_strip, deadlines_strip]; rfl

theorem step_strip (P : Params) (s : St) (l : Label) : nrm P (step P (strip P s) l) = nrm P (step P s l) := by
  cases l with
  | tick d =>
    rw [step_tick_strip]; simp only [step]
    split
    · rfl
    · split
      · simp [nrm, strip]
      · rfl
  | dev bytes => simp [step, nrm, strip]; split <;> simp_all
  | fault => simp [step, nrm, strip]
  | wfault => simp [step, nrm, strip]
  | call t text => simp [step, nrm]; split <;> simp_all
  | callClose t => simp [step, nrm] <;> (repeat' split) <;> simp_all [strip, setUpc] <;> (repeat' split) <;> simp_all
  | reg t cb => simp [step, nrm, strip]
  | unreg t cb => simp [step, nrm, strip]
  | u t => exact stepU_strip P s t
  | s => exact stepS_strip P s
  | r => exact stepR_strip P s
  | rGet to => simp only [step]; cases h : s.rpc <;> simp [strip, nrm, h] <;> (repeat' split) <;> simp_all
  | rCb cb => simp only [step]; cases h : s.rpc <;> simp [strip, nrm, h] <;> (repeat' split) <;> simp_all
  | cbRet => simp only [step]; cases h : s.rpc <;> simp [strip, nrm, h] <;> (repeat' split) <;> simp_all
  | startR => simp [step, nrm, strip] <;> (repeat' split) <;> simp_all
  | publish => simp [step, nrm, strip] <;> (repeat' split) <;> simp_all
  | connectFailed =>
    simp only [step]
    by_cases hc : s.alive = false ∧ s.published = false ∧ s.rpc ≠ .notStarted
    · have hc' : (strip P s).alive = false ∧ (strip P s).published = false ∧ (strip P s).rpc ≠ .notStarted := hc
      rw [if_pos hc, if_pos hc']; simp [nrm, strip]; rfl
    · have hc' : ¬ ((strip P s).alive = false ∧ (strip P s).published = false ∧ (strip P s).rpc ≠ .notStarted) := hc
      rw [if_neg hc, if_neg hc']

/-- states with the same visible part take the same steps, with the same observation, to states with the same visible part -/
theorem strip_congr {P : Params} {a b b' : St} {l : Label} {o : Option Obs} (h : strip P a = strip P b)
    (hs : step P b l = some (b', o)) : ∃ a', step P a l = some (a', o) ∧ strip P a' = strip P b' := by
  have h1 := step_strip P a l
  have h2 := step_strip P b l
  rw [h, h2, hs] at h1
  cases ha : step P a l with
  | none => rw [ha] at h1; simp [nrm] at h1
  | some r =>
    obtain ⟨a', o'⟩ := r
    rw [ha] at h1
    simp only [nrm, Option.map_some, Option.some.injEq, Prod.mk.injEq] at h1
    exact ⟨a', by rw [h1.2], h1.1.symm⟩

/-! ### what it means for the model to explain an observed trace -/

def hiddenObs (hidden : List String) : Option Obs → Bool
  | none => true
  | some o => hidden.contains (obsKind o)

/-- `Expl P hidden pre s`: there is an execution of the model from the initial state to `s` whose inputs are exactly the
    `input` events of `pre`, whose visible outputs are exactly the (non-hidden) `output` events of `pre`, in this order and
    at these times, with internal steps and passage of time in between, and whose log ring equals every snapshot at the
    time it was taken -/
inductive Expl (P : Params) (hidden : List String) : List (Nat × Ev) → St → Prop
  | init : Expl P hidden [] {}
  | tau {pre s s' l o} : Expl P hidden pre s → isThreadLabel l = true → step P s l = some (s', o) → hiddenObs hidden o = true →
      Expl P hidden pre s'
  | input {pre s s' l o} : Expl P hidden pre s → isThreadLabel l = false → step P s l = some (s', o) →
      Expl P hidden (pre ++ [(s.now, .input l)]) s'
  | output {pre s s' l o} : Expl P hidden pre s → isThreadLabel l = true → step P s l = some (s', some o) →
      hidden.contains (obsKind o) = false → Expl P hidden (pre ++ [(s.now, .output o)]) s'
  | hiddenOutput {pre s o} : Expl P hidden pre s → hidden.contains (obsKind o) = true → Expl P hidden (pre ++ [(s.now, .output o)]) s
  | snapshot {pre s es} : Expl P hidden pre s → (logRing P s == es) = true → Expl P hidden (pre ++ [(s.now, .snapshot es)]) s
  | stop {pre s} : Expl P hidden pre s → Expl P hidden (pre ++ [(s.now, .stop)]) s

theorem Expl.reachable {P : Params} {hidden : List String} {pre : List (Nat × Ev)} {s : St} (h : Expl P hidden pre s) :
    Reachable P s := by
  induction h with
  | init => exact ⟨[], rfl⟩
  | tau _ _ hs _ ih => exact Reachable.step ih hs
  | input _ _ hs ih => exact Reachable.step ih hs
  | output _ _ hs _ ih => exact Reachable.step ih hs
  | hiddenOutput _ _ ih => exact ih
  | snapshot _ _ ih => exact ih
  | stop _ ih => exact ih

/-- every state of the acceptor's set is the visible part of a model state that explains the events consumed so far -/
def Good (P : Params) (hidden : List String) (pre : List (Nat × Ev)) (S : List St) : Prop :=
  ∀ x ∈ S, ∃ s, strip P s = strip P x ∧ Expl P hidden pre s

theorem mem_dedup_aux (l acc : List St) (x : St) :
    x ∈ l.foldl (fun acc x => if acc.contains x then acc else acc ++ [x]) acc → x ∈ acc ∨ x ∈ l := by
  induction l generalizing acc with
  | nil => intro h; exact Or.inl h
  | cons y ys ih =>
    intro h
    simp only [List.foldl_cons] at h
    rcases ih _ h with h1 | h1
    · split at h1
      · exact Or.inl h1
      · rcases List.mem_append.mp h1 with h2 | h2
        · exact Or.inl h2
        · simp at h2; exact Or.inr (by simp [h2])
    · exact Or.inr (List.mem_cons_of_mem _ h1)

theorem mem_dedup {l : List St} {x : St} (h : x ∈ dedup l) : x ∈ l := by
  rcases mem_dedup_aux l [] x h with h | h
  · simp at h
  · exact h

theorem Good.dedup {P hidden pre S} (h : Good P hidden pre S) : Good P hidden pre (dedup S) :=
  fun x hx => h x (mem_dedup hx)

theorem Good.append {P hidden pre S T} (h1 : Good P hidden pre S) (h2 : Good P hidden pre T) : Good P hidden pre (S ++ T) :=
  fun x hx => (List.mem_append.mp hx).elim (h1 x) (h2 x)

theorem isThreadLabel_of_mem (s : St) (l : Label) (h : l ∈ threadLabels s) : isThreadLabel l = true := by
  unfold threadLabels at h
  simp only [List.mem_append, List.mem_cons, List.mem_map, List.not_mem_nil, or_false] at h
  rcases h with (h | h) | h
  · rcases h with h | h | h | h | h | h | h <;> subst h <;> rfl
  · obtain ⟨c, _, rfl⟩ := h; rfl
  · split at h
    · simp only [List.mem_append, List.mem_map, List.mem_filter] at h
      rcases h with ⟨c, _, rfl⟩ | h
      · rfl
      · simp at h
        obtain ⟨a, _, rfl⟩ := h; rfl
    · simp at h

theorem good_tauSucc {P hidden pre} {x x' : St} (hx : ∃ s, strip P s = strip P x ∧ Expl P hidden pre s)
    (h : x' ∈ tauSucc P hidden x) : ∃ s, strip P s = strip P x' ∧ Expl P hidden pre s := by
  obtain ⟨s, hs, he⟩ := hx
  unfold tauSucc at h
  simp only [List.mem_filterMap] at h
  obtain ⟨l, hl, hstep⟩ := h
  have htl := isThreadLabel_of_mem x l hl
  cases hst : step P x l with
  | none => simp [hst] at hstep
  | some r =>
    obtain ⟨x1, o⟩ := r
    obtain ⟨s1, hs1, hs1'⟩ := strip_congr hs hst
    rw [hst] at hstep
    cases o with
    | none =>
      simp at hstep; subst hstep
      exact ⟨s1, by rw [strip_idem, hs1'], he.tau htl hs1 rfl⟩
    | some o =>
      simp only at hstep
      split at hstep
      · simp at hstep; subst hstep
        exact ⟨s1, by rw [strip_idem, hs1'], he.tau htl hs1 (by show hidden.contains (obsKind o) = true; assumption)⟩
      · simp at hstep

theorem Good.closure {P hidden pre} (fuel : Nat) {S} (h : Good P hidden pre S) : Good P hidden pre (closure P hidden fuel S) := by
  induction fuel generalizing S with
  | zero => exact h
  | succ n ih =>
    simp only [Ynca.L4.closure]
    split
    · exact h
    · apply ih
      apply Good.dedup
      apply Good.append h
      intro x' hx'
      simp only [List.mem_flatMap] at hx'
      obtain ⟨x, hx, hx'⟩ := hx'
      exact good_tauSucc (h x hx) hx'

/-! ### passage of time -/

def mdStep (now : Nat) (acc : Option Nat) (d : Nat) : Option Nat :=
  if now < d then (match acc with | some a => some (min a d) | none => some d) else acc

theorem minDeadlineAfter_eq (s : St) : minDeadlineAfter s = (deadlines s).foldl (mdStep s.now) none := rfl

theorem mdFold_some (now : Nat) (ds : List Nat) (acc : Option Nat) (hacc : ∀ a, acc = some a → now < a) (m : Nat)
    (h : ds.foldl (mdStep now) acc = some m) :
    now < m ∧ (∀ a, acc = some a → m ≤ a) ∧ (∀ d ∈ ds, now < d → m ≤ d) := by
  induction ds generalizing acc with
  | nil => simp at h; subst h; exact ⟨hacc m rfl, by intro a ha; cases ha; exact Nat.le_refl _, by simp⟩
  | cons d ds ih =>
    simp only [List.foldl_cons] at h
    have hacc' : ∀ a, mdStep now acc d = some a → now < a := by
      intro a ha
      unfold mdStep at ha
      split at ha
      · cases acc with
        | none => simp at ha; omega
        | some a0 => simp at ha; have := hacc a0 rfl; omega
      · exact hacc a ha
    obtain ⟨h1, h2, h3⟩ := ih (mdStep now acc d) hacc' h
    refine ⟨h1, ?_, ?_⟩
    · intro a ha
      subst ha
      unfold mdStep at h2
      split at h2
      · have := h2 (min a d) rfl; omega
      · exact h2 a rfl
    · intro d' hd' hlt
      rcases List.mem_cons.mp hd' with rfl | hd'
      · unfold mdStep at h2
        rw [if_pos hlt] at h2
        cases acc with
        | none => exact h2 d' rfl
        | some a0 => have := h2 (min a0 d') rfl; omega
      · exact h3 d' hd' hlt

theorem mdFold_none (now : Nat) (ds : List Nat) (acc : Option Nat) (h : ds.foldl (mdStep now) acc = none) :
    acc = none ∧ ∀ d ∈ ds, d ≤ now := by
  induction ds generalizing acc with
  | nil => simp at h; exact ⟨h, by simp⟩
  | cons d ds ih =>
    simp only [List.foldl_cons] at h
    obtain ⟨h1, h2⟩ := ih _ h
    unfold mdStep at h1
    split at h1
    · cases acc <;> simp at h1
    · refine ⟨h1, ?_⟩
      intro d' hd'
      rcases List.mem_cons.mp hd' with rfl | hd'
      · omega
      · exact h2 d' hd'

def jumpTarget (x : St) (t : Nat) : Nat := match minDeadlineAfter x with | some d => min d t | none => t

/-- the acceptor's time jump is a `tick` of the model -/
theorem tick_jump (P : Params) (x : St) (t : Nat) (hcm : canMove P x = false) (hlt : x.now < t) :
    step P x (.tick (jumpTarget x t - x.now)) = some ({ x with now := jumpTarget x t }, none) := by
  have htgt : x.now < jumpTarget x t ∧ ∀ d ∈ deadlines x, x.now < d → jumpTarget x t ≤ d := by
    unfold jumpTarget
    cases hm : minDeadlineAfter x with
    | none =>
      rw [minDeadlineAfter_eq] at hm
      have := (mdFold_none _ _ _ hm).2
      refine ⟨hlt, ?_⟩
      intro d hd hd'; have := this d hd; omega
    | some m =>
      rw [minDeadlineAfter_eq] at hm
      obtain ⟨h1, _, h3⟩ := mdFold_some _ _ none (by simp) m hm
      refine ⟨by show x.now < min m t; omega, ?_⟩
      intro d hd hd'; have := h3 d hd hd'; show min m t ≤ d; omega
  obtain ⟨h1, h3⟩ := htgt
  simp only [step, hcm]
  have hd0 : ¬ (jumpTarget x t - x.now = 0 ∨ false = true) := by simp; omega
  rw [if_neg hd0]
  have hall : (deadlines x).all (fun dl => decide (x.now + (jumpTarget x t - x.now) ≤ dl ∨ dl ≤ x.now)) = true := by
    simp only [List.all_eq_true, decide_eq_true_eq]
    intro d hd
    by_cases hdn : x.now < d
    · left; have := h3 d hd hdn; omega
    · right; omega
  rw [if_pos hall]
  have : x.now + (jumpTarget x t - x.now) = jumpTarget x t := by omega
  rw [this]

theorem mem_partition_fst {α : Type} {p : α → Bool} {l : List α} {x : α} (h : x ∈ (l.partition p).1) : x ∈ l ∧ p x = true := by
  simpa [List.partition_eq_filter_filter] using h
theorem mem_partition_snd {α : Type} {p : α → Bool} {l : List α} {x : α} (h : x ∈ (l.partition p).2) : x ∈ l ∧ p x = false := by
  simpa [List.partition_eq_filter_filter] using h

theorem Good.advanceTo {P hidden pre} (fuel t : Nat) {S} (h : Good P hidden pre S) :
    Good P hidden pre (advanceTo P hidden fuel t S) := by
  induction fuel generalizing S with
  | zero => exact h
  | succ n ih =>
    simp only [Ynca.L4.advanceTo]
    have hc := Good.closure (P := P) (hidden := hidden) (pre := pre) 200 h
    split
    · intro x hx
      exact hc x (mem_partition_fst hx).1
    · apply Good.dedup
      apply Good.append
      · intro x hx
        exact hc x (mem_partition_fst hx).1
      · apply ih
        intro x' hx'
        simp only [List.mem_filterMap] at hx'
        obtain ⟨x, hx, hx'⟩ := hx'
        obtain ⟨hxS, hxt⟩ := mem_partition_snd hx
        split at hx'
        · simp at hx'
        · split at hx'
          · simp at hx'
          · rename_i hgt hcm
            simp only [Option.some.injEq] at hx'
            subst hx'
            have hlt : x.now < t := by
              simp at hxt hgt
              omega
            have hstep := tick_jump P x t (by simpa using hcm) hlt
            obtain ⟨s, hs, he⟩ := hc x hxS
            obtain ⟨s1, hs1, hs1'⟩ := strip_congr hs hstep
            exact ⟨s1, hs1', he.tau rfl hs1 rfl⟩

theorem now_of_strip_eq {P : Params} {a b : St} (h : strip P a = strip P b) : a.now = b.now := by
  have := congrArg St.now h; exact this
theorem logRing_of_strip_eq {P : Params} {a b : St} (h : strip P a = strip P b) : logRing P a = logRing P b := by
  have := congrArg St.log h; exact this

theorem Good.onEvent {P hidden pre} {S : List St} (t : Nat) (e : Ev) (h : Good P hidden pre S) :
    Good P hidden (pre ++ [(t, e)]) (onEvent P hidden S t e) := by
  have hA := Good.advanceTo (P := P) (hidden := hidden) (pre := pre) 400 t h
  -- every state used is at time `t`
  have hS1 : ∀ x ∈ (Ynca.L4.advanceTo P hidden 400 t S).filter (fun s => s.now == t),
      ∃ s, strip P s = strip P x ∧ Expl P hidden pre s ∧ s.now = t := by
    intro x hx
    obtain ⟨hx1, hx2⟩ := List.mem_filter.mp hx
    obtain ⟨s, hs, he⟩ := hA x hx1
    exact ⟨s, hs, he, by rw [now_of_strip_eq hs]; simpa using hx2⟩
  unfold Ynca.L4.onEvent
  cases e with
  | input l =>
    intro x' hx'
    simp only at hx'
    split at hx'
    · simp at hx'
    rename_i hnt
    have hx' := mem_dedup hx'
    simp only [List.mem_filterMap, Option.map_eq_some_iff] at hx'
    obtain ⟨x, hx, r, hr, rfl⟩ := hx'
    obtain ⟨s, hs, he, hnow⟩ := hS1 x hx
    obtain ⟨x1, o⟩ := r
    obtain ⟨s1, hs1, hs1'⟩ := strip_congr hs hr
    exact ⟨s1, by rw [strip_idem]; exact hs1', hnow ▸ he.input (by simpa using hnt) hs1⟩
  | output o =>
    simp only
    split
    · rename_i hh
      intro x hx
      obtain ⟨s, hs, he, hnow⟩ := hS1 x hx
      exact ⟨s, hs, hnow ▸ he.hiddenOutput hh⟩
    · rename_i hh
      intro x' hx'
      have hx' := mem_dedup hx'
      simp only [List.mem_flatMap, List.mem_filterMap] at hx'
      obtain ⟨x, hx, l, hl, hm⟩ := hx'
      obtain ⟨s, hs, he, hnow⟩ := hS1 x hx
      have htl := isThreadLabel_of_mem x l hl
      split at hm
      · rename_i x1 o' hst
        split at hm
        · rename_i hoo
          simp only [Option.some.injEq] at hm
          subst hm
          have : o' = o := by simpa using hoo
          subst this
          obtain ⟨s1, hs1, hs1'⟩ := strip_congr hs hst
          exact ⟨s1, by rw [strip_idem]; exact hs1', hnow ▸ he.output htl hs1 (by simpa using hh)⟩
        · simp at hm
      · simp at hm
  | snapshot es =>
    intro x hx
    obtain ⟨hx1, hx2⟩ := List.mem_filter.mp hx
    obtain ⟨s, hs, he, hnow⟩ := hS1 x hx1
    exact ⟨s, hs, hnow ▸ he.snapshot (by rw [logRing_of_strip_eq hs]; exact hx2)⟩
  | stop =>
    intro x hx
    obtain ⟨s, hs, he, hnow⟩ := hS1 x hx
    exact ⟨s, hs, hnow ▸ he.stop⟩

theorem accept_go_sound {P hidden} (evs pre : List (Nat × Ev)) (S : List St) (i mx : Nat)
    (hne : S ≠ []) (h : Good P hidden pre S) (hacc : (accept.go P hidden S i mx evs).accepted = true) :
    ∃ s, Expl P hidden (pre ++ evs) s := by
  induction evs generalizing pre S i mx with
  | nil =>
    cases S with
    | nil => exact absurd rfl hne
    | cons x _ =>
      obtain ⟨s, _, he⟩ := h x (by simp)
      exact ⟨s, by simpa using he⟩
  | cons ev rest ih =>
    obtain ⟨t, e⟩ := ev
    simp only [accept.go] at hacc
    split at hacc
    · simp at hacc
    · rename_i hne'
      have := ih (pre ++ [(t, e)]) (Ynca.L4.onEvent P hidden S t e) (i + 1) _ (by simpa using hne') (h.onEvent t e) hacc
      simpa using this

/-- **soundness of the trace acceptor**: a trace it accepts is explained by an execution of the L4 model -/
theorem accept_sound (P : Params) (hidden : List String) (evs : List (Nat × Ev)) (h : (accept P hidden evs).accepted = true) :
    ∃ s, Expl P hidden evs s := by
  have hG : Good P hidden [] [({} : St)] := by
    intro x hx
    simp at hx; subst hx
    exact ⟨{}, rfl, Expl.init⟩
  simpa using accept_go_sound evs [] [{}] 0 1 (by simp) hG h

end Ynca.L4
