import YncaVerif.Model.Conn
/-! Shared vocabulary for the L4 property statements. -/
namespace Ynca.L4

/-- consecutive elements at least `d` apart -/
def Spaced (d : Nat) : List Nat → Prop
  | [] => True
  | [_] => True
  | a :: b :: r => a + d ≤ b ∧ Spaced d (b :: r)

def wireTimes (s : St) : List Nat := s.wire.map (·.1)
def wireTexts (s : St) : List String := s.wire.map (·.2.1)

/-- user commands on the wire, in write order: (id, text) -/
def wireCmds (w : List (Nat × String × Option Nat)) : List (Nat × String) :=
  w.filterMap (fun e => e.2.2.map (fun i => (i, e.2.1)))

def queueCmds (q : List Item) : List (Nat × String) :=
  q.filterMap (fun it => match it with | .cmd i t => some (i, t) | _ => none)

/-- the user command the sender currently holds, if any -/
def inflight : SPc → List (Nat × String)
  | .got (.cmd i t) => [(i, t)]
  | .logging t (some i) => [(i, t)]
  | .lockWait t (some i) => [(i, t)]
  | .writing t (some i) => [(i, t)]
  | _ => []

def submittedCmds (s : St) : List (Nat × String) := s.submitted.map (fun e => (e.2.1, e.2.2))

/-- the reader has begun `connection_lost` (after a fault, EOF, or a stop request) -/
def lossBegun : RPc → Bool
  | .lost _ => true
  | .lostJoin _ => true
  | .inDiscCb => true
  | .done => true
  | _ => false

/-- time of the last transmission (connection-made time before the first one) -/
def lastTx (s : St) : Nat := match s.wire.getLast? with
  | some e => e.1
  | none => s.madeAt

def logSends (s : St) : List String := s.log.filterMap (fun e => match e with | .send t => some t | _ => none)
def logRecvs (s : St) : List String := s.log.filterMap (fun e => match e with | .received t => some t | _ => none)

/-- `collections.deque(maxlen = n).append` -/
def ringAdd {α : Type} (n : Nat) (buf : List α) (x : α) : List α := (buf ++ [x]).drop ((buf.length + 1) - n)

theorem run_append (P : Params) (s : St) (a b : List Label) :
    run P s (a ++ b) = (run P s a).bind (fun s' => run P s' b) := by
  induction a generalizing s with
  | nil => simp [run]
  | cons l ls ih =>
    simp only [List.cons_append, run]
    cases step P s l with
    | none => simp
    | some r => simp [ih]

/-- invariants are proved once per label and lifted to every reachable state -/
theorem reachable_induction (P : Params) (Inv : St → Prop) (h0 : Inv {})
    (hstep : ∀ s s' l o, Inv s → step P s l = some (s', o) → Inv s') :
    ∀ s, Reachable P s → Inv s := by
  intro s ⟨ls, hr⟩
  suffices ∀ (ls : List Label) (s0 : St), Inv s0 → run P s0 ls = some s → Inv s from this ls {} h0 hr
  intro ls
  induction ls with
  | nil => intro s0 h hr; simp [run] at hr; subst hr; exact h
  | cons l ls ih =>
    intro s0 h hr
    simp only [run] at hr
    cases hst : step P s0 l with
    | none => simp [hst] at hr
    | some r => obtain ⟨s1, o⟩ := r; simp [hst] at hr; exact ih s1 (hstep s0 s1 l o h hst) hr

end Ynca.L4
