import YncaVerif.Model.Dialogue2
import YncaVerif.Lemmas.Dialogue
/-! Helper lemmas for the L5m model (several subunit objects, callback fan-out): the bookkeeping invariant
`Inv` holds for any number of objects; the stage invariant `Inv1` and the barrier only for ONE object. -/
namespace Ynca.L5m
open Ynca.L5 (versionQuery isVersionLine Answer AnswerOk countP_take_le countP_take_eq_no_later)

/-! ## induction over runs -/

theorem run_inv (answer : Answer) (P : S → Prop)
    (hstep : ∀ s s' l, P s → step answer s l = some s' → P s') :
    ∀ ls s0 s, P s0 → run answer s0 ls = some s → P s := by
  intro ls
  induction ls with
  | nil => intro s0 s h0 hr; simp [run] at hr; subst hr; exact h0
  | cons l ls ih =>
    intro s0 s h0 hr
    simp only [run] at hr
    split at hr
    · next s' hs' => exact ih s' s (hstep s0 s' l h0 hs') hr
    · cases hr

theorem reachable_induction (answer : Answer) (n : Nat) (P : S → Prop) (h0 : P (init n))
    (hstep : ∀ s s' l, P s → step answer s l = some s' → P s') :
    ∀ s, Reachable answer n s → P s := by
  intro s ⟨ls, hr⟩
  exact run_inv answer P hstep ls (init n) s h0 hr

/-! ## bookkeeping of queues, counters and `SYS:VERSION` counts — any number of objects -/

structure Inv (s : S) : Prop where
  enq : s.written.length + s.pending.length = s.enqueued
  cons_le : s.consumed ≤ s.written.length
  ans_len : s.ansEnd.length = s.consumed
  proc_le : s.processed ≤ s.emitted.length
  ans_le : ∀ e ∈ s.ansEnd, e ≤ s.emitted.length
  ans_sorted : s.ansEnd.Pairwise (· ≤ ·)
  vl_eq : s.vl = (s.emitted.take s.processed).countP isVersionLine
  em_cnt : s.emitted.countP isVersionLine = (s.written.take s.consumed).countP (· == versionQuery)
  vq_eq : (s.written ++ s.pending).countP (· == versionQuery) = s.vq
  last_q : s.written ++ s.pending = [] ∨ ∃ pre, s.written ++ s.pending = pre ++ [versionQuery]
  vans : ∀ i, i < s.consumed → s.written[i]? = some versionQuery →
    ∃ e l, s.ansEnd[i]? = some e ∧ 1 ≤ e ∧ s.emitted[e - 1]? = some l ∧ isVersionLine l = true

theorem inv_init (n : Nat) : Inv (init n) := by
  constructor <;> simp [init]

theorem inv_step (answer : Answer) (ha : AnswerOk answer) (s s' : S) (l : Label) (hi : Inv s)
    (hs : step answer s l = some s') : Inv s' := by
  obtain ⟨h1, h2, h3, h4, h5, h6, h7, h8, h9, h10, h11⟩ := hi
  cases l with
  | «begin» i queries =>
    simp only [step] at hs
    split at hs
    · split at hs
      · next hc =>
        simp at hs; subst hs
        simp only [Bool.and_eq_true, List.all_eq_true] at hc
        have hq : List.countP (fun x => x == versionQuery) queries = 0 := by
          rw [List.countP_eq_zero]; intro a ha; simpa using hc.2 a ha
        constructor <;> simp only [] <;> try assumption
        case enq => simp; omega
        case vq_eq => simp [List.countP_append] at h9 ⊢; omega
        case last_q => exact Or.inr ⟨s.written ++ (s.pending ++ queries), by simp⟩
      · cases hs
    · cases hs
  | write =>
    simp only [step] at hs
    split at hs
    · next q rest hp =>
      simp at hs; subst hs
      have ht : List.take s.consumed (s.written ++ [q]) = List.take s.consumed s.written :=
        List.take_append_of_le_length h2
      constructor <;> simp only [] <;> try assumption
      case enq => simp [hp] at h1 ⊢; omega
      case cons_le => simp; omega
      case em_cnt => rw [ht]; exact h8
      case vq_eq => simpa [hp] using h9
      case last_q => simpa [hp] using h10
      case vans =>
        intro i hi hw
        have : i < s.written.length := by omega
        rw [List.getElem?_append_left this] at hw
        exact h11 i hi hw
    · cases hs
  | consume =>
    simp only [step] at hs
    split at hs
    · next hc =>
      simp at hs; subst hs
      generalize hq : s.written[s.consumed] = q
      have hq' : s.written[s.consumed]? = some q := by simp [hc, hq]
      have hcnt : List.countP isVersionLine (answer q) = if q = versionQuery then 1 else 0 := by
        split
        · next hv => obtain ⟨l, hl, hvl⟩ := ha.2; subst hv; simp [hl, hvl]
        · next hv => rw [List.countP_eq_zero]; intro a ham; simp [ha.1 q hv a ham]
      constructor <;> simp only [] <;> try assumption
      case ans_len => simp; omega
      case proc_le => simp; omega
      case ans_le =>
        intro e he
        simp at he ⊢
        rcases he with he | he
        · have := h5 e he; omega
        · omega
      case ans_sorted =>
        rw [List.pairwise_append]
        refine ⟨h6, by simp, ?_⟩
        intro a ha b hb
        simp at hb
        have := h5 a ha; omega
      case vl_eq => rw [List.take_append_of_le_length h4]; exact h7
      case em_cnt =>
        rw [List.countP_append, List.take_add_one, List.countP_append, hq', hcnt, h8]
        by_cases hv : q = versionQuery <;> simp [hv]
      case vans =>
        intro i hi hw
        by_cases hic : i < s.consumed
        · obtain ⟨e, l, h1', h2', h3', h4'⟩ := h11 i hic hw
          refine ⟨e, l, ?_, h2', ?_, h4'⟩
          · rw [List.getElem?_append_left (by omega)]; exact h1'
          · have : e - 1 < s.emitted.length := by
              have := (List.getElem?_eq_some_iff.mp h3').1; exact this
            rw [List.getElem?_append_left this]; exact h3'
        · have hie : i = s.consumed := by omega
          subst hie
          rw [hq'] at hw
          have hw : q = versionQuery := by simpa using hw
          obtain ⟨l, hl, hvl⟩ := ha.2
          subst hw
          refine ⟨s.emitted.length + 1, l, ?_, by omega, ?_, hvl⟩
          · rw [← h3]; simp [hl]
          · simp [hl]
    · cases hs
  | unsolicited l =>
    simp only [step] at hs
    split at hs
    · cases hs
    · next hv =>
      simp at hs; subst hs
      constructor <;> simp only [] <;> try assumption
      case proc_le => simp; omega
      case ans_le => intro e he; have := h5 e he; simp; omega
      case vl_eq => rw [List.take_append_of_le_length h4]; exact h7
      case em_cnt => rw [List.countP_append, h8]; simp [hv]
      case vans =>
        intro i hi hw
        obtain ⟨e, l', h1', h2', h3', h4'⟩ := h11 i hi hw
        refine ⟨e, l', h1', h2', ?_, h4'⟩
        have : e - 1 < s.emitted.length := (List.getElem?_eq_some_iff.mp h3').1
        rw [List.getElem?_append_left this]; exact h3'
  | deliver =>
    simp only [step] at hs
    split at hs
    · next hc =>
      split at hs
      · simp at hs; subst hs
        constructor <;> simp only [] <;> assumption
      · simp at hs; subst hs
        constructor <;> simp only [] <;> try assumption
        case vl_eq =>
          rw [List.take_add_one, List.countP_append, ← h7]
          simp [hc]
          split <;> simp_all
    · cases hs
  | wake i =>
    simp only [step] at hs
    split at hs
    · split at hs
      · simp at hs; subst hs; constructor <;> simp only [] <;> assumption
      · cases hs
    · cases hs
  | timeout i =>
    simp only [step] at hs
    split at hs
    · split at hs
      · simp at hs; subst hs; constructor <;> simp only [] <;> assumption
      · cases hs
    · cases hs

theorem Inv.vl_le_vq {s : S} (hi : Inv s) : s.vl ≤ s.vq := by
  have a := countP_take_le isVersionLine s.emitted s.processed
  have b := countP_take_le (· == versionQuery) s.written s.consumed
  have c := hi.vq_eq
  rw [List.countP_append] at c
  have d := hi.vl_eq
  have e := hi.em_cnt
  omega

/-- the heart of the barrier (as in `Ynca.L5.barrier_core`): once every enqueued `SYS:VERSION` query has had its
    reply delivered to all objects, the device has consumed every enqueued command and every answer has been
    delivered; the last command is a sync query and its reply is a `SYS:VERSION` line -/
theorem barrier_core {s : S} (hi : Inv s) (hv : s.vl = s.vq) :
    s.consumed = s.enqueued ∧ s.written.length = s.enqueued ∧ s.pending = [] ∧
    (∀ e ∈ s.ansEnd, e ≤ s.processed) ∧
    (0 < s.enqueued → s.written[s.enqueued - 1]? = some versionQuery ∧
      ∃ e l, s.ansEnd[s.enqueued - 1]? = some e ∧ 1 ≤ e ∧ e ≤ s.processed ∧
        s.emitted[e - 1]? = some l ∧ isVersionLine l = true) := by
  obtain ⟨h1, h2, h3, h4, h5, h6, h7, h8, h9, h10, h11⟩ := hi
  have a := countP_take_le isVersionLine s.emitted s.processed
  have hall : s.written ++ s.pending = s.written.take s.consumed ++ (s.written.drop s.consumed ++ s.pending) := by
    rw [← List.append_assoc, List.take_append_drop]
  have hc := h9
  rw [hall, List.countP_append] at hc
  have hrest0 : (s.written.drop s.consumed ++ s.pending).countP (· == versionQuery) = 0 := by omega
  have hfull : s.emitted.countP isVersionLine = (s.emitted.take s.processed).countP isVersionLine := by omega
  have hrest : s.written.drop s.consumed ++ s.pending = [] := by
    rcases h10 with h10 | ⟨pre, hpre⟩
    · rw [hall] at h10; simp at h10; simp [h10]
    · cases hr : s.written.drop s.consumed ++ s.pending with
      | nil => rfl
      | cons x xs =>
        exfalso
        have hlast : (s.written.drop s.consumed ++ s.pending).getLast? = some versionQuery := by
          have : (s.written ++ s.pending).getLast? = some versionQuery := by rw [hpre]; simp
          rw [hall, List.getLast?_append, hr] at this
          rw [hr]; simpa using this
        rw [List.countP_eq_zero] at hrest0
        have := hrest0 versionQuery (List.mem_of_getLast? hlast)
        simp at this
  have hp : s.pending = [] := by simp at hrest; exact hrest.2
  have hwl : s.written.length ≤ s.consumed := by simp at hrest; exact hrest.1
  have hce : s.consumed = s.written.length := by omega
  have hwe : s.written.length = s.enqueued := by simp [hp] at h1; omega
  -- when anything was enqueued: the last consumed command is the sync query, its reply was delivered
  have hlastq : 0 < s.enqueued → s.written[s.enqueued - 1]? = some versionQuery ∧
      ∃ e l, s.ansEnd[s.enqueued - 1]? = some e ∧ 1 ≤ e ∧ e ≤ s.processed ∧
        s.emitted[e - 1]? = some l ∧ isVersionLine l = true := by
    intro hpos
    rcases h10 with h10 | ⟨pre, hpre⟩
    · simp at h10; simp [h10.1] at hwe; omega
    · rw [hp, List.append_nil] at hpre
      have hlen : s.written.length = pre.length + 1 := by rw [hpre]; simp
      have hw : s.written[s.enqueued - 1]? = some versionQuery := by
        rw [← hwe, hpre]; simp
      obtain ⟨e', l, he1, he2, he3, he4⟩ := h11 (s.enqueued - 1) (by omega) hw
      have hle' : e' ≤ s.processed := by
        apply Classical.byContradiction
        intro hn
        have := countP_take_eq_no_later isVersionLine s.emitted s.processed (e' - 1) l hfull.symm (by omega) he3
        simp [he4] at this
      exact ⟨hw, e', l, he1, he2, hle', he3, he4⟩
  refine ⟨by omega, hwe, hp, ?_, hlastq⟩
  intro e he
  have hpos : 0 < s.enqueued := by
    have : 0 < s.ansEnd.length := List.length_pos_of_mem he
    omega
  obtain ⟨_, e', l, he1, _, hle', _, _⟩ := hlastq hpos
  -- sortedness: every answer ends no later than the last one
  have hsort : e ≤ e' := by
    rw [List.pairwise_iff_getElem] at h6
    obtain ⟨i, hi, hei⟩ := List.mem_iff_getElem.mp he
    have hj : s.enqueued - 1 < s.ansEnd.length := by omega
    have he'j : s.ansEnd[s.enqueued - 1] = e' := by
      have := List.getElem?_eq_some_iff.mp he1; exact this.2
    by_cases hij : i < s.enqueued - 1
    · have := h6 i (s.enqueued - 1) hi hj hij
      rw [hei, he'j] at this; exact this
    · have : i = s.enqueued - 1 := by omega
      subst this; rw [← hei, he'j]; exact Nat.le_refl _
  omega

/-! ## ONE object: stage, event and the balance of `SYS:VERSION` queries and replies -/

structure Inv1 (s : S) (o : Obj) : Prop where
  objs : s.objs = [o]
  didx : s.deliverIdx = 0
  slice : ∀ f c, o.stage = .waiting f c → f = o.first ∧ c = o.count
  enq : o.stage ≠ .idle → o.first + o.count = s.enqueued ∧ 0 < o.count
  bal_rest : o.stage = .idle ∨ o.stage = .ok → s.vl = s.vq
  bal_set : ∀ f c, o.stage = .waiting f c → o.event = true → s.vl = s.vq
  bal_unset : ∀ f c, o.stage = .waiting f c → o.event = false → s.vl + 1 = s.vq

theorem inv1_init : Inv1 (init 1) {} := by
  constructor <;> simp [init]

theorem inv1_step (answer : Answer) (s s' : S) (l : Label) (o : Obj) (hi : Inv1 s o) (hle : s'.vl ≤ s'.vq)
    (hs : step answer s l = some s') : ∃ o', Inv1 s' o' := by
  obtain ⟨h0, hd, h1, h2, h3, h4, h5⟩ := hi
  cases l with
  | «begin» i queries =>
    simp only [step, h0] at hs
    split at hs
    · next o1 ho1 =>
      split at hs
      · next hc =>
        have hi0 : i = 0 := by
          cases i with
          | zero => rfl
          | succ n => simp at ho1
        subst hi0
        simp at ho1; subst ho1
        simp only [Bool.and_eq_true] at hc
        have hrest : o.stage = .idle ∨ o.stage = .ok := by
          have := hc.1.1
          cases hst : o.stage <;> simp_all [Stage.isRest]
        have hb := h3 hrest
        simp at hs; subst hs
        refine ⟨_, ⟨rfl, hd, ?_, ?_, ?_, ?_, ?_⟩⟩ <;> simp
        · omega
        · omega
      · cases hs
    · cases hs
  | write =>
    simp only [step] at hs
    split at hs
    · simp at hs; subst hs; exact ⟨o, ⟨h0, hd, h1, h2, h3, h4, h5⟩⟩
    · cases hs
  | consume =>
    simp only [step] at hs
    split at hs
    · simp at hs; subst hs; exact ⟨o, ⟨h0, hd, h1, h2, h3, h4, h5⟩⟩
    · cases hs
  | unsolicited l =>
    simp only [step] at hs
    split at hs
    · cases hs
    · simp at hs; subst hs; exact ⟨o, ⟨h0, hd, h1, h2, h3, h4, h5⟩⟩
  | deliver =>
    simp only [step, h0, hd] at hs
    split at hs
    · next hc =>
      simp at hs; subst hs
      simp only [] at hle
      generalize isVersionLine s.emitted[s.processed] = b at hle ⊢
      refine ⟨_, ⟨rfl, rfl, ?_, ?_, ?_, ?_, ?_⟩⟩ <;> simp only []
      · exact h1
      · exact h2
      · intro hst; have := h3 hst
        cases b <;> simp at hle ⊢ <;> omega
      · intro f c hst hev
        have h4' := h4 f c hst
        have h5' := h5 f c hst
        cases b <;> cases hse : o.event <;> simp [hse, hst, Stage.isOk] at hle hev h4' h5' ⊢ <;> omega
      · intro f c hst hev
        have h5' := h5 f c hst
        cases b <;> cases hse : o.event <;> simp [hse, hst, Stage.isOk] at hle hev h5' ⊢ <;> omega
    · cases hs
  | wake i =>
    simp only [step, h0] at hs
    split at hs
    · next o1 ho1 =>
      split at hs
      · next hc =>
        have hi0 : i = 0 := by
          cases i with
          | zero => rfl
          | succ n => simp at ho1
        subst hi0
        simp at ho1; subst ho1
        simp only [Bool.and_eq_true] at hc
        obtain ⟨f, c, hst⟩ : ∃ f c, o.stage = .waiting f c := by
          have := hc.1
          cases hst : o.stage <;> simp_all [Stage.isWaiting]
        have hb := h4 f c hst hc.2
        have he := h2 (by simp [hst])
        simp at hs; subst hs
        refine ⟨_, ⟨rfl, hd, ?_, ?_, ?_, ?_, ?_⟩⟩ <;> simp
        · exact he
        · exact hb
      · cases hs
    · cases hs
  | timeout i =>
    simp only [step, h0] at hs
    split at hs
    · next o1 ho1 =>
      split at hs
      · next hc =>
        have hi0 : i = 0 := by
          cases i with
          | zero => rfl
          | succ n => simp at ho1
        subst hi0
        simp at ho1; subst ho1
        simp only [Bool.and_eq_true] at hc
        obtain ⟨f, c, hst⟩ : ∃ f c, o.stage = .waiting f c := by
          have := hc.1
          cases hst : o.stage <;> simp_all [Stage.isWaiting]
        have he := h2 (by simp [hst])
        simp at hs; subst hs
        refine ⟨_, ⟨rfl, hd, ?_, ?_, ?_, ?_, ?_⟩⟩ <;> simp
        · exact he
      · cases hs
    · cases hs

theorem reachable_inv (answer : Answer) (ha : AnswerOk answer) (n : Nat) (s : S) (h : Reachable answer n s) :
    Inv s :=
  reachable_induction answer n Inv (inv_init n) (fun s s' l hi hs => inv_step answer ha s s' l hi hs) s h

theorem reachable_inv1 (answer : Answer) (ha : AnswerOk answer) (s : S) (h : Reachable answer 1 s) :
    Inv s ∧ ∃ o, Inv1 s o := by
  refine reachable_induction answer 1 (fun s => Inv s ∧ ∃ o, Inv1 s o) ⟨inv_init 1, _, inv1_init⟩ ?_ s h
  intro s s' l ⟨hi, o, hi1⟩ hs
  have hi' := inv_step answer ha s s' l hi hs
  exact ⟨hi', inv1_step answer s s' l o hi1 hi'.vl_le_vq hs⟩

/-- the number of objects never changes -/
theorem objs_length (answer : Answer) (n : Nat) (s : S) (h : Reachable answer n s) : s.objs.length = n := by
  refine reachable_induction answer n (fun s => s.objs.length = n) (by simp [init]) ?_ s h
  intro s s' l hi hs
  cases l <;> simp only [step] at hs <;> (repeat' split at hs) <;> cases hs <;> simp_all

/-- ONE object: when its `initialize()` has returned normally, every command of its slice is written and
    consumed, every answer has been delivered, the last command of the slice is the sync query and its
    `SYS:VERSION` reply has been delivered -/
theorem barrier1 (answer : Answer) (ha : AnswerOk answer) (s : S) (h : Reachable answer 1 s)
    (o : Obj) (ho : s.objs[0]? = some o) (hok : o.stage = .ok) :
    0 < o.count ∧ o.first + o.count = s.enqueued ∧
    s.pending = [] ∧ s.written.length = o.first + o.count ∧ s.consumed = o.first + o.count ∧
    s.deliverIdx = 0 ∧ (∀ e ∈ s.ansEnd, e ≤ s.processed) ∧
    s.written[o.first + o.count - 1]? = some versionQuery ∧
    ∃ e l, s.ansEnd[o.first + o.count - 1]? = some e ∧ 1 ≤ e ∧ e ≤ s.processed ∧
      s.emitted[e - 1]? = some l ∧ isVersionLine l = true := by
  obtain ⟨hi, o', hi1⟩ := reachable_inv1 answer ha s h
  have : o' = o := by rw [hi1.objs] at ho; simpa using ho
  subst this
  obtain ⟨hfc, hpos⟩ := hi1.enq (by simp [hok])
  obtain ⟨b1, b2, b3, b4, b5⟩ := barrier_core hi (hi1.bal_rest (Or.inr hok))
  obtain ⟨b6, b7⟩ := b5 (by omega)
  rw [← hfc] at b6 b7
  exact ⟨hpos, hfc, b3, by omega, by omega, hi1.didx, b4, b6, b7⟩

/-- ONE object, at the moment the waiting caller is woken -/
theorem barrier1_waiting (answer : Answer) (ha : AnswerOk answer) (s : S) (h : Reachable answer 1 s)
    (o : Obj) (ho : s.objs[0]? = some o) (first count : Nat) (hw : o.stage = .waiting first count)
    (he : o.event = true) :
    first + count ≤ s.consumed ∧ ∀ i, i < first + count → ∃ e, s.ansEnd[i]? = some e ∧ e ≤ s.processed := by
  obtain ⟨hi, o', hi1⟩ := reachable_inv1 answer ha s h
  have : o' = o := by rw [hi1.objs] at ho; simpa using ho
  subst this
  obtain ⟨hf, hc⟩ := hi1.slice first count hw
  obtain ⟨hfc, _⟩ := hi1.enq (by simp [hw])
  obtain ⟨b1, _, _, b4, _⟩ := barrier_core hi (hi1.bal_set first count hw he)
  refine ⟨by omega, ?_⟩
  intro i hi'
  have hlt : i < s.ansEnd.length := by rw [hi.ans_len]; omega
  exact ⟨s.ansEnd[i], List.getElem?_eq_getElem hlt, b4 _ (List.getElem_mem hlt)⟩

end Ynca.L5m
