import YncaVerif.Lemmas.L4Basic
/-! Helper lemmas for C08. -/
namespace Ynca.L4

theorem spaced_mono (d d' : Nat) (h : d ≤ d') (l : List Nat) : Spaced d' l → Spaced d l := by
  induction l with
  | nil => intro _; trivial
  | cons a r ih =>
    cases r with
    | nil => intro _; trivial
    | cons b r =>
      intro hs
      simp only [Spaced] at hs ⊢
      exact ⟨by omega, ih hs.2⟩

/-- every "last" element of `w` is at least `d` before `b` -/
def lastOK (d : Nat) (w : List Nat) (b : Nat) : Prop := ∀ t, w.getLast? = some t → t + d ≤ b

theorem lastOK_mono {d : Nat} {w : List Nat} {b b' : Nat} (h : lastOK d w b) (hb : b ≤ b') : lastOK d w b' :=
  fun t ht => Nat.le_trans (h t ht) hb

theorem lastOK_nil (d b : Nat) : lastOK d [] b := by intro t ht; simp at ht

theorem spaced_append (d : Nat) (l : List Nat) (x : Nat) (hs : Spaced d l) (hl : lastOK d l x) :
    Spaced d (l ++ [x]) := by
  induction l with
  | nil => trivial
  | cons a r ih =>
    cases r with
    | nil =>
      simp only [List.cons_append, List.nil_append, Spaced, and_true]
      exact hl a (by simp)
    | cons b r =>
      simp only [Spaced, List.cons_append] at hs ⊢
      refine ⟨hs.1, ih hs.2 ?_⟩
      intro t ht
      exact hl t (by simpa [List.getLast?_cons_cons] using ht)

/-- per-pc relation between the last write time and the clock -/
def spcBound (P : Params) (s : St) : Prop :=
  match s.spc with
  | .waitGet _ => lastOK P.spacing (wireTimes s) s.now
  | .timedOut => lastOK P.spacing (wireTimes s) s.now
  | .got _ => lastOK P.spacing (wireTimes s) s.now
  | .logging _ _ => lastOK P.spacing (wireTimes s) s.now
  | .lockWait _ _ => lastOK P.spacing (wireTimes s) s.now
  | .writing _ _ => lastOK P.spacing (wireTimes s) s.now
  | .sleeping u => lastOK P.spacing (wireTimes s) u
  | _ => True

def Inv8 (P : Params) (s : St) : Prop :=
  Spaced P.spacing (wireTimes s) ∧ (∀ t ∈ wireTimes s, t ≤ s.now) ∧ spcBound P s

theorem Inv8.congr {P : Params} {s s' : St} (hi : Inv8 P s) (hw : s'.wire = s.wire) (hn : s'.now = s.now)
    (hp : s'.spc = s.spc) : Inv8 P s' := by
  unfold Inv8 spcBound wireTimes at *
  rw [hw, hn, hp]; exact hi

theorem inv8_step (P : Params) (s s' : St) (l : Label) (o : Option Obs) (hr : Reachable P s) (hi : Inv8 P s)
    (hs : step P s l = some (s', o)) : Inv8 P s' := by
  have ⟨h1, h2, h3⟩ := hi
  cases step_kind P s s' l o hs with
  | tick d h =>
    subst h
    refine ⟨h1, fun t ht => Nat.le_trans (h2 t ht) (Nat.le_add_right _ _), ?_⟩
    simp only [spcBound] at h3 ⊢
    split at h3 <;> rename_i hp <;> simp only [hp] <;> first
      | exact lastOK_mono h3 (Nat.le_add_right _ _)
      | exact h3
      | (split <;> simp_all)
  | sender o h =>
    cases stepS_kind P s s' o h with
    | get dl m q hp hq h _ => subst h; simp only [spcBound, hp] at h3; exact ⟨h1, h2, h3⟩
    | timeout dl hp hq hd h _ => subst h; simp only [spcBound, hp] at h3; exact ⟨h1, h2, h3⟩
    | putKA hp h _ => subst h; simp only [spcBound, hp] at h3; exact ⟨h1, h2, h3⟩
    | exit hp h _ => subst h; exact ⟨h1, h2, trivial⟩
    | flag hp h _ => subst h; simp only [spcBound, hp] at h3; exact ⟨h1, h2, h3⟩
    | classify i t hp h _ => subst h; simp only [spcBound, hp] at h3; exact ⟨h1, h2, h3⟩
    | log t i hp h _ => subst h; simp only [spcBound, hp] at h3; exact ⟨h1, h2, h3⟩
    | lock t i hp h _ => subst h; simp only [spcBound, hp] at h3; exact ⟨h1, h2, h3⟩
    | die t i hp h _ => subst h; exact ⟨h1, h2, trivial⟩
    | write t i hp h _ =>
      subst h
      simp only [spcBound, hp] at h3
      refine ⟨?_, ?_, trivial⟩
      · simp only [wireTimes, List.map_append, List.map_cons, List.map_nil]
        exact spaced_append _ _ _ h1 h3
      · simp only [wireTimes, List.map_append, List.map_cons, List.map_nil, List.mem_append,
          List.mem_singleton]
        rintro t (ht | rfl)
        · exact h2 t ht
        · exact Nat.le_refl _
    | unlock hp h _ =>
      subst h
      refine ⟨h1, h2, ?_⟩
      simp only [spcBound]
      intro t ht
      have := h2 t (List.mem_of_getLast? ht)
      show t + P.spacing ≤ s.now + P.spacing
      omega
    | wake u hp hu h _ =>
      subst h
      refine ⟨h1, h2, ?_⟩
      simp only [spcBound, hp] at h3
      exact lastOK_mono h3 hu
  | submit t text hq h => subst h; exact hi.congr (by simp) (by simp) (by simp)
  | made0 hr0 h =>
    subst h
    have he := earlyInv P s hr (.inr hr0)
    refine ⟨h1, h2, ?_⟩
    simp only [spcBound, wireTimes, he.2.2.2.2.1]
    exact lastOK_nil _ _
  | enq it r' _ _ _ h => subst h; exact hi
  | drain x q _ _ h => subst h; exact hi
  | split l rest _ h => subst h; exact hi
  | logRecv l _ h => subst h; exact hi
  | env hc hre => exact hi.congr hc.wire hc.now hc.spc

theorem inv8 (P : Params) (s : St) (h : Reachable P s) : Inv8 P s :=
  reachable_induction' P (Inv8 P) (by simp [Inv8, wireTimes, spcBound, Spaced]) (inv8_step P) s h

theorem spacing_inv (P : Params) (s : St) (h : Reachable P s) : Spaced P.spacing (wireTimes s) :=
  (inv8 P s h).1

theorem wire_times_le_now (P : Params) (s : St) (h : Reachable P s) : ∀ t ∈ wireTimes s, t ≤ s.now :=
  (inv8 P s h).2.1

theorem stepClose_no_write (P : Params) (s s' : St) (t : Tid) (pc : CPc) (x : String) :
    stepClose P s t pc ≠ some (s', some (.write x)) := by
  intro h
  cases pc <;> simp only [stepClose] at h
  all_goals (repeat' split at h)
  all_goals simp at h

theorem stepU_no_write (P : Params) (s s' : St) (t : Tid) (x : String) :
    stepU P s t ≠ some (s', some (.write x)) := by
  intro h
  unfold stepU at h
  split at h
  · simp at h
  · split at h <;> simp at h
  · simp at h
  · exact stepClose_no_write P s s' t _ x h

theorem stepR_no_write (P : Params) (s s' : St) (x : String) :
    stepR P s ≠ some (s', some (.write x)) := by
  intro h
  unfold stepR at h
  repeat' split at h
  all_goals simp at h

theorem write_only_by_sender (P : Params) (s s' : St) (l : Label) (t : String)
    (h : step P s l = some (s', some (.write t))) : l = .s := by
  cases l
  case s => rfl
  case u tid => exact absurd h (stepU_no_write P s s' tid t)
  case r => exact absurd h (stepR_no_write P s s' t)
  all_goals
    exfalso
    simp only [step] at h
    repeat' split at h
    all_goals simp at h

end Ynca.L4
