import YncaVerif.Lemmas.L4Defs
/-! Helper lemmas for C08. -/
namespace Ynca.L4
end Ynca.L4
