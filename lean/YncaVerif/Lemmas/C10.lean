import YncaVerif.Lemmas.Subunit
/-! Helper lemmas for C10 (typed values). -/
namespace Ynca

/-- side condition on an enumeration table list used by `decode_typed`: UNKNOWN is a member name of every
    table with a `_missing_` hook (the hook returns that member). -/
def enumNamesOk (t : EnumTbl) : Bool :=
  !t.hasMissing || t.members.any (·.1 == "UNKNOWN")

/-- Python's behaviour on exotic numeric syntax is type-correct: it yields a number of the converter's kind -/
def ExoticOk (tbls : List EnumTbl) (ex : Exotic) : Prop :=
  ∀ c s v, ex c s = some v → valMatches tbls c v = true

/-- every cached value has the type of its function -/
def CacheTyped (tbls : List EnumTbl) (st : SubSt) : Prop :=
  ∀ f v, (f, v) ∈ st.cache → ∃ fn, findFn st.cls f = some fn ∧ valMatches tbls fn.conv v = true

/-! ### an undecodable value changes nothing -/

theorem recvSync_calls (st : SubSt) (m : Msg) : (recvSync st m).calls = st.calls := by
  unfold recvSync; split <;> rfl

theorem recv_undecodable (tbls : List EnumTbl) (ex : Exotic) (st : SubSt) (m : Msg)
    (f v : String) (fn : Fn) (hm : m.fn = some f) (hv : m.value = some v)
    (hfn : findFn st.cls f = some fn) (hdec : decodeFull tbls ex fn.conv v = none) :
    (recv tbls ex st m).cache = st.cache ∧ (recv tbls ex st m).calls = st.calls ∧
    (recv tbls ex st m).sent = st.sent ∧ (recv tbls ex st m).closed = st.closed := by
  refine ⟨?_, ?_, recv_sent tbls ex st m, recv_closed tbls ex st m⟩
  · rw [recv_cache]
    unfold recvCache
    simp only [hm, hv, hfn, hdec]
    repeat' split
    all_goals rfl
  · rw [recv_eq]
    split
    · rfl
    split
    · rfl
    have hfn' : findFn (recvSync st m).cls f = some fn := by rw [recvSync_cls]; exact hfn
    unfold recvRest
    simp only [hm, hv, hfn', hdec]
    split
    · exact recvSync_calls st m
    · exact recvSync_calls st m

/-! ### decoding is type-correct -/

theorem findEnum_name (tbls : List EnumTbl) (e : String) (t : EnumTbl) (h : findEnum tbls e = some t) :
    t.name = e := by
  have := List.find?_some h
  simpa using this

theorem findEnum_mem (tbls : List EnumTbl) (e : String) (t : EnumTbl) (h : findEnum tbls e = some t) :
    t ∈ tbls := List.mem_of_find?_eq_some h

theorem decodeEnum_typed (tbls : List EnumTbl) (hE : tbls.all enumNamesOk = true) (e : String)
    (t : EnumTbl) (ht : findEnum tbls e = some t) (s : String) (v : Val)
    (h : decodeEnum t s = .ok v) : valMatches tbls (.enum e) v = true := by
  have hname := findEnum_name tbls e t ht
  have hok : enumNamesOk t = true := (List.all_eq_true.mp hE) t (findEnum_mem tbls e t ht)
  unfold decodeEnum at h
  split at h
  · rename_i n txt hfind
    have hmem : (n, txt) ∈ t.members := List.mem_of_find?_eq_some hfind
    cases h
    simp only [valMatches, ht, hname, beq_self_eq_true, Bool.true_and, List.any_eq_true]
    exact ⟨(n, txt), hmem, by simp⟩
  · split at h
    · rename_i hmiss
      cases h
      simp only [enumNamesOk, hmiss, Bool.not_true, Bool.false_or] at hok
      simp only [valMatches, ht, hname, beq_self_eq_true, Bool.true_and]
      exact hok
    · cases h

mutual
theorem decode_typed (tbls : List EnumTbl) (hE : tbls.all enumNamesOk = true) :
    (c : Conv) → (s : String) → (v : Val) → decode tbls c s = .ok v → valMatches tbls c v = true
  | .enum e, s, v, h => by
    simp only [decode] at h
    split at h
    · rename_i t ht
      exact decodeEnum_typed tbls hE e t ht s v h
    · cases h
  | .str _ _, s, v, h => by
    simp only [decode] at h
    cases h
    rfl
  | .int _, s, v, h => by
    simp only [decode, decodeInt] at h
    split at h
    · cases h; rfl
    · repeat' split at h
      all_goals cases h
  | .intOrNone _, s, v, h => by
    simp only [decode] at h
    split at h
    · cases h; rfl
    · rename_i r hr
      simp only [decodeInt] at h
      split at h
      · cases h; rfl
      · repeat' split at h
        all_goals cases h
  | .float _, s, v, h => by
    simp only [decode, decodeFloat] at h
    split at h
    · cases h; rfl
    · repeat' split at h
      all_goals cases h
  | .multi cs, s, v, h => by
    simp only [decode] at h
    simp only [valMatches]
    exact decodeMulti_typed tbls hE cs s v h
  | .opaque _, s, v, h => by
    simp only [decode] at h
    cases h
theorem decodeMulti_typed (tbls : List EnumTbl) (hE : tbls.all enumNamesOk = true) :
    (cs : List Conv) → (s : String) → (v : Val) → decode.decodeMulti tbls cs s = .ok v →
      valMatches.go tbls cs v = true
  | [], s, v, h => by
    simp only [decode.decodeMulti] at h
    cases h
  | c :: cs, s, v, h => by
    simp only [decode.decodeMulti] at h
    simp only [valMatches.go, Bool.or_eq_true]
    cases hd : decode tbls c s with
    | ok v' =>
      rw [hd] at h
      cases h
      exact Or.inl (decode_typed tbls hE c s v hd)
    | raises =>
      rw [hd] at h
      exact Or.inr (decodeMulti_typed tbls hE cs s v h)
    | unspecified =>
      rw [hd] at h
      cases h
end

theorem decodeFull_typed (tbls : List EnumTbl) (hE : tbls.all enumNamesOk = true) (ex : Exotic)
    (hex : ExoticOk tbls ex) (c : Conv) (s : String) (v : Val)
    (h : decodeFull tbls ex c s = some v) : valMatches tbls c v = true := by
  unfold decodeFull at h
  split at h
  · rename_i v' hd
    cases h
    exact decode_typed tbls hE c s v hd
  · cases h
  · exact hex c s v h

/-! ### the cache stays typed -/

theorem recv_typed (tbls : List EnumTbl) (hE : tbls.all enumNamesOk = true) (ex : Exotic)
    (hex : ExoticOk tbls ex) (st : SubSt) (m : Msg) (hst : CacheTyped tbls st) :
    CacheTyped tbls (recv tbls ex st m) := by
  intro f v hmem
  rw [recv_cls]
  rw [recv_cache] at hmem
  unfold recvCache at hmem
  repeat' split at hmem
  all_goals try exact hst f v hmem
  rename_i g w _ _ _ fn hfn _ val hval
  simp only [cacheSet, List.mem_cons, List.mem_filter] at hmem
  rcases hmem with heq | ⟨hold, _⟩
  · cases heq
    exact ⟨fn, hfn, decodeFull_typed tbls hE ex hex fn.conv w v hval⟩
  · exact hst f v hold

theorem foldl_recv_typed' (tbls : List EnumTbl) (hE : tbls.all enumNamesOk = true) (ex : Exotic)
    (hex : ExoticOk tbls ex) (h : List Msg) (st : SubSt) (hst : CacheTyped tbls st) :
    CacheTyped tbls (h.foldl (recv tbls ex) st) := by
  induction h generalizing st with
  | nil => exact hst
  | cons m h ih =>
    rw [List.foldl_cons]
    exact ih _ (recv_typed tbls hE ex hex st m hst)

theorem foldl_recv_typed (tbls : List EnumTbl) (hE : tbls.all enumNamesOk = true) (ex : Exotic)
    (hex : ExoticOk tbls ex) (c : Cls) (h : List Msg) :
    CacheTyped tbls (h.foldl (recv tbls ex) (SubSt.new c)) := by
  apply foldl_recv_typed' tbls hE ex hex h
  intro f v hmem
  simp [SubSt.new] at hmem

end Ynca
