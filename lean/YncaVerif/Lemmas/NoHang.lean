import YncaVerif.Lemmas.C12
/-! The library never waits for ever on itself (L4): lock-holder invariant and the case analysis behind `Props/L4Live.lean`. -/
namespace Ynca.L4.NoHang
open Ynca.L4 Ynca.L4.C12L

/-- a thread inside the part of `close()` that holds the transport lock -/
def holdsClose : UPc → Bool
  | .closing .c2 => true
  | .closing (.c3 _) => true
  | .closing .c4 => true
  | .closing .c5 => true
  | _ => false

@[simp] theorem holdsClose_idle : holdsClose .idle = false := rfl
@[simp] theorem holdsClose_submitting (x : String) : holdsClose (.submitting x) = false := rfl
@[simp] theorem holdsClose_returning : holdsClose .returning = false := rfl
@[simp] theorem holdsClose_c0 : holdsClose (.closing .c0) = false := rfl
@[simp] theorem holdsClose_c1 : holdsClose (.closing .c1) = false := rfl
@[simp] theorem holdsClose_c2 : holdsClose (.closing .c2) = true := rfl
@[simp] theorem holdsClose_c3 (d : Nat) : holdsClose (.closing (.c3 d)) = true := rfl
@[simp] theorem holdsClose_c4 : holdsClose (.closing .c4) = true := rfl
@[simp] theorem holdsClose_c5 : holdsClose (.closing .c5) = true := rfl
@[simp] theorem holdsClose_c6 : holdsClose (.closing .c6) = false := rfl
@[simp] theorem holdsClose_r1 : holdsClose (.closing .r1) = false := rfl
@[simp] theorem holdsClose_r2 : holdsClose (.closing .r2) = false := rfl
@[simp] theorem holdsClose_r3 : holdsClose (.closing .r3) = false := rfl

/-- whoever holds the transport lock is at a program point from which it releases it: the sender while writing, or a thread inside
    the locked part of `close()` -/
def LockInv (s : St) : Prop :=
  ∀ t, s.lock = some t → (t = tidS ∧ holdsLock s.spc = true) ∨ holdsClose (upcOf s t) = true

/-- the reader's blocking read always carries the read time-out -/
def ReadInv (s : St) : Prop :=
  (∀ n, s.rpc ≠ .reading n none) ∧ (∀ k, s.rpc = .made k → k ≤ 3) ∧ (∀ k, s.rpc = .lost k → k ≠ 3 ∧ k ≤ 5)

theorem holdsClose_upcOf_setUpc (s : St) (t t' : Tid) (p : UPc) :
    holdsClose (upcOf (setUpc s t p) t') = if t' = t then holdsClose p else holdsClose (upcOf s t') := by
  rw [upcOf_setUpc]; split <;> rfl

theorem upc_beq_idle (x : UPc) (h : (x == UPc.idle) = true) : x = .idle := by
  cases x with
  | idle => rfl
  | submitting t => cases h
  | returning => cases h
  | closing pc => cases h

theorem mayCall_idle (s : St) (t : Tid) (h : mayCall s t = true) : upcOf s t = .idle := by
  unfold mayCall at h
  unfold upcOf
  split at h
  · rename_i e; simp [e] at h ⊢; exact upc_beq_idle _ h.2
  · rename_i e; simp [e] at h ⊢; exact upc_beq_idle _ h

/-- starting an API call on an idle thread does not disturb the lock holder -/
theorem lockInv_setUpc_idle (s s0 : St) (t : Tid) (p : UPc) (hidle : upcOf s t = .idle) (hl : s0.lock = s.lock)
    (hspc : s0.spc = s.spc) (hup : ∀ t', upcOf s0 t' = upcOf s t') (hi : LockInv s) : LockInv (setUpc s0 t p) := by
  intro t' hlk
  rw [setUpc_lock, hl] at hlk
  rw [setUpc_spc, hspc, holdsClose_upcOf_setUpc, hup]
  rcases hi t' hlk with h | h
  · exact Or.inl h
  · right
    split
    · rename_i e; subst e; rw [hidle] at h; simp at h
    · exact h

theorem lockInv_step (P : Params) (s s' : St) (l : Label) (o : Option Obs) (h1 : I1 s) (hi : LockInv s)
    (hs : step P s l = some (s', o)) : LockInv s' := by
  cases l <;> simp only [step] at hs
  case s =>
    unfold LockInv at *; unfold I1 at h1
    l4_split_s hs <;> simp_all [enqueue, upcOf]
  case r =>
    unfold LockInv at *; unfold I1 at h1
    l4_split_r hs <;> simp_all [enqueue, upcOf]
  case u t =>
    unfold LockInv at *
    l4_split_u hs
    all_goals (intro t' hl; have hi' := hi t'; by_cases e : t' = t <;> simp_all [holdsClose_upcOf_setUpc] <;> (try simp_all [upcOf]))
  case call t text =>
    split at hs
    · rename_i hm
      simp at hs; obtain ⟨rfl, rfl⟩ := hs
      exact lockInv_setUpc_idle s s t _ (mayCall_idle s t hm) rfl rfl (fun _ => rfl) hi
    · simp at hs
  case callClose t =>
    split at hs
    · rename_i hm
      have hidle := mayCall_idle s t hm
      (repeat' split at hs) <;> simp at hs <;> obtain ⟨rfl, rfl⟩ := hs <;>
        exact lockInv_setUpc_idle s _ t _ hidle rfl rfl (fun _ => rfl) hi
    · simp at hs
  all_goals (l4_split_other hs <;> first | exact hi | (intro t' hl; exact hi t' hl))

theorem lockInv (P : Params) (s : St) (h : Reachable P s) : LockInv s := by
  have : I1 s ∧ LockInv s := by
    refine reachable_induction P (fun s => I1 s ∧ LockInv s) ⟨by simp [I1], by intro t hl; simp at hl⟩ ?_ s h
    intro s s' l o hi hs
    exact ⟨I1_step P s s' l o hi.1 hs, lockInv_step P s s' l o hi.1 hi.2 hs⟩
  exact this.2

theorem readInv_step (P : Params) (s s' : St) (l : Label) (o : Option Obs) (hi : ReadInv s)
    (hs : step P s l = some (s', o)) : ReadInv s' := by
  unfold ReadInv at *
  cases l <;> simp only [step] at hs
  case s => l4_split_s hs <;> simp_all [enqueue]
  case r => l4_split_r hs <;> simp_all [enqueue]
  case u t => l4_split_u hs <;> simp_all
  all_goals l4_split_other hs <;> simp_all

theorem readInv (P : Params) (s : St) (h : Reachable P s) : ReadInv s :=
  reachable_induction P ReadInv (by simp [ReadInv]) (fun s s' l o hi hs => readInv_step P s s' l o hi hs) s h

/-! ### nothing waits for ever -/

theorem lookup_mem (cs : List (Tid × UPc)) (t : Tid) (h : lookup cs t ≠ .idle) : (t, lookup cs t) ∈ cs := by
  unfold lookup at *
  cases hf : cs.find? (·.1 == t) with
  | none => simp [hf] at h
  | some c =>
    simp only [hf, Option.map_some, Option.getD_some]
    have hm := List.mem_of_find?_eq_some hf
    have hp := List.find?_some hf
    simp at hp
    obtain ⟨c1, c2⟩ := c
    simp at hp; subst hp; exact hm

/-- a thread whose next API step is enabled makes `canMove` true -/
theorem canMove_of_stepU (P : Params) (s : St) (t : Tid) (h : (stepU P s t).isSome = true) : canMove P s = true := by
  unfold canMove
  by_cases ht : t = tidR
  · subst ht; simp [h]
  · have hne : upcOf s t ≠ .idle := by
      intro e; unfold stepU at h; rw [e] at h; simp at h
    have hup : upcOf s t = lookup s.callers t := by unfold upcOf; simp [ht]
    rw [hup] at hne
    have hm := lookup_mem s.callers t hne
    have : s.callers.any (fun c => (stepU P s c.1).isSome) = true := by
      rw [List.any_eq_true]; exact ⟨_, hm, h⟩
    simp [this]

theorem deadline_of_c3 (s : St) (t : Tid) (d : Nat) (h : upcOf s t = .closing (.c3 d)) : d ∈ deadlines s := by
  unfold deadlines
  by_cases ht : t = tidR
  · subst ht
    have : s.rcall = .closing (.c3 d) := by simpa [upcOf] using h
    simp [this]
  · have hup : upcOf s t = lookup s.callers t := by unfold upcOf; simp [ht]
    rw [hup] at h
    have hm := lookup_mem s.callers t (by rw [h]; simp)
    rw [h] at hm
    simp only [List.mem_append, List.mem_filterMap]
    right; exact ⟨_, hm, rfl⟩

/-- the holder of the transport lock can take its next step, or waits for a deadline that lies ahead -/
theorem holder_moves (P : Params) (s : St) (t : Tid) (hi : LockInv s) (hl : s.lock = some t)
    (hcm : canMove P s = false) (hdl : ∀ dl ∈ deadlines s, dl ≤ s.now) : False := by
  rcases hi t hl with ⟨_, h⟩ | h
  · have : (stepS P s).isSome = true := by
      unfold stepS
      cases hs : s.spc <;> simp [hs, holdsLock] at h ⊢
      (repeat' split) <;> simp
    have : canMove P s = true := by unfold canMove; simp [this]
    simp [this] at hcm
  · have hstep : (stepU P s t).isSome = true := by
      unfold stepU
      cases hu : upcOf s t with
      | closing pc =>
        cases pc <;> simp [hu, holdsClose] at h ⊢ <;> simp [stepClose]
        rename_i d
        have := hdl d (deadline_of_c3 s t d hu)
        simp [this]
      | _ => simp [hu, holdsClose] at h
    have := canMove_of_stepU P s t hstep
    simp [this] at hcm

/-- every thread is finished or idle -/
def Quiescent (s : St) : Prop :=
  (s.spc = .notStarted ∨ s.spc = .done ∨ s.spc = .dead) ∧ (s.rpc = .notStarted ∨ s.rpc = .done) ∧ ∀ t, upcOf s t = .idle

theorem upc_idle_of_stuck (P : Params) (s : St) (hli : LockInv s) (hcm : canMove P s = false)
    (hdl : ∀ dl ∈ deadlines s, dl ≤ s.now) (t : Tid) : upcOf s t = .idle := by
  have key : (stepU P s t).isSome = true → False := by
    intro hstep
    have := canMove_of_stepU P s t hstep
    simp [this] at hcm
  cases hu : upcOf s t with
  | idle => rfl
  | submitting x =>
    exfalso; apply key; unfold stepU; rw [hu]; simp only; split <;> rfl
  | returning =>
    exfalso; apply key; unfold stepU; rw [hu]; rfl
  | closing pc =>
    exfalso; apply key; unfold stepU; rw [hu]
    cases pc with
    | c1 =>
      cases hl : s.lock with
      | none => simp [stepClose, hl]
      | some t' => exact (holder_moves P s t' hli hl hcm hdl).elim
    | c3 d =>
      have := hdl d (deadline_of_c3 s t d hu)
      simp [stepClose, this]
    | _ => simp [stepClose]

/-- **no hang**: in a reachable state in which no library thread can move and no time-out lies ahead, either the reader's read
    time-out has expired (`rGet true`), or the reader is inside user code that is free to return (`cbRet`), or every thread has
    finished: the library never waits for ever on itself -/
theorem no_hang (P : Params) (s : St) (hr : Reachable P s) (hcm : canMove P s = false)
    (hdl : ∀ dl ∈ deadlines s, dl ≤ s.now) :
    (step P s (.rGet true)).isSome = true ∨ (step P s .cbRet).isSome = true ∨ Quiescent s := by
  have hli := lockInv P s hr
  have hri := readInv P s hr
  have hidle := upc_idle_of_stuck P s hli hcm hdl
  have hS : (stepS P s).isSome = false := by
    cases h : (stepS P s).isSome with
    | false => rfl
    | true => have : canMove P s = true := by unfold canMove; simp [h]
              simp [this] at hcm
  have hR : (stepR P s).isSome = false := by
    cases h : (stepR P s).isSome with
    | false => rfl
    | true => have : canMove P s = true := by unfold canMove; simp [h]
              simp [this] at hcm
  -- the sender
  have hspc : s.spc = .notStarted ∨ s.spc = .done ∨ s.spc = .dead := by
    cases hs : s.spc with
    | notStarted => simp
    | done => simp
    | dead => simp
    | waitGet d =>
      exfalso
      have : d ∈ deadlines s := by unfold deadlines; simp [hs]
      have := hdl d this
      unfold stepS at hS; simp only [hs] at hS
      cases hq : s.queue <;> simp [hq, this] at hS
    | sleeping u =>
      exfalso
      have : u ∈ deadlines s := by unfold deadlines; simp [hs]
      have := hdl u this
      unfold stepS at hS; simp [hs, this] at hS
    | lockWait t i =>
      exfalso
      cases hl : s.lock with
      | none => unfold stepS at hS; simp [hs, hl] at hS
      | some t' => exact holder_moves P s t' hli hl hcm hdl
    | got m => exfalso; unfold stepS at hS; cases m <;> simp [hs] at hS
    | writing t i => exfalso; unfold stepS at hS; simp only [hs] at hS; (repeat' split at hS) <;> simp at hS
    | _ => exfalso; unfold stepS at hS; simp [hs] at hS
  -- the reader
  cases hrp : s.rpc with
  | notStarted => exact Or.inr (Or.inr ⟨hspc, Or.inl hrp, hidle⟩)
  | done => exact Or.inr (Or.inr ⟨hspc, Or.inr hrp, hidle⟩)
  | reading n dl =>
    left
    cases dl with
    | none => exact absurd hrp (hri.1 n)
    | some d =>
      have : d ∈ deadlines s := by unfold deadlines; simp [hrp]
      have hd := hdl d this
      have hnm : (!s.inbox.isEmpty || s.faultPending || !s.portOpen) = false := by
        cases h : (!s.inbox.isEmpty || s.faultPending || !s.portOpen) with
        | false => rfl
        | true => have : canMove P s = true := by unfold canMove; simp only [hrp, h]; simp
                  simp [this] at hcm
      simp only [Bool.or_eq_false_iff, Bool.not_eq_false'] at hnm
      obtain ⟨⟨h1, h2⟩, h3⟩ := hnm
      simp [step, hrp, h1, h2, h3, hd]
  | inCb l cb todo =>
    right; left
    have : s.rcall = .idle := by have := hidle tidR; simpa [upcOf] using this
    simp [step, hrp, this]
  | inDiscCb =>
    right; left
    have : s.rcall = .idle := by have := hidle tidR; simpa [upcOf] using this
    simp [step, hrp, this]
  | deliver l todo =>
    exfalso
    cases todo with
    | nil => unfold stepR at hR; simp [hrp] at hR
    | cons c cs => have : canMove P s = true := by unfold canMove; simp [hrp]
                   simp [this] at hcm
  | made k =>
    exfalso
    have hk := hri.2.1 k hrp
    unfold stepR at hR
    match k, hk with
    | 0, _ => simp [hrp] at hR
    | 1, _ => simp [hrp] at hR
    | 2, _ => simp [hrp] at hR
    | 3, _ => simp [hrp] at hR
  | lost k =>
    exfalso
    have hk := hri.2.2 k hrp
    unfold stepR at hR
    match k, hk with
    | 0, _ => simp [hrp] at hR
    | 1, _ => simp only [hrp] at hR; cases hq : s.queue <;> simp [hq] at hR
    | 2, _ => simp [hrp] at hR
    | 4, _ => simp only [hrp] at hR; split at hR <;> simp at hR
    | 5, _ => simp [hrp] at hR
    | 3, h => exact h.1 rfl
  | lostJoin d =>
    exfalso
    have : d ∈ deadlines s := by unfold deadlines; simp [hrp]
    have := hdl d this
    unfold stepR at hR; simp [hrp, this] at hR
  | loopTest => exfalso; unfold stepR at hR; simp only [hrp] at hR; split at hR <;> simp at hR
  | split => exfalso; unfold stepR at hR; simp only [hrp] at hR; (repeat' split at hR) <;> simp at hR
  | _ => exfalso; unfold stepR at hR; simp [hrp] at hR

end Ynca.L4.NoHang
