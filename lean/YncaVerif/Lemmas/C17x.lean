import YncaVerif.Lemmas.C15
import YncaVerif.Lemmas.C16
/-! Helper lemmas for C17x: `close()` on a connection whose `connect()` never completed (`_protocol` unassigned,
`_readerthread` set): the path `callClose → c1 → c2 → c3 → c4 → c5 → c6` that skips `c0`, the step that clears the
disconnect callback.  Ghost state of that path: `closeUnpub`, `unpubCloseAt`, `unpubClosers`, `unpubCloseReturned`. -/
namespace Ynca.L4.C17L
open Ynca.L4

section proj
variable (s : St) (t : Tid) (p : UPc)
@[simp] theorem setUpc_now : (setUpc s t p).now = s.now := by unfold setUpc; split <;> rfl
@[simp] theorem setUpc_closeUnpub : (setUpc s t p).closeUnpub = s.closeUnpub := by unfold setUpc; split <;> rfl
@[simp] theorem setUpc_unpubCloseAt : (setUpc s t p).unpubCloseAt = s.unpubCloseAt := by unfold setUpc; split <;> rfl
@[simp] theorem setUpc_unpubClosers : (setUpc s t p).unpubClosers = s.unpubClosers := by unfold setUpc; split <;> rfl
@[simp] theorem setUpc_unpubCloseReturned : (setUpc s t p).unpubCloseReturned = s.unpubCloseReturned := by
  unfold setUpc; split <;> rfl
end proj

/-- the reader thread has ended, or the 2 s join time-out has elapsed since the first close() of this kind was
    entered (every later one started its join later still) -/
def joinedU (P : Params) (s : St) : Prop := s.rpc = .done ∨ s.unpubCloseAt + P.joinTimeout ≤ s.now

/-- what is known at each program point of a close() that was entered on the unpublished path -/
def upcOK (P : Params) (s : St) : UPc → Prop
  | .closing .c1 => True
  | .closing .c2 => True
  | .closing (.c3 dl) => s.unpubCloseAt + P.joinTimeout ≤ dl
  | .closing .c4 => joinedU P s
  | .closing .c5 => joinedU P s
  | .closing .c6 => joinedU P s
  | _ => False

structure UnpubInv (P : Params) (s : St) : Prop where
  /-- such a close() is entered only once the reader thread exists; its entry time is in the past -/
  started : s.closeUnpub = true → s.rpc ≠ .notStarted ∧ s.unpubCloseAt ≤ s.now
  /-- the threads inside such a close() are caller threads and are where `upcOK` says -/
  mem : ∀ t, t ∈ s.unpubClosers → s.closeUnpub = true ∧ t ≠ tidR ∧ upcOK P s (upcOf s t)
  /-- after one of them has returned -/
  ret : s.unpubCloseReturned = true → s.closeUnpub = true ∧ s.closeReturned = true ∧ joinedU P s

theorem upcOK_mono (P : Params) (s s' : St) (p : UPc) (hat : s'.unpubCloseAt = s.unpubCloseAt)
    (hj : joinedU P s → joinedU P s') (h : upcOK P s p) : upcOK P s' p := by
  cases p with
  | closing pc => cases pc <;> simp_all [upcOK]
  | _ => simp_all [upcOK]

/-- steps that leave the caller programs and the ghost state of the path alone -/
theorem unpubInv_frame (P : Params) (s s' : St) (hi : UnpubInv P s)
    (h1 : s'.callers = s.callers) (h2 : s'.rcall = s.rcall) (h3 : s'.unpubClosers = s.unpubClosers)
    (h4 : s'.closeUnpub = s.closeUnpub) (h5 : s'.unpubCloseAt = s.unpubCloseAt)
    (h6 : s'.unpubCloseReturned = s.unpubCloseReturned) (h7 : s'.closeReturned = s.closeReturned)
    (h8 : s.now ≤ s'.now) (h9 : s.rpc = .done → s'.rpc = .done)
    (h10 : s.rpc ≠ .notStarted → s'.rpc ≠ .notStarted) : UnpubInv P s' := by
  have hj : joinedU P s → joinedU P s' := by
    intro h
    rcases h with h | h
    · exact .inl (h9 h)
    · right; rw [h5]; omega
  have hu : ∀ t, upcOf s' t = upcOf s t := by intro t; simp [upcOf, h1, h2]
  refine ⟨fun h => ?_, fun t ht => ?_, fun h => ?_⟩
  · rw [h4] at h
    have := hi.started h
    exact ⟨h10 this.1, by rw [h5]; omega⟩
  · rw [h3] at ht
    obtain ⟨a, b, c⟩ := hi.mem t ht
    exact ⟨by rw [h4]; exact a, b, by rw [hu]; exact upcOK_mono P s s' _ h5 hj c⟩
  · rw [h6] at h
    obtain ⟨a, b, c⟩ := hi.ret h
    exact ⟨by rw [h4]; exact a, by rw [h7]; exact b, hj c⟩

/-- steps of one caller program: `s1` is the state with the fields of the step updated, `p` the new program point -/
theorem unpubInv_setUpc (P : Params) (s s1 : St) (t0 : Tid) (p : UPc) (hi : UnpubInv P s)
    (hcs : s1.callers = s.callers) (hrc : s1.rcall = s.rcall)
    (hnow : s1.now = s.now) (hrpc : s1.rpc = s.rpc)
    (hcu : s.closeUnpub = true → s1.closeUnpub = true ∧ s1.unpubCloseAt = s.unpubCloseAt)
    (hst : s1.closeUnpub = true → s1.rpc ≠ .notStarted ∧ s1.unpubCloseAt ≤ s1.now)
    (hmem : ∀ t, t ∈ s1.unpubClosers → t = t0 ∨ t ∈ s.unpubClosers)
    (h0 : t0 ∈ s1.unpubClosers → s1.closeUnpub = true ∧ t0 ≠ tidR ∧ upcOK P s1 p)
    (hret : s1.unpubCloseReturned = true → s1.closeUnpub = true ∧ s1.closeReturned = true ∧ joinedU P s1) :
    UnpubInv P (setUpc s1 t0 p) := by
  have hu : ∀ t, upcOf s1 t = upcOf s t := by intro t; simp [upcOf, hrc, hcs]
  refine ⟨by simpa using hst, fun t ht => ?_, fun h => ?_⟩
  · simp only [setUpc_unpubClosers] at ht
    by_cases htt : t = t0
    · subst htt
      obtain ⟨a, b, c⟩ := h0 ht
      refine ⟨by simpa using a, b, ?_⟩
      rw [upcOf_setUpc_same]
      exact upcOK_mono P s1 _ _ (by simp) (by simp [joinedU]) c
    · have hts : t ∈ s.unpubClosers := by
        rcases hmem t ht with h | h
        · exact absurd h htt
        · exact h
      obtain ⟨a, b, c⟩ := hi.mem t hts
      obtain ⟨a1, a2⟩ := hcu a
      refine ⟨by simpa using a1, b, ?_⟩
      rw [upcOf_setUpc_other _ _ _ _ htt, hu]
      exact upcOK_mono P s _ _ (by simp [a2]) (by simp [joinedU, hrpc, hnow, a2]) c
  · simp only [setUpc_unpubCloseReturned] at h
    obtain ⟨a, b, c⟩ := hret h
    exact ⟨by simpa using a, by simpa using b, by simpa [joinedU] using c⟩

theorem upc_beq_idle (p : UPc) (h : (p == .idle) = true) : p = .idle := by
  cases p with
  | idle => rfl
  | _ => exact absurd h Bool.false_ne_true

theorem mayCall_idle (s : St) (t : Tid) (h : mayCall s t = true) : upcOf s t = .idle := by
  unfold mayCall at h
  unfold upcOf
  split
  · rename_i ht; simp only [ht, if_true, Bool.and_eq_true] at h; exact upc_beq_idle _ h.2
  · rename_i ht; simp only [ht, if_false] at h; exact upc_beq_idle _ h

theorem unpubInv_step (P : Params) (s s' : St) (l : Label) (o : Option Obs)
    (hi : UnpubInv P s) (hs : step P s l = some (s', o)) : UnpubInv P s' := by
  cases l with
  | u t0 =>
    have hm0 := hi.mem t0
    have hst := hi.started
    have hrt := hi.ret
    l4_step_cases hs <;>
      (apply unpubInv_setUpc P s (hi := hi) <;> simp_all [upcOK, joinedU])
    · -- c3 → c4: the join has ended; for a close() of this kind, because the reader is done or its deadline has passed
      rename_i dl hj
      intro hin
      obtain ⟨hcu, _, hdl⟩ := hm0 hin
      have hns := (hst hcu).1
      rcases hj with hj | hj | hj
      · exact .inl hj
      · exact absurd hj hns
      · right; omega
    · -- c6 → idle: the close() returns
      intro h
      rcases h with h | h
      · exact ⟨(hrt h).1, (hrt h).2.2⟩
      · exact ⟨(hm0 h).1, (hm0 h).2.2⟩
  | call t0 text =>
    have hm0 := hi.mem t0
    have hst := hi.started
    have hrt := hi.ret
    by_cases hmc : mayCall s t0 = true
    · have hidle := mayCall_idle s t0 hmc
      l4_step_cases hs <;>
        (apply unpubInv_setUpc P s (hi := hi) <;> simp_all [upcOK, joinedU])
    · simp [step, hmc] at hs
  | callClose t0 =>
    have hm0 := hi.mem t0
    have hst := hi.started
    have hrt := hi.ret
    by_cases hmc : mayCall s t0 = true
    · have hidle := mayCall_idle s t0 hmc
      rcases Bool.eq_false_or_eq_true s.closeUnpub with hcu | hcu <;>
      l4_step_cases hs <;>
        (apply unpubInv_setUpc P s (hi := hi) <;> simp_all [upcOK, joinedU])
    · simp [step, hmc] at hs
  | _ =>
    l4_step_cases hs <;>
      (apply unpubInv_frame P s (hi := hi) <;> simp_all)

theorem unpubInv_reachable (P : Params) (s : St) (h : Reachable P s) : UnpubInv P s :=
  reachable_induction P (UnpubInv P) (by constructor <;> simp) (unpubInv_step P) s h

/-- the disconnect callback is cleared only by a close() that found `_protocol` assigned -/
structure PubInv (s : St) : Prop where
  started : s.closeStarted = true → s.published = true
  atC0 : ∀ t, upcOf s t = .closing .c0 → s.published = true

theorem pubInv_setUpc (s s1 : St) (t0 : Tid) (p : UPc) (hi : PubInv s)
    (hcs : s1.callers = s.callers) (hrc : s1.rcall = s.rcall)
    (hpub : s.published = true → s1.published = true)
    (hst : s1.closeStarted = true → s1.published = true)
    (hp : p = .closing .c0 → s1.published = true) : PubInv (setUpc s1 t0 p) := by
  have hu : ∀ t, upcOf s1 t = upcOf s t := by intro t; simp [upcOf, hrc, hcs]
  refine ⟨by simpa using hst, fun t h => ?_⟩
  by_cases ht : t = t0
  · subst ht; rw [upcOf_setUpc_same] at h; simpa using hp h
  · rw [upcOf_setUpc_other _ _ _ _ ht, hu] at h; simpa using hpub (hi.atC0 t h)

theorem pubInv_step (P : Params) (s s' : St) (l : Label) (o : Option Obs)
    (hi : PubInv s) (hs : step P s l = some (s', o)) : PubInv s' := by
  have h1 := hi.started
  cases l with
  | u t0 =>
    have h0 := hi.atC0 t0
    l4_step_cases hs <;> (apply pubInv_setUpc s (hi := hi) <;> simp_all)
  | call t0 text =>
    l4_step_cases hs <;> (apply pubInv_setUpc s (hi := hi) <;> simp_all)
  | callClose t0 =>
    l4_step_cases hs <;> (apply pubInv_setUpc s (hi := hi) <;> simp_all)
  | _ =>
    l4_step_cases hs <;>
      exact ⟨by simp_all, fun t h => by have := hi.atC0 t (by simpa [upcOf] using h); simp_all⟩

theorem started_published (P : Params) (s : St) (h : Reachable P s) (hc : s.closeStarted = true) :
    s.published = true :=
  (reachable_induction P PubInv (by constructor <;> simp [upcOf, lookup]) (pubInv_step P) s h).started hc

end Ynca.L4.C17L
