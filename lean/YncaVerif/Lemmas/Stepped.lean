import YncaVerif.Model.Stepped
/-! Helper lemmas for C11 (rounding, decimal digits). -/
namespace Ynca

/-! ### rounding -/

theorem roundHalfEven_near (p : Int) (q : Nat) (hq : 0 < q) :
    2 * (p - roundHalfEven p q * q).natAbs ≤ q := by
  have hq' : (0 : Int) < q := by exact_mod_cast hq
  have h1 := Int.emod_add_mul_ediv p q
  have h2 := Int.emod_nonneg p (Int.ne_of_gt hq')
  have h3 := Int.emod_lt_of_pos p hq'
  unfold roundHalfEven
  simp only
  generalize hf : p / (q : Int) = f at *
  generalize hr : p % (q : Int) = r at *
  have hp : p = r + q * f := by omega
  split
  · have : p - f * q = r := by rw [hp]; rw [Int.mul_comm f]; omega
    rw [this]; omega
  · split
    · have : p - (f + 1) * q = r - q := by rw [hp, Int.add_mul, Int.mul_comm f]; omega
      rw [this]; omega
    · split
      · have : p - f * q = r := by rw [hp]; rw [Int.mul_comm f]; omega
        rw [this]; omega
      · have : p - (f + 1) * q = r - q := by rw [hp, Int.add_mul, Int.mul_comm f]; omega
        rw [this]; omega

/-- any other integer is at least as far away: the chosen one is *a nearest* -/
theorem roundHalfEven_nearest (p : Int) (q : Nat) (hq : 0 < q) (j : Int) :
    (p - roundHalfEven p q * q).natAbs ≤ (p - j * q).natAbs := by
  have h := roundHalfEven_near p q hq
  generalize roundHalfEven p q = k at *
  by_cases hjk : j = k
  · subst hjk; exact Nat.le_refl _
  · -- |k - j| ≥ 1 so |(p - jq) - (p - kq)| ≥ q
    have hd : (k - j).natAbs ≥ 1 := by omega
    have : ((k - j) * q).natAbs ≥ q := by
      rw [Int.natAbs_mul]; simp
      exact Nat.le_mul_of_pos_left q (by omega)
    have e : (p - j * q) = (p - k * q) + (k - j) * q := by
      rw [Int.sub_mul]; omega
    omega

/-! ### digits -/

theorem dval_foldl (cs : List Char) (a : Nat) :
    cs.foldl (fun a c => a * 10 + (c.toNat - 48)) a = a * 10 ^ cs.length + dval cs := by
  induction cs generalizing a with
  | nil => simp [dval]
  | cons c cs ih =>
    simp only [List.foldl_cons, List.length_cons, dval]
    rw [ih, ih (0 * 10 + (c.toNat - 48))]
    simp [Nat.pow_succ, Nat.add_mul, Nat.mul_assoc, Nat.mul_comm 10, Nat.add_assoc]

theorem dval_append (a b : List Char) : dval (a ++ b) = dval a * 10 ^ b.length + dval b := by
  unfold dval
  rw [List.foldl_append, dval_foldl]
  rfl

theorem dval_singleton_digitChar (n : Nat) (h : n < 10) : dval [n.digitChar] = n := by
  simp [dval, Nat.toNat_digitChar_sub_48_of_lt_ten h]

theorem dval_toDigits (n : Nat) : dval (Nat.toDigits 10 n) = n := by
  induction n using Nat.strongRecOn with
  | ind n ih =>
    rw [Nat.toDigits_eq_if (by omega)]
    split
    · exact dval_singleton_digitChar n ‹_›
    · rw [dval_append, ih (n / 10) (by omega), dval_singleton_digitChar _ (Nat.mod_lt _ (by omega))]
      simp; omega

theorem allDigits_toDigits (n : Nat) : allDigits (Nat.toDigits 10 n) = true := by
  simp only [allDigits, List.all_eq_true]
  intro c hc
  exact Nat.isDigit_of_mem_toDigits (by omega) (by omega) hc

theorem dval_replicate_zero (z : Nat) (cs : List Char) : dval (List.replicate z '0' ++ cs) = dval cs := by
  induction z with
  | zero => simp
  | succ z ih =>
    rw [List.replicate_succ, List.cons_append]
    unfold dval at *
    simp only [List.foldl_cons]
    simpa using ih

theorem dval_padDigits (w n : Nat) : dval (padDigits w n) = n := by
  simp [padDigits, dval_replicate_zero, dval_toDigits]

theorem allDigits_padDigits (w n : Nat) : allDigits (padDigits w n) = true := by
  have := allDigits_toDigits n
  simp only [allDigits, List.all_eq_true, padDigits, List.mem_append, List.mem_replicate] at *
  intro c hc
  rcases hc with ⟨_, rfl⟩ | hc
  · decide
  · exact this c hc

theorem length_padDigits (w n : Nat) (hw : 0 < w) (hn : n < 10 ^ w) : (padDigits w n).length = w := by
  have := (Nat.length_toDigits_le_iff (b := 10) (n := n) (k := w) (by omega) hw).mpr hn
  simp [padDigits]; omega

theorem not_dot_of_allDigits (cs : List Char) (h : allDigits cs = true) : ∀ c ∈ cs, c ≠ '.' := by
  intro c hc hdot
  simp only [allDigits, List.all_eq_true] at h
  have := h c hc
  subst hdot
  revert this; decide

theorem takeWhile_digits_dot (ds rest : List Char) (h : allDigits ds = true) :
    (ds ++ '.' :: rest).takeWhile (· ≠ '.') = ds ∧ (ds ++ '.' :: rest).dropWhile (· ≠ '.') = '.' :: rest := by
  have hnd := not_dot_of_allDigits ds h
  induction ds with
  | nil => simp
  | cons c cs ih =>
    have hc : c ≠ '.' := hnd c (by simp)
    have hcs : allDigits cs = true := by
      simp only [allDigits, List.all_cons, Bool.and_eq_true] at h ⊢; exact h.2
    have := ih hcs (fun x hx => hnd x (by simp [hx]))
    simp [hc]; simpa using this

theorem takeWhile_digits_only (ds : List Char) (h : allDigits ds = true) :
    ds.takeWhile (· ≠ '.') = ds ∧ ds.dropWhile (· ≠ '.') = [] := by
  have hnd := not_dot_of_allDigits ds h
  induction ds with
  | nil => simp
  | cons c cs ih =>
    have hc : c ≠ '.' := hnd c (by simp)
    have hcs : allDigits cs = true := by
      simp only [allDigits, List.all_cons, Bool.and_eq_true] at h ⊢; exact h.2
    have := ih hcs (fun x hx => hnd x (by simp [hx]))
    simp [hc]; simpa using this

end Ynca
