import YncaVerif.Model.ApiTimed
import YncaVerif.Lemmas.Api
/-! Lemmas about L7t: projection to L7, the time budget of `initialize()`. -/
namespace Ynca.L7

/-! ## projection: an L7t run is an L7 run (with the `construct` labels erased) -/

theorem map_a {f : A → T} (hf : ∀ a', (f a').a = a') {o : Option A} {s' : T} (h : o.map f = some s') :
    o = some s'.a := by
  cases o with
  | none => simp at h
  | some a' => simp at h; subst h; simp [hf]

theorem stepT_base_a (P : Params) (N : Nat) (s s' : T) (l : Label) (h : stepT P N s (.base l) = some s') :
    step P s.a l = some s'.a := by
  unfold stepT at h
  cases l with
  | start => exact map_a (fun _ => rfl) h
  | connectFails => exact map_a (fun _ => rfl) h
  | wait n =>
    simp only [] at h
    split at h
    · exact map_a (fun _ => rfl) h
    · cases h
  | msg m => exact map_a (fun _ => rfl) h
  | wake => exact map_a (fun _ => rfl) h
  | timeout => exact map_a (fun _ => rfl) h
  | subunitOk =>
    simp only [] at h
    split at h
    · exact map_a (fun _ => rfl) h
    · cases h
  | subunitFails =>
    simp only [] at h
    split at h
    · exact map_a (fun _ => rfl) h
    · cases h
  | close => exact map_a (fun _ => rfl) h
  | tick d =>
    simp only [] at h
    split at h
    · cases h
    · cases h
    · split at h
      · exact map_a (fun _ => rfl) h
      · cases h
    · exact map_a (fun _ => rfl) h

theorem stepT_construct_a (P : Params) (N : Nat) (s s' : T) (n : Nat) (h : stepT P N s (.construct n) = some s') :
    s'.a = s.a := by
  unfold stepT at h
  simp only [] at h
  split at h
  · split at h
    · cases h; rfl
    · cases h
  · cases h

theorem runT_project (P : Params) (N : Nat) (ls : List TLabel) (s s' : T) (h : runT P N s ls = some s') :
    run P s.a (eraseT ls) = some s'.a := by
  induction ls generalizing s with
  | nil => simp [runT] at h; subst h; simp [eraseT, run]
  | cons l ls ih =>
    simp only [runT] at h
    split at h
    · rename_i s1 hs
      cases l with
      | base l0 =>
        simp only [eraseT, run]
        rw [stepT_base_a P N s s1 l0 hs]
        exact ih s1 h
      | construct n =>
        simp only [eraseT]
        rw [← stepT_construct_a P N s s1 n hs]
        exact ih s1 h
    · cases h

theorem reachableT_project (P : Params) (N : Nat) (s : T) (h : ReachableT P N s) : Reachable P s.a := by
  obtain ⟨ls, hr⟩ := h
  exact ⟨eraseT ls, runT_project P N ls {} s hr⟩

end Ynca.L7

namespace Ynca.L7

/-! ## the time budget -/

/-- the longest single wait: `2 s + 5·spacing` per command, at most `N` commands -/
def D (P : Params) (N : Nat) : Nat := P.baseUs + P.perCmdUs * N

/-- budget after `k` objects -/
def B (P : Params) (N : Nat) (t0 k : Nat) : Nat := t0 + D P N * (1 + k)

theorem B_mono (P : Params) (N t0 : Nat) {k k' : Nat} (h : k ≤ k') : B P N t0 k ≤ B P N t0 k' := by
  unfold B
  have : D P N * (1 + k) ≤ D P N * (1 + k') := Nat.mul_le_mul_left _ (by omega)
  omega

theorem B_succ (P : Params) (N t0 k : Nat) : B P N t0 k + D P N = B P N t0 (k + 1) := by
  unfold B
  have : D P N * (1 + (k + 1)) = D P N * (1 + k) + D P N := by
    rw [show 1 + (k + 1) = (1 + k) + 1 by omega, Nat.mul_add, Nat.mul_one]
  omega

theorem B_zero (P : Params) (N t0 : Nat) : B P N t0 0 = t0 + D P N := by simp [B]

theorem wait_le_D (P : Params) (N n : Nat) (h : n ≤ N) : P.baseUs + P.perCmdUs * n ≤ D P N := by
  unfold D
  have : P.perCmdUs * n ≤ P.perCmdUs * N := Nat.mul_le_mul_left _ h
  omega

def TInv (P : Params) (N : Nat) (s : T) : Prop :=
  match s.a.phase with
  | .fresh => True
  | .enqueueing => s.a.now = s.t0 ∧ s.objDl = none ∧ s.doneAt = none ∧ s.built = 0
  | .detecting dl => dl ≤ s.t0 + D P N ∧ s.a.now ≤ dl ∧ s.objDl = none ∧ s.doneAt = none ∧ s.built = 0
  | .building todo => s.doneAt = none ∧
      match s.objDl with
      | none => s.built + todo.length = (plan P.classIds s.a.avail).length ∧ s.a.now ≤ B P N s.t0 s.built
      | some dl => s.built + todo.length = (plan P.classIds s.a.avail).length + 1 ∧ dl ≤ B P N s.t0 s.built ∧ s.a.now ≤ dl
  | .ready => ∃ t, s.doneAt = some t ∧ t ≤ B P N s.t0 (plan P.classIds s.a.avail).length
  | .failed => ∃ t, s.doneAt = some t ∧ t ≤ B P N s.t0 (plan P.classIds s.a.avail).length
  | .closed => True

theorem tinv_init (P : Params) (N : Nat) : TInv P N {} := by simp [TInv]

theorem plan_length_pos (cls av : List String) : 1 ≤ (plan cls av).length := by simp [plan]

end Ynca.L7
