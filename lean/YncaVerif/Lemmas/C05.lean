import YncaVerif.Model.Subunit
namespace Ynca
end Ynca
